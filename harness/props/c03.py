"""C03 — Initial allocation equals the exact geometric overlap.

Public entry: `create_initial_allocation(Die(die_text, Netlist(netlist_text)), include_area_zero)` on generated
die + netlist documents (dies with blockages, specialised regions, fixed modules, optionally refined with
`die.split_refinable_regions`; soft modules with / without rectangles — overlapping other modules, abutting, tiling
whole cells, sticking out of the die —, hard and fixed modules, single and multi-region areas; include-zero on / off).

Correspondence: the whole returned `Allocation` (cell list with rectangles, flags, ratio maps and depths, bounding
box, per-module area and centre) or the exception class, against the Lean model `FV/Model/InitAlloc.lean`
(`createInitialAllocation`), which is given what `die.floorplanning_rectangles()` returned and what the parsed
netlist modules contain *before* the call (the die decomposition and the YAML readers are C01's / C04's subject).
  * Q stream: dyadic documents with perfect-square areas — model at `Rat`;
  * F stream: decimal documents — model at `Float` (bit-faithful, incl. CPython's compensated `sum()`).
Spec on the implementation (exact `fractions.Fraction` arithmetic on the DOCUMENT's numbers): the clauses of
`FV/Props/C03.lean` — every listed ratio is the exact overlap fraction, listing ⇔ positive overlap (or include-zero),
fixed cells are exactly the fixed modules' rectangles with `{m ↦ 1}` and the flag, the non-fixed cells tile the die
minus blockages minus fixed rectangles, the area allocated to a module is the exact area of its shape on that region,
a rectangle-less module is a square of its area around its centre.
"""
from __future__ import annotations

import zlib
import math
from fractions import Fraction as Fr

from vcheck import Ctx, f2hex, hex2f, q2s
from frame.allocation.allocation import Allocation, create_initial_allocation
from frame.die.die import Die
from frame.geometry.geometry import Rectangle
from frame.netlist.netlist import Netlist

LEVEL = "proof"
DRIVERS = ["drv_initalloc"]
TRUSTED = [
    "Lean 4.33 kernel; Mathlib lemmas; axioms ⊆ {propext, Classical.choice, Quot.sound}",
    "hand-written model FV/Model/InitAlloc.lean (on FV/Model/Geom.lean) — fidelity to allocation.py (create_initial_allocation, "
    "initial_allocation, _detect_fixed_rectangles, the descriptor path of Allocation.__init__), netlist.create_squares, "
    "module.create_square/area checked by this correspondence run (incl. CPython 3.12's Neumaier sum()), not proved",
    "the die decomposition (die.floorplanning_rectangles) and the YAML readers are inputs of the model, taken from the "
    "implementation (properties C01 / C04); the spec oracle re-checks on the document that the non-fixed cells tile the free die",
    "theorems are over exact ordered fields; IEEE rounding is executed (F stream), never proved; math.sqrt is a parameter "
    "of the model (Float.sqrt / exact rational root on perfect squares)",
    "harness (Python) and compiled Lean driver: generation, serialisation, comparison, exact oracle",
]

EPS6 = Fr(1, 10 ** 6)
TAGS = ["dsp", "bram", "dsp"]


# ------------------------------------------------------------------------------------------------ numbers
def sc(x, mode: str) -> str:
    return f2hex(x) if mode == "F" else q2s(Fr(x))


def num(x: float) -> str:
    """document text of a float (repr round-trips exactly; integers keep a `.0`)."""
    return repr(float(x))


def rbb(r):
    cx, cy, w, h = (Fr(v) for v in r[:4])
    return cx - w / 2, cy - h / 2, cx + w / 2, cy + h / 2


def ov(a, b) -> Fr:
    ax0, ay0, ax1, ay1 = rbb(a)
    bx0, by0, bx1, by1 = rbb(b)
    dx = min(ax1, bx1) - max(ax0, bx0)
    dy = min(ay1, by1) - max(ay0, by0)
    return dx * dy if dx > 0 and dy > 0 else Fr(0)


def area(r) -> Fr:
    return Fr(r[2]) * Fr(r[3])


# ------------------------------------------------------------------------------------------------ generation
def _mk(x0, y0, x1, y1, U: Fr):
    """lattice box → [cx, cy, w, h] as floats (nearest doubles of the exact values)."""
    return [float((x0 + x1) * U / 2), float((y0 + y1) * U / 2), float((x1 - x0) * U), float((y1 - y0) * U)]


def _rand_box(rng, nx, ny, half=False, out=0, maxsz=3):
    """integer (or half-integer) box, possibly sticking out of [0,nx]×[0,ny] by `out`."""
    k = 2 if half else 1
    w = rng.randint(1, maxsz * k)
    h = rng.randint(1, maxsz * k)
    x0 = rng.randint(-out * k, nx * k - 1)
    y0 = rng.randint(-out * k, ny * k - 1)
    return Fr(x0, k), Fr(y0, k), Fr(x0 + w, k), Fr(y0 + h, k)


def _boxes_overlap(a, b):
    return min(a[2], b[2]) > max(a[0], b[0]) and min(a[3], b[3]) > max(a[1], b[1])


def gen_doc(rng, mode: str) -> dict:
    if mode == "Q":
        U = rng.choice([Fr(1), Fr(1), Fr(1, 2), Fr(1, 4), Fr(2)])
    else:
        U = rng.choice([Fr(1, 10), Fr(1, 10), Fr(3, 10), Fr(7, 100), Fr(1, 3), Fr(11, 10), Fr(1, 1000), Fr(130)])
    nx, ny = rng.randint(2, 8), rng.randint(2, 8)
    reserved: list[tuple] = []      # lattice boxes of blockages, specialised regions, fixed rectangles

    def place(maxsz=3, tries=12):
        for _ in range(tries):
            x0 = rng.randint(0, nx - 1)
            y0 = rng.randint(0, ny - 1)
            b = (Fr(x0), Fr(y0), Fr(min(nx, x0 + rng.randint(1, maxsz))), Fr(min(ny, y0 + rng.randint(1, maxsz))))
            if all(not _boxes_overlap(b, o) for o in reserved):
                if sum((o[2] - o[0]) * (o[3] - o[1]) for o in reserved + [b]) < nx * ny:   # keep a free lattice cell
                    reserved.append(b)
                    return b
        return None

    regions = []
    for _ in range(rng.choice([0, 0, 1, 1, 2, 3])):
        b = place()
        if b:
            regions.append(_mk(*b, U) + [rng.choice(["#", "#", "dsp", "bram"])])
    modules = []
    idx = 0

    def name(prefix):
        nonlocal idx
        idx += 1
        return f"{prefix}{idx}"

    # fixed modules: rectangles are die cells of their own
    for _ in range(rng.choice([0, 0, 1, 1, 2])):
        rs = []
        for _ in range(rng.choice([1, 1, 2, 3])):
            b = place(maxsz=2)
            if b:
                rs.append(_mk(*b, U))
        if rs:
            modules.append({"name": name("F"), "kind": "fixed", "rects": rs})
    # hard modules
    for _ in range(rng.choice([0, 0, 0, 1, 2])):
        own = []
        for _ in range(rng.choice([1, 1, 2])):
            b = _rand_box(rng, nx, ny, half=rng.random() < 0.5, out=1)
            if b[0] + b[2] >= 0 and b[1] + b[3] >= 0 and all(not _boxes_overlap(b, o) for o in own):
                own.append(b)
        if own:
            modules.append({"name": name("H"), "kind": "hard", "rects": [_mk(*b, U) for b in own]})
    # soft modules with rectangles
    for _ in range(rng.choice([0, 1, 1, 2, 3])):
        own = []
        style = rng.random()
        if style < 0.3:   # abutting pieces of one lattice box (covers whole cells, ratio 1 as a sum of parts)
            x0, y0 = rng.randint(0, nx - 1), rng.randint(0, ny - 1)
            x1, y1 = rng.randint(x0 + 1, nx), rng.randint(y0 + 1, ny)
            if x1 - x0 >= 2 and rng.random() < 0.7:
                cuts = sorted(rng.sample(range(x0 + 1, x1), min(x1 - x0 - 1, rng.choice([1, 1, 2]))))
                xs = [x0] + cuts + [x1]
                own = [(Fr(a), Fr(y0), Fr(b), Fr(y1)) for a, b in zip(xs, xs[1:])]
            elif y1 - y0 >= 2:
                c = rng.randint(y0 + 1, y1 - 1)
                own = [(Fr(x0), Fr(y0), Fr(x1), Fr(c)), (Fr(x0), Fr(c), Fr(x1), Fr(y1))]
            else:
                own = [(Fr(x0), Fr(y0), Fr(x1), Fr(y1))]
            if rng.random() < 0.3:   # thirds of the unit instead of lattice lines
                t = Fr(rng.choice([1, 2]), 3) if mode == "F" else Fr(rng.choice([1, 3]), 4)
                own = [(b[0] + t, b[1], b[2] + t, b[3]) for b in own]
        else:
            for _ in range(rng.choice([1, 1, 2, 3])):
                b = _rand_box(rng, nx, ny, half=rng.random() < 0.6, out=1 if rng.random() < 0.4 else 0, maxsz=4)
                if b[0] + b[2] >= 0 and b[1] + b[3] >= 0 and all(not _boxes_overlap(b, o) for o in own):
                    own.append(b)
        if not own:
            continue
        rs = [_mk(*b, U) for b in own]
        if rng.random() < 0.2:
            rs[rng.randrange(len(rs))].append(rng.choice(TAGS))
        a = float(sum(area(r) for r in rs)) if rng.random() < 0.7 else float(rng.randint(1, 9) * U)
        modules.append({"name": name("S"), "kind": "soft", "rects": rs, "area": [["_", a]]})
    # soft modules without rectangles: a square of their area around the centre
    for _ in range(rng.choice([0, 1, 1, 2, 3]) if modules else rng.choice([1, 1, 2, 3])):
        cx = Fr(rng.randint(0, 2 * nx), 2) * U
        cy = Fr(rng.randint(0, 2 * ny), 2) * U
        if rng.random() < 0.1:
            cx = Fr(rng.randint(2 * nx, 2 * nx + 4), 2) * U     # at / beyond the east border
        if mode == "Q":
            side = Fr(rng.randint(1, 2 * max(nx, ny)), 2) * U
            tot = side * side
        else:
            tot = Fr(rng.randint(1, 4 * nx * ny), 4) * U * U if rng.random() < 0.7 else Fr(repr(rng.uniform(0.01, 30.0))) * U * U
        if rng.random() < 0.25:
            k = rng.randint(1, 7)
            parts = [["_", float(tot * k / 8)], [rng.choice(TAGS), float(tot * (8 - k) / 8)]]
            if rng.random() < 0.3:
                parts.append(["bram2", float(tot / 8)])
                parts[0][1] = float(tot * k / 8 - tot / 8) if k > 1 else parts[0][1]
                if k == 1:
                    parts.pop()
        else:
            parts = [["_", float(tot)]]
        m = {"name": name("s"), "kind": "soft", "rects": [], "area": parts, "center": [float(cx), float(cy)]}
        if rng.random() < 0.02:
            del m["center"]            # malformed on purpose: `create_square` must fail with its assertion
        modules.append(m)
    rng.shuffle(modules)
    doc = {"mode": mode, "W": float(nx * U), "H": float(ny * U), "regions": regions, "modules": modules,
           "split": None, "iz": False}
    if rng.random() < 0.35:
        doc["split"] = [rng.choice([1.5, 2.0, 3.0, 1.42]), rng.randint(1, 8)]
    doc["iz"] = rng.random() < 0.45
    # entry: the public function, or one level below — Allocation(descriptors).initial_allocation(netlist) on the
    # die's cells given as YAML vectors (not flagged yet) with refinement depths (i * k) % 4
    doc["entry"] = "cia" if rng.random() < 0.65 else "ia"
    doc["depth_k"] = rng.choice([0, 1, 1, 3]) if doc["entry"] == "ia" else 0
    # second entry point only: some refinable descriptors arrive as `Rectangle` objects ALREADY flagged fixed although no fixed
    # module owns them — `initial_allocation` skips flagged cells and `_detect_fixed_rectangles` does not claim them, so they
    # are dropped from the result (the model does the same; the oracle treats them as blocked area)
    if doc["entry"] == "ia" and rng.random() < 0.3:
        doc["preflag"] = rng.randint(0, 4)
    if rng.random() < 0.22:
        gen_history(rng, doc, U)
    return doc


def gen_history(rng, doc, U: Fr) -> None:
    """what the placement tools do to a netlist between its loading and (another) initial allocation: optionally allocate once
    (`prealloc` — creates the squares, evaluates every bounding box), then move non-fixed modules rigidly:
      recenter      `m.center = Point(...); m.recenter_rectangles()`          (hard modules; tools/spectral, tools/glbfloor)
      inplace       `r.center.x += dx; r.center.y += dy` for each rectangle    (the Point object is mutated, no setter runs)
      setter        `r.center = Point(...)` for each rectangle
      centre        `m.center.x += dx` of a rectangle-less module (after `prealloc` its square SHARES that Point object)
    The allocation that is compared and judged is the one made AFTER the moves; its oracle reads the CURRENT centre / shape
    fields of the module rectangles (never a bounding box)."""
    mode = doc["mode"]
    movable = [m for m in doc["modules"] if m["kind"] != "fixed" and (m["rects"] or "center" in m)]
    if not movable:
        return
    moves = []
    for m in rng.sample(movable, min(len(movable), rng.choice([1, 1, 2]))):
        dx = float(Fr(rng.randint(-4, 4), 2) * U)
        dy = float(Fr(rng.randint(-4, 4), 2) * U)
        if dx == 0 and dy == 0:
            dx = float(U)
        if not m["rects"]:
            how = "centre"
        elif m["kind"] == "hard" and (mode == "F" or len(m["rects"]) == 1) and rng.random() < 0.5:
            how = "recenter"
        else:
            how = rng.choice(["inplace", "inplace", "setter"])
        moves.append({"name": m["name"], "how": how, "dx": dx, "dy": dy})
    doc["history"] = {"prealloc": rng.random() < 0.55, "moves": moves}


def render(doc) -> tuple[str, str]:
    d = f"width: {num(doc['W'])}\nheight: {num(doc['H'])}\n"
    if doc["regions"]:
        d += "regions: [" + ", ".join("[" + ", ".join(num(v) for v in r[:4]) + f", '{r[4]}']" for r in doc["regions"]) + "]\n"
    n = "Modules:\n"
    for m in doc["modules"]:
        n += f"  {m['name']}:\n"
        # a third of the non-fixed modules spell the default out (`fixed: false`): the presence of the keyword must not
        # matter, only its value (seeded C03-f1)
        spelled = m["kind"] != "fixed" and zlib.crc32(m["name"].encode()) % 3 == 0
        if m["kind"] == "fixed":
            n += "    fixed: true\n"
        elif m["kind"] == "hard":
            n += "    hard: true\n"          # (`hard` and `fixed` keys are mutually exclusive whatever their values)
        else:
            if spelled:
                n += "    fixed: false\n"
            parts = m["area"]
            if len(parts) == 1 and parts[0][0] == "_":
                n += f"    area: {num(parts[0][1])}\n"
            else:
                n += "    area: {" + ", ".join(f"{k}: {num(v)}" for k, v in parts) + "}\n"
        if "center" in m:
            n += f"    center: [{num(m['center'][0])}, {num(m['center'][1])}]\n"
        if m["rects"]:
            n += "    rectangles: [" + ", ".join(
                "[" + ", ".join(num(v) for v in r[:4]) + (f", {r[4]}" if len(r) == 5 else "") + "]" for r in m["rects"]) + "]\n"
    return d, n


# ------------------------------------------------------------------------------------------------ implementation
def _rect_tok(r: Rectangle, mode: str) -> str:
    return f"{sc(r.center.x, mode)} {sc(r.center.y, mode)} {sc(r.shape.w, mode)} {sc(r.shape.h, mode)} " \
           f"{r.region} {int(r.fixed)} {int(r.hard)}"


def run_impl(doc) -> dict:
    """build die + netlist, snapshot the model's inputs, call the public entry; never raises."""
    mode = doc["mode"]
    die_text, net_text = render(doc)
    Rectangle.undefine_epsilon()
    res: dict = {"stage": "build"}
    try:
        netlist = Netlist(net_text)
        die = Die(die_text, netlist)
        if doc["split"]:
            die.split_refinable_regions(doc["split"][0], doc["split"][1])
        refinable, fixed = die.floorplanning_rectangles()
        epsA = Rectangle.area_epsilon()
    except Exception as ex:   # the documents are C01's / C04's subject: a rejected document is not a C03 case
        Rectangle.undefine_epsilon()
        res.update(status="rejected", exc=type(ex).__name__, msg=str(ex)[:160])
        return res
    hist = doc.get("history")
    if hist:
        try:
            _apply_history(doc, hist, die, netlist)
            refinable, fixed = die.floorplanning_rectangles()
        except Exception as ex:   # a move the library refuses (e.g. recenter on a module without centre): not a case
            Rectangle.undefine_epsilon()
            res.update(status="rejected", exc="history:" + type(ex).__name__, msg=str(ex)[:160])
            return res
        # the oracle's view of the modules NOW: centre / shape FIELDS (a bounding box is never read here)
        res["shapes_now"] = {m.name: [[r.center.x, r.center.y, r.shape.w, r.shape.h] for r in m.rectangles] for m in netlist.modules}
        res["centres_now"] = {m.name: (None if m.center is None else [m.center.x, m.center.y]) for m in netlist.modules}
    mods = []
    for m in netlist.modules:
        t = f"{m.name} {int(m.is_fixed)} {len(m.rectangles)}"
        for r in m.rectangles:
            t += " " + _rect_tok(r, mode)
        vals = list(m.area_regions.values())
        t += f" {len(vals)}" + "".join(" " + sc(v, mode) for v in vals)
        t += " 0" if m.center is None else f" 1 {sc(m.center.x, mode)} {sc(m.center.y, mode)}"
        mods.append(t)
    entry = doc.get("entry", "cia")
    depths = [(i * doc.get("depth_k", 0)) % 4 for i in range(len(refinable) + len(fixed))]
    res["cells_in"] = [[[r.center.x, r.center.y, r.shape.w, r.shape.h], d] for r, d in zip(refinable + fixed, depths)]
    if entry == "cia":
        res["request"] = (f"{mode} cia {sc(epsA, mode)} {int(doc['iz'])} {len(refinable)}" +
                          "".join(" " + _rect_tok(r, mode) for r in refinable) + f" {len(fixed)}" +
                          "".join(" " + _rect_tok(r, mode) for r in fixed) + f" {len(mods)}" + "".join(" " + t for t in mods))
    else:
        from frame.geometry.geometry import Point, Shape
        salt = doc.get("preflag")
        flagged = [] if salt is None else [i for i in range(len(refinable)) if (i * 7 + salt) % 5 == 0]
        if len(flagged) == len(refinable):
            flagged = flagged[1:]                      # keep a refinable cell
        descs, toks = [], []
        for i, (r, d) in enumerate(zip(refinable + fixed, depths)):
            v = tuple(r.vector_spec)
            if i in flagged:
                hard = (i + salt) % 2 == 0
                obj = Rectangle(center=Point(v[0], v[1]), shape=Shape(v[2], v[3]), region=v[4], fixed=True, hard=hard)
                descs.append((obj, {}, d))
                toks.append(f" {sc(v[0], mode)} {sc(v[1], mode)} {sc(v[2], mode)} {sc(v[3], mode)} {v[4]} 1 {int(hard)} {d}")
            else:
                descs.append((v, {}, d))
                toks.append(f" {sc(v[0], mode)} {sc(v[1], mode)} {sc(v[2], mode)} {sc(v[3], mode)} {v[4]} 0 0 {d}")
        res["preflagged"] = [list(res["cells_in"][i][0]) for i in flagged]
        res["request"] = (f"{mode} ia {sc(epsA, mode)} {int(doc['iz'])} {len(descs)}" + "".join(toks) +
                          f" {len(mods)}" + "".join(" " + t for t in mods))
    res["stage"] = "call"
    try:
        if entry == "cia":
            alloc = create_initial_allocation(die, doc["iz"])
        else:
            alloc = Allocation(descs).initial_allocation(netlist, doc["iz"])
    except Exception as ex:
        Rectangle.undefine_epsilon()
        cls = type(ex).__name__
        res.update(status="err:" + {"AssertionError": "Assert", "ZeroDivisionError": "ZeroDiv"}.get(cls, cls), exc=cls,
                   msg=str(ex)[:160])
        return res
    try:
        cells = []
        for a in alloc.allocations:
            r = a.rect
            cells.append({"r": [r.center.x, r.center.y, r.shape.w, r.shape.h], "region": r.region, "fixed": bool(r.fixed),
                          "hard": bool(r.hard), "alloc": {str(k): v for k, v in a.alloc.items()}, "depth": a.depth})
        bbx = alloc.bounding_box
        stats = {}
        for m in netlist.modules:
            try:
                stats[m.name] = [alloc.area(m.name), alloc.center(m.name).x, alloc.center(m.name).y]
            except KeyError:
                pass
        squares = {m.name: [[r.center.x, r.center.y, r.shape.w, r.shape.h, r.region, r.fixed, r.hard] for r in m.rectangles]
                   for m in netlist.modules}
        fixed_centres = {m.name: (None if m.center is None else [m.center.x, m.center.y])
                         for m in netlist.modules if m.is_fixed}
        res.update(status="ok", cells=cells, bbox=[bbx.center.x, bbx.center.y, bbx.shape.w, bbx.shape.h], stats=stats,
                   rects_after=squares, fixed_centres=fixed_centres)
    except Exception as ex:
        res.update(status="err:" + type(ex).__name__, exc=type(ex).__name__, msg="while reading the result: " + str(ex)[:120])
    Rectangle.undefine_epsilon()
    return res


def _apply_history(doc, hist, die, netlist) -> None:
    from frame.geometry.geometry import Point
    if hist["prealloc"]:
        try:
            if doc.get("entry", "cia") == "cia":
                create_initial_allocation(die, doc["iz"])
            else:
                refinable, fixed = die.floorplanning_rectangles()
                Allocation([(tuple(r.vector_spec), {}, 0) for r in refinable + fixed]).initial_allocation(netlist, doc["iz"])
        except (AssertionError, ZeroDivisionError):
            pass        # the judged call will meet the same condition (or not, after the moves)
    for mv in hist["moves"]:
        m = netlist.get_module(mv["name"])
        dx, dy = mv["dx"], mv["dy"]
        if mv["how"] == "recenter":
            if m.center is None:
                m.calculate_center_from_rectangles()
            m.center = Point(m.center.x + dx, m.center.y + dy)
            m.recenter_rectangles()
        elif mv["how"] == "inplace":
            seen = set()
            for r in m.rectangles:
                if id(r.center) in seen:
                    continue
                seen.add(id(r.center))
                r.center.x += dx
                r.center.y += dy
        elif mv["how"] == "setter":
            for r in m.rectangles:
                r.center = Point(r.center.x + dx, r.center.y + dy)
        else:   # "centre": the module's own centre Point, in place
            m.center.x += dx
            m.center.y += dy


# ------------------------------------------------------------------------------------------------ model reply
def parse_reply(line: str, mode: str):
    if line.startswith("err:") or line == "bad-op":
        return {"status": line}
    un = (lambda s: hex2f(s)) if mode == "F" else (lambda s: Fr(s))
    head, bbox, stats = line.split(" # ")
    segs = head.split(" | ")
    assert segs[0].split()[0] == "ok"
    cells = []
    for s in segs[1:]:
        t = s.split()
        k = int(t[7])
        al = {t[8 + 2 * i]: un(t[9 + 2 * i]) for i in range(k)}
        cells.append({"r": [un(v) for v in t[:4]], "region": t[4], "fixed": t[5] == "1", "hard": t[6] == "1", "alloc": al,
                      "depth": int(t[8 + 2 * k])})
    st = {}
    for s in stats.split(" | ")[1:]:
        t = s.split()
        st[t[0]] = [un(v) for v in t[1:4]]
    return {"status": "ok", "cells": cells, "bbox": [un(v) for v in bbox.split()], "stats": st}


def _close(a, b, mode: str):
    """(close enough, exactly equal).  Q: the float must be the rational (or its rounding, to 2^-48 relative —
    a ratio like 1/3 is not a double); F: bit-equal, else 1e-9 relative."""
    if mode == "F":
        if a == b:
            return True, True
        if isinstance(a, float) and isinstance(b, float) and math.isfinite(a) and math.isfinite(b):
            return abs(a - b) <= 1e-9 * max(1.0, abs(a), abs(b)), False
        return False, False
    fa = Fr(a)
    if fa == b:
        return True, True
    return abs(fa - b) <= Fr(1, 2 ** 48) * max(1, abs(b)), False


def compare(ctx: Ctx, doc, impl, model_line: str, exact_ratios=None) -> None:
    mode = doc["mode"]
    model = parse_reply(model_line, mode)
    size = len(doc["modules"]) + len(doc["regions"])

    def bad(what):
        if mode == "F" and exact_ratios is not None and _near_tie(exact_ratios):
            ctx.ties += 1
            return
        ctx.disagree("create_initial_allocation:" + what, doc, _brief(impl), model_line[:600], size=size)

    if impl["status"] != model["status"]:
        return bad("status")
    if impl["status"] != "ok":
        return
    if len(impl["cells"]) != len(model["cells"]):
        return bad("cell-count")
    drift = False
    # the order of the cell list is not part of the property: match every implementation cell with a model cell at
    # the same place (and with the same flag), then compare the pairs
    pool = list(model["cells"])
    paired = []
    for a in impl["cells"]:
        j = next((j for j, b in enumerate(pool) if a["fixed"] == b["fixed"] and sorted(a["alloc"]) == sorted(b["alloc"]) and
                  all(_close(u, v, mode)[0] for u, v in zip(a["r"], b["r"]))), None)
        if j is None:
            return bad("cell-not-in-model:" + str(a["r"]))
        paired.append((a, pool.pop(j)))
    if [id(b) for _, b in paired] != [id(b) for b in model["cells"]]:
        ctx.count("cell-order-differs-from-model")
    for i, (a, b) in enumerate(paired):
        if (a["region"], a["fixed"], a["hard"], a["depth"]) != (b["region"], b["fixed"], b["hard"], b["depth"]):
            return bad(f"cell{i}-attributes")
        if sorted(a["alloc"]) != sorted(b["alloc"]):
            return bad(f"cell{i}-listed-modules")
        for u, v in list(zip(a["r"], b["r"])) + [(a["alloc"][k], b["alloc"][k]) for k in a["alloc"]]:
            ok, ex = _close(u, v, mode)
            if not ok:
                return bad(f"cell{i}-value")
            drift |= not ex
    for u, v in zip(impl["bbox"], model["bbox"]):
        ok, ex = _close(u, v, mode)
        if not ok:
            return bad("bounding-box")
        drift |= not ex
    if sorted(impl["stats"]) != sorted(model["stats"]):
        return bad("stats-modules")
    for k in impl["stats"]:
        for u, v in zip(impl["stats"][k], model["stats"][k]):
            ok, ex = _close(u, v, mode)
            if not ok:
                return bad("stats-" + k)
            drift |= not ex
    if drift:
        ctx.drift += 1


def _brief(impl):
    if impl["status"] != "ok":
        return {k: impl.get(k) for k in ("status", "exc", "msg")}
    return {"status": "ok", "cells": [[c["r"], c["fixed"], c["alloc"], c["depth"]] for c in impl["cells"][:12]],
            "stats": impl["stats"]}


def _near_tie(ratios) -> bool:
    t = Fr(1, 10 ** 9)
    for x in ratios:
        if 0 < x < t or abs(x - EPS6) < t or abs(x - (1 - EPS6)) < t or abs(x - (1 + EPS6)) < t or 1 < x < 1 + t:
            return True
    return False


# ------------------------------------------------------------------------------------------------ exact oracle
def doc_shapes(doc, impl=None):
    """module name → list of exact rectangles ([cx,cy,w,h] Fractions): the document's rectangles, or the square
    of a rectangle-less module (exact root on the Q stream, `math.sqrt` on the F stream).  With a history (`doc["history"]`)
    the rectangles are the ones the modules hold right before the judged call — their centre / shape FIELDS as read by
    `run_impl` (`shapes_now`), the square being taken around the module's CURRENT centre."""
    shapes, exact_sq = {}, True
    now = (impl or {}).get("shapes_now") if doc.get("history") else None
    for m in doc["modules"]:
        if now is not None and now.get(m["name"]):
            shapes[m["name"]] = [[Fr(v) for v in r[:4]] for r in now[m["name"]]]
            continue
        if m["rects"]:
            shapes[m["name"]] = [[Fr(v) for v in r[:4]] for r in m["rects"]]
            continue
        if "center" not in m:
            shapes[m["name"]] = None
            continue
        centre = m["center"] if now is None else impl["centres_now"][m["name"]]
        tot = sum(Fr(v) for _, v in m["area"])
        s = Fr(math.isqrt(tot.numerator), math.isqrt(tot.denominator))
        if s * s != tot:
            s, exact_sq = Fr(math.sqrt(float(tot))), False
        shapes[m["name"]] = [[Fr(centre[0]), Fr(centre[1]), s, s]]
    return shapes, exact_sq


def spec(ctx: Ctx, doc, impl) -> list:
    """the clauses of FV/Props/C03.lean on the implementation's result; returns the exact ratios seen (for tie detection)."""
    mode = doc["mode"]
    size = len(doc["modules"]) + len(doc["regions"])
    shapes, exact_sq = doc_shapes(doc, impl)
    wellformed = all(v is not None for v in shapes.values())
    fixed_mods = [m["name"] for m in doc["modules"] if m["kind"] == "fixed"]
    die = [Fr(doc["W"]) / 2, Fr(doc["H"]) / 2, Fr(doc["W"]), Fr(doc["H"])]
    blocked = [[Fr(v) for v in r[:4]] for r in doc["regions"] if r[4] == "#"]
    # descriptors that arrived flagged fixed without an owner are dropped by `initial_allocation`: no cell there
    blocked += [[Fr(v) for v in r] for r in impl.get("preflagged", [])]
    fixed_rects = [(n, r) for n in fixed_mods for r in shapes[n]]
    scale = max(Fr(1), die[2], die[3])
    exact = mode == "Q" and exact_sq
    tl = Fr(0) if exact else Fr(1, 10 ** 9)            # relative tolerance on ratios
    ta = tl * scale * scale * 8                          # on areas
    ratios: list[Fr] = []

    def fail(clause, detail):
        ctx.spec_fail(clause, doc, detail, size=size)

    # the free region: die minus blockages minus fixed rectangles
    free_area = area(die) - sum(area(b) for b in blocked) - sum(area(r) for _, r in fixed_rects)

    def shape_on_free(rs):
        return sum(ov(die, r) - sum(ov(b, r) for b in blocked) - sum(ov(f, r) for _, f in fixed_rects) for r in rs)

    if impl["status"] != "ok":
        # which exceptions does the property allow?  none on a well-formed input, except the documented degenerate
        # include-zero case (a module that touches no refinable cell has allocated area 0: ZeroDivisionError)
        if not wellformed:
            if impl["status"] != "err:Assert":
                fail("square_def:missing-centre-must-fail-its-assertion", {"status": impl["status"], "msg": impl.get("msg")})
            return ratios
        degenerate = doc["iz"] and any(shape_on_free(shapes[m["name"]]) <= ta for m in doc["modules"] if m["kind"] != "fixed")
        if degenerate and impl["status"] == "err:ZeroDiv":
            ctx.count("degenerate-include-zero")
            return ratios
        fail("operation-raised", {"exception": impl.get("exc"), "message": impl.get("msg")})
        return ratios
    if not wellformed:
        fail("square_def:missing-centre-accepted", {})
        return ratios

    # square_def: what the netlist holds after the call
    for m in doc["modules"]:
        got = impl["rects_after"][m["name"]]
        want = shapes[m["name"]]
        if len(got) != len(want):
            fail("square_def:rectangle-count", {"module": m["name"], "got": got})
            continue
        if not m["rects"] and not (doc.get("history") and impl.get("shapes_now", {}).get(m["name"])):
            g = got[0]
            t = Fr(0) if exact else Fr(1, 10 ** 12) * scale
            if any(abs(Fr(a) - b) > t for a, b in zip(g[:4], want[0])) or g[4:] != ["_", False, False]:
                fail("square_def", {"module": m["name"], "got": g, "want": [float(v) for v in want[0]]})

    cells = impl["cells"]
    entry = doc.get("entry", "cia")
    depth_in = {tuple(r): d for r, d in impl["cells_in"]}
    nonfixed = [c for c in cells if not c["fixed"]]
    fcells = [c for c in cells if c["fixed"]]
    # cells_cover: the non-fixed cells tile the free region (inside the die, disjoint from each other / blockages /
    # fixed rectangles, areas add up) — so that "area of the shape on the cells" can be computed on the document
    tot = Fr(0)
    for i, c in enumerate(nonfixed):
        r = [Fr(v) for v in c["r"]]
        tot += area(r)
        if abs(ov(die, r) - area(r)) > ta or any(ov(b, r) > ta for b in blocked) or any(ov(f, r) > ta for _, f in fixed_rects):
            fail("cells_cover:cell-in-free-region", {"cell": c["r"]})
            return ratios
        if len(nonfixed) <= 80 and any(ov(r, [Fr(v) for v in d["r"]]) > ta for d in nonfixed[i + 1:]):
            fail("cells_cover:disjoint", {"cell": c["r"]})
            return ratios
        if c["region"] != "_":
            if not any(s[4] == c["region"] and ov(r, [Fr(v) for v in s[:4]]) >= area(r) - ta for s in doc["regions"]):
                fail("cells_cover:region-tag", {"cell": c["r"], "region": c["region"]})
        elif any(s[4] != "#" and ov(r, [Fr(v) for v in s[:4]]) > ta for s in doc["regions"]):
            fail("cells_cover:region-tag", {"cell": c["r"], "region": c["region"]})
    if abs(tot - free_area) > ta * max(1, len(nonfixed)):
        fail("cells_cover:area", {"cells": float(tot), "free": float(free_area)})
        return ratios

    # fixed_full
    want_fixed = sorted((n, tuple(r)) for n, r in fixed_rects)
    got_fixed = []
    for c in fcells:
        if len(c["alloc"]) != 1:
            fail("fixed_full:exactly-one-owner", {"cell": c["r"], "alloc": c["alloc"]})
            continue
        n, v = next(iter(c["alloc"].items()))
        if v != 1 or c["depth"] != 0 or (entry == "cia" and not c["hard"]):
            fail("fixed_full:ratio-one", {"cell": c["r"], "alloc": c["alloc"], "depth": c["depth"], "hard": c["hard"]})
        got_fixed.append((n, tuple(Fr(x) for x in c["r"])))
    if sorted(got_fixed) != want_fixed:
        fail("fixed_full:cells-are-the-fixed-rectangles", {"got": [[n, [float(x) for x in r]] for n, r in sorted(got_fixed)],
                                                          "want": [[n, [float(x) for x in r]] for n, r in want_fixed]})
    # glb_start (hypothesis `hfc` of FV.C10.glbfloor_correct, `GlbModsOf`): in the state glbfloor starts from, the centre
    # of every fixed module is the area-weighted mean of its rectangle centres and lies inside the die
    for n in fixed_mods:
        ctr = impl.get("fixed_centres", {}).get(n)
        if ctr is None:
            fail("glb_start:fixed-centre-defined", {"module": n})
            continue
        tot = sum(area(r) for r in shapes[n])
        want = (sum(r[0] * area(r) for r in shapes[n]) / tot, sum(r[1] * area(r) for r in shapes[n]) / tot)
        t = (Fr(1, 2 ** 44) if mode == "Q" else Fr(1, 10 ** 9)) * scale
        if abs(Fr(ctr[0]) - want[0]) > t or abs(Fr(ctr[1]) - want[1]) > t:
            fail("glb_start:fixed-centre-is-centroid", {"module": n, "centre": ctr, "centroid": [float(want[0]), float(want[1])]})
        if not (-t <= Fr(ctr[0]) <= die[2] + t and -t <= Fr(ctr[1]) <= die[3] + t):
            fail("glb_start:fixed-centre-in-die", {"module": n, "centre": ctr, "W": doc["W"], "H": doc["H"]})
    # ratio_eq / listed_iff on the non-fixed cells
    for c in nonfixed:
        r = [Fr(v) for v in c["r"]]
        if c["depth"] != depth_in.get(tuple(c["r"])) or c["hard"]:
            fail("cells_form:depth-kept", {"cell": c["r"], "depth": c["depth"], "given": depth_in.get(tuple(c["r"]))})
        for m in doc["modules"]:
            n = m["name"]
            x = sum(ov(r, s) for s in shapes[n]) / area(r)
            ratios.append(x)
            listed = n in c["alloc"]
            if n in fixed_mods and x > tl:
                fail("fixed_full:refinable-cell-under-fixed-module", {"cell": c["r"], "module": n, "exact": float(x)})
            should = doc["iz"] or x > 0
            if listed != should and (exact or doc["iz"] or x == 0 or x > tl):
                fail("listed_iff", {"cell": c["r"], "module": n, "listed": listed, "exact_ratio": float(x), "include_zero": doc["iz"]})
                continue
            if listed:
                v = Fr(c["alloc"][n])
                t = (Fr(1, 2 ** 48) if mode == "Q" else tl) * max(Fr(1), x)
                if abs(v - x) > t or (not doc["iz"] and not v > 0):
                    fail("ratio_eq", {"cell": c["r"], "module": n, "listed": float(v), "exact": float(x)})
    unknown = {k for c in cells for k in c["alloc"]} - set(shapes)
    if unknown:
        fail("ratio_eq:unknown-module-listed", {"names": sorted(unknown)})
    # allocated_area_eq: area of the module's shape on the refinable (resp. its own fixed) cells, from the document
    for m in doc["modules"]:
        n = m["name"]
        want = sum(area(r) for r in shapes[n]) if n in fixed_mods else shape_on_free(shapes[n])
        got = impl["stats"].get(n)
        if got is None:
            if want > ta or doc["iz"]:
                fail("allocated_area_eq:module-absent", {"module": n, "exact": float(want)})
            continue
        t = ta if not exact else Fr(1, 2 ** 44) * max(Fr(1), want)
        if abs(Fr(got[0]) - want) > t * max(1, len(cells)):
            fail("allocated_area_eq", {"module": n, "allocated": got[0], "exact": float(want)})
        if not doc["iz"] and (want <= 0 if exact else want < -ta):
            fail("allocated_area_eq:listed-without-area", {"module": n})
    return ratios


# ------------------------------------------------------------------------------------------------ driver
def one(ctx: Ctx, doc, reqs, todo) -> None:
    impl = run_impl(doc)
    if impl["status"] == "rejected":
        ctx.count("document-rejected-by-die-or-netlist:" + impl["exc"])
        return
    try:
        ratios = spec(ctx, doc, impl)
    except Exception as ex:   # the oracle itself must not crash on anything the implementation returns
        ctx.spec_fail("oracle-crashed", doc, {"exception": type(ex).__name__, "message": str(ex)[:200]}, size=99)
        ratios = []
    reqs.append(impl["request"])
    todo.append((doc, impl, ratios))
    kinds = sorted({m["kind"] + ("" if m["rects"] else "-square") for m in doc["modules"]})
    nontrivial = impl["status"] == "ok" and any(0 < x < 1 for x in ratios)
    ctx.case(doc["mode"], render(doc) + (doc["iz"], doc["split"], doc.get("entry"), doc.get("depth_k"), repr(doc.get("history")), doc.get("preflag")), nontrivial,
             sample={"die": render(doc)[0], "netlist": render(doc)[1], "iz": doc["iz"], "split": doc["split"], "entry": doc.get("entry"),
                     "status": impl["status"], "cells": len(impl.get("cells", []))})
    ctx.count("status:" + impl["status"])
    ctx.count("include_zero:" + str(doc["iz"]))
    ctx.count("entry:" + doc.get("entry", "cia"))
    ctx.count("refined-first:" + str(bool(doc["split"])))
    if impl.get("preflagged"):
        ctx.count("ia:descriptors-flagged-fixed-but-unowned")
    if doc.get("history"):
        ctx.count("history:" + ("allocated-before," if doc["history"]["prealloc"] else "") + "moved:" +
                  "+".join(sorted({mv["how"] for mv in doc["history"]["moves"]})))
    for k in kinds:
        ctx.count("has:" + k)
    if any(r[4] == "#" for r in doc["regions"]):
        ctx.count("has:blockage")
    if any(r[4] != "#" for r in doc["regions"]):
        ctx.count("has:specialised-region")
    if impl["status"] == "ok":
        if any(c["fixed"] for c in impl["cells"]):
            ctx.count("result:fixed-cells")
        if any(x == 1 for x in ratios):
            ctx.count("result:ratio-exactly-1")
        if any(len(c["alloc"]) >= 2 for c in impl["cells"]):
            ctx.count("result:cell-shared-by-modules")


def run(ctx: Ctx) -> None:
    ctx.rule = ("random lattice documents: die of 2..8 × 2..8 lattice units (unit 1, 1/2, 1/4, 2 on the exact 'Q' stream; 0.1, 0.3, "
                "0.07, 1/3, 1.1, 0.001, 130 on the 'F' stream), 0-3 blockages/specialised regions, 0-2 fixed modules (1-3 rectangles "
                "= die cells), 0-2 hard, 0-3 soft modules with rectangles (half-lattice, sticking out, abutting pieces tiling whole "
                "cells, region tags), 0-3 rectangle-less soft modules (perfect-square areas on 'Q', multi-region areas, centres on / "
                "beyond the border), 35% refined first with split_refinable_regions, include-zero 45%; documents the die/netlist "
                "constructors reject are not cases; 65% through create_initial_allocation(die), 35% through Allocation(descriptors).initial_allocation(netlist) on the die's cells as unflagged YAML vectors with depths (i*k) % 4; non-trivial = the call returned and some cell/module ratio is strictly "
                "between 0 and 1; distinct = distinct (die text, netlist text, include-zero, split)")
    ctx.assumptions += [
        "well-formed input: at least one refinable region; every rectangle-less soft module has a centre; module names are identifiers",
        "include-zero is only required to return when every non-fixed module touches some refinable cell (else ZeroDivisionError is the documented outcome)",
        "each module's own rectangles are pairwise disjoint (generated so)",
    ]
    docs = []
    seeds = getattr(ctx, "seed_inputs", None) or []
    for d in seeds:
        if isinstance(d, dict) and "modules" in d:
            docs.append(d)
    n = ctx.n(2000, 40000)
    for i in range(n):
        docs.append(gen_doc(ctx.rng, "Q" if i % 2 == 0 else "F"))
    reqs, todo = [], []
    for d in docs:
        one(ctx, d, reqs, todo)
    replies = ctx.model(reqs)
    if replies is None:
        ctx.notes.append("model driver unavailable: correspondence not run")
        return
    for (doc, impl, ratios), line in zip(todo, replies):
        compare(ctx, doc, impl, line, ratios)


def replay(ctx: Ctx, body: dict) -> None:
    doc = body["input"]
    reqs, todo = [], []
    one(ctx, doc, reqs, todo)
    replies = ctx.model(reqs)
    if replies:
        for (d, impl, ratios), line in zip(todo, replies):
            compare(ctx, d, impl, line, ratios)

"""C20 — results do not depend on what the process did before.

Spec on implementation (the observation the property names): the canonical digest of a probed operation run
alone in a fresh forked interpreter must equal its digest after a random history of operations on unrelated
designs whose dimensions are within ×1000 of the probed design's.
Correspondence: the process-wide tolerance state (`Rectangle._distance_epsilon/_area_epsilon`) observed after the
history and after the probe vs the Lean model `FV/Model/Global.lean` run on the same sequence of proposals
(`drv_global`, bit-exact at Float).
"""
from __future__ import annotations

import json
import math
import multiprocessing as mp
import os
import random
import sys

from vcheck import Ctx, f2hex, hex2f

LEVEL = "proof"
DRIVERS = ["drv_global", "drv_die"]
TRUSTED = [
    "Lean 4.33 kernel; Mathlib lemmas; axioms ⊆ {propext, Classical.choice, Quot.sound}",
    "FV/Model/Global.lean models the tolerance state of class Rectangle (sticky first definition), FV/Model/Registers.lean "
    "the legaliser registers (slack, name registry, debug mask); that no OTHER state of frame/ and tools/ influences "
    "results is checked by the differential fresh-vs-history runs and the registers_untouched footprint, not proved",
    "libm sqrt enters as a monotone function parameter; theorems over exact ordered fields",
    "the ROBDD store half of the property is proved in FV/Props/C07.lean (append-only, semantics-preserving store)",
    "fork() gives the fresh interpreter: the parent imports the library but never executes an operation",
    "operation kinds executed as history AND probe: netlist load, die decomposition, allocation load with and without a netlist "
    "before it, refinement, orthogon recognition, SAT encoding (one manager; several managers interleaved), strop, legaliser model "
    "construction and `ModelWrapper.build_model`, netgen (all topologies, --add-centers), spectral layout and the force-directed "
    "layout (the interpreter's `random` generator is seeded as part of the probe), a one-pass glbfloor on a 2x2/2x3 grid, the FloorSet "
    "manager, `rect.solve` on a tiny grid.  NOT executed: draw, the verifier, the legaliser's solve loop, kamada_kawai (GEKKO solve), "
    "the USCS parsers: state they might keep is seen only by the static inventory",
    "static inventory (harness/c20_inventory.py): an `ast` scan of the anchored files, the entry modules of every executed operation "
    "and everything they import from the repository, for module-level mutable objects, `global` rebinding, class-level mutable "
    "attributes, attribute writes on class / module objects, mutable default arguments, memoising decorators and interpreter-wide "
    "settings, compared with the committed list harness/c20_state_expected.json (each entry says which part of the model or footprint "
    "accounts for it).  It sees only what these syntactic categories cover: state hidden behind aliasing (`c = _table; c[k] = v` on a "
    "never-directly-mutated non-empty table), C extensions or third-party libraries is not seen",
    "FV/Model/SatProc.lean models the interpreter-wide ROBDD store under any number of managers (a failed operation changes nothing; "
    "creating a manager touches no global); tied by the satproc stream (clause lists, variable tables, store, verdicts, bit-exact)",
    "a history-dependent probe is attributed to the open finding only if (a) the tolerance in force is a legitimate proposal of "
    "an earlier design, (b) a control run in a third fresh interpreter with ONLY that tolerance preset reproduces the "
    "after-history digest, and (c) the probe is not Robust for the interval of proposals; anything else is a VIOLATION",
]

K_DIE, K_NET = 10e-12, 1e-12

KINDS = ["netlist", "die", "alloc", "alloctext", "allocfirst", "sat", "strop", "legal"]
# operation kinds of the tools built on the library (audit 3, C20 item 5); weights keep the GEKKO-based ones rare
NEW_KINDS = {"netgen": 2, "spectral": 2, "floorset": 2, "rectsolve": 2, "satmulti": 2, "force": 1, "legalbuild": 1, "glbfloor": 1}
KIND_WEIGHTS = {**{k: 3 for k in KINDS}, **NEW_KINDS}
ALL_KINDS = list(KIND_WEIGHTS)
# kinds whose result depends on the Rectangle tolerances (a history-dependent result may be the open finding)
GEOMETRIC = ("netlist", "die", "alloc", "alloctext", "allocfirst", "legal", "legalbuild", "netgen", "spectral", "force", "glbfloor")
# entry modules of every kind (for the state-inventory bias of the extended search)
KIND_MODULES = {
    "netlist": ["frame/netlist/netlist.py"], "die": ["frame/die/die.py"], "alloc": ["frame/allocation/allocation.py", "frame/die/die.py"],
    "alloctext": ["frame/allocation/allocation.py"], "allocfirst": ["frame/allocation/allocation.py"],
    "sat": ["tools/rect/satmanager.py"], "satmulti": ["tools/rect/satmanager.py"], "strop": ["tools/floorset_parser/floor_set_manager/strop.py"],
    "legal": ["tools/legalfloor/legalfloor.py"], "legalbuild": ["tools/legalfloor/legalfloor.py", "tools/legalfloor/model.py"],
    "netgen": ["tools/netgen/netgen.py"], "spectral": ["tools/spectral/spectral.py"], "force": ["tools/force/force.py"],
    "glbfloor": ["tools/glbfloor/glbfloor.py"], "floorset": ["tools/floorset_parser/floor_set_manager/manager.py"],
    "rectsolve": ["tools/rect/rect.py"],
}


NON_GEOMETRIC = ("sat", "satmulti", "strop", "floorset", "rectsolve")     # never touch a Rectangle: must leave the tolerances alone


def pick_kind(rng: random.Random, weights: dict | None = None) -> str:
    w = weights or KIND_WEIGHTS
    return rng.choices(list(w), weights=[w[k] for k in w])[0]


# ------------------------------------------------------------------ design generators (pure data)
def fmt(x: float) -> str:
    return repr(float(x))


def gen_netlist(rng: random.Random, s: float, defect: bool, L: int = 10, terminals: bool = True,
                soft_rects: bool = False) -> dict:
    """netlist text at scale s; soft modules + hard STOG modules (+ a fixed one); coordinates on a 1/L lattice."""
    mods = []
    nsoft = rng.randint(1, 3)
    for i in range(nsoft):
        a = rng.choice([1, 2, 4, 2.5, 0.25]) * s * s
        if soft_rects:   # the legaliser needs a rectangle for every module
            w, h = rng.randint(2, 2 * L) / L * s, rng.randint(2, 2 * L) / L * s
            cx, cy = rng.randint(L, 4 * L) / L * s, rng.randint(L, 4 * L) / L * s
            mods.append(f"  S{i}: {{area: {fmt(w * h)}, rectangles: [[{fmt(cx)}, {fmt(cy)}, {fmt(w)}, {fmt(h)}]]}}")
            continue
        mods.append(f"  S{i}: {{area: {fmt(a)}, center: [{fmt(rng.randint(0, 4 * L) / L * s)}, {fmt(rng.randint(0, 4 * L) / L * s)}]}}")
    nhard = rng.randint(1, 2)
    rects_all = []
    for i in range(nhard):
        # trunk + branches on a 0.1·s lattice
        tx, ty = rng.randint(L, 3 * L) / L, rng.randint(L, 3 * L) / L
        tw, th = rng.randint(L // 2, 2 * L) / L, rng.randint(L // 2, 2 * L) / L
        rs = [(tx, ty, tw, th)]
        for side in rng.sample("NSEW", rng.randint(0, 3)):
            bw, bh = rng.randint(2, int(tw * L)) / L, rng.randint(2, int(th * L)) / L
            if side in "NS":
                off = rng.randint(0, int((tw - bw) * L + 0.5)) / L
                cx = tx - tw / 2 + off + bw / 2
                bh2 = rng.randint(2, L) / L
                cy = ty + th / 2 + bh2 / 2 if side == "N" else ty - th / 2 - bh2 / 2
                rs.append((cx, cy, bw, bh2))
            else:
                off = rng.randint(0, int((th - bh) * L + 0.5)) / L
                cy = ty - th / 2 + off + bh / 2
                bw2 = rng.randint(2, L) / L
                cx = tx + tw / 2 + bw2 / 2 if side == "E" else tx - tw / 2 - bw2 / 2
                rs.append((cx, cy, bw2, bh))
        if defect and len(rs) > 1:
            # overlapping branch: shift it into the trunk by a clear amount
            cx, cy, w, h = rs[1]
            rs[1] = (cx + (tx - cx) * 0.5, cy + (ty - cy) * 0.5, w, h)
        rng.shuffle(rs)
        kind = rng.choice(["hard: true", "fixed: true"])
        rtxt = ", ".join(f"[{fmt(x * s)}, {fmt(y * s)}, {fmt(w * s)}, {fmt(h * s)}]" for x, y, w, h in rs)
        mods.append(f"  H{i}: {{{kind}, rectangles: [{rtxt}]}}")
        rects_all.append([(x * s, y * s, w * s, h * s) for x, y, w, h in rs])
    dims = []   # spec-side tolerance proposal: 1e-12 x min(rectangle sides, sqrt(area) of modules with area > 0)
    for rs in rects_all:
        for (_, _, w, h) in rs:
            dims += [w, h]
    soft_areas = [float(m.split("area: ")[1].split(",")[0].rstrip("}")) for m in mods if "area: " in m]
    for m in mods:
        if "area: " in m and "rectangles: [[" in m:
            vals = [float(v) for v in m.split("rectangles: [[")[1].split("]]")[0].split(",")]
            dims += [vals[2], vals[3]]
    for a in soft_areas:
        dims.append(math.sqrt(a))
    for rs in rects_all:
        dims.append(math.sqrt(sum(w * h for (_, _, w, h) in rs)))
    for i in range(rng.choice([0, 0, 1, 2]) if terminals else 0):
        mods.append(f"  T{i}: {{terminal: true, center: [{fmt(rng.randint(0, 4 * L) / L * s)}, {fmt(rng.randint(0, 4 * L) / L * s)}]}}")
    if rng.random() < 0.15:
        # names that YAML 1.1 (but not 1.2) reads as booleans: legal identifiers, must stay strings whatever was loaded before
        ren = dict(zip(["S0", "S1", "S2", "H0", "H1"], rng.sample(["N", "Y", "S", "E", "W", "yes", "no", "on", "off", "ON", "No"], 5)))
        mods = [ren.get(m.split(":")[0].strip(), m.split(":")[0].strip()).join(["  ", ":" + m.split(":", 1)[1]]) for m in mods]
    names = [m.split(":")[0].strip() for m in mods]
    nets = []
    for _ in range(rng.randint(1, 3)):
        k = rng.randint(2, min(4, len(names)))
        mem = rng.sample(names, k)
        w = rng.choice([None, 2, 0.5])
        nets.append("[" + ", ".join(mem + ([fmt(w)] if w else [])) + "]")
    text = "Modules: {\n" + ",\n".join(mods) + "\n}\nNets: [" + ", ".join(nets) + "]\n"
    if rng.random() < 0.12:
        text = "%YAML 1.1\n---\n" + text      # a legal document header; must not change how LATER documents are read
    return {"kind": "netlist", "scale": s, "text": text, "rects": rects_all, "proposal": min(dims) * K_NET}


def gen_die(rng: random.Random, s: float, defect: bool, L: int = 10) -> dict:
    W, H = rng.randint(3, 8), rng.randint(3, 8)
    xs = sorted(set([0, W] + [rng.randint(1, W * L - 1) / L for _ in range(rng.randint(0, 3))]))
    ys = sorted(set([0, H] + [rng.randint(1, H * L - 1) / L for _ in range(rng.randint(0, 3))]))
    cells = [(xs[i], ys[j], xs[i + 1], ys[j + 1]) for i in range(len(xs) - 1) for j in range(len(ys) - 1)]
    rng.shuffle(cells)
    regs = []
    for (x0, y0, x1, y1) in cells[:rng.randint(0, min(4, len(cells)))]:
        tag = rng.choice(["'#'", "dsp", "bram"])
        regs.append([(x0 + x1) / 2, (y0 + y1) / 2, x1 - x0, y1 - y0, tag])
    if defect and regs:
        r = list(regs[0])
        r[0] += r[2] / 2
        r[1] += r[3] / 4
        regs.append(r)  # overlapping / leaving the die
    rt = ", ".join(f"[{fmt(r[0] * s)}, {fmt(r[1] * s)}, {fmt(r[2] * s)}, {fmt(r[3] * s)}, {r[4]}]" for r in regs)
    text = f"width: {fmt(W * s)}\nheight: {fmt(H * s)}\n" + (f"regions: [{rt}]\n" if regs else "")
    return {"kind": "die", "scale": s, "text": text, "W": W * s, "H": H * s, "proposal": min(W * s, H * s) * K_DIE,
            "rects": [[(r[0] * s, r[1] * s, r[2] * s, r[3] * s) for r in regs]]}


def gen_alloc(rng: random.Random, s: float, defect: bool, L: int = 10) -> dict:
    d = gen_die(rng, s, False, L)
    n = gen_netlist(rng, s, False, L)
    n["text"] = n["text"].replace("fixed: true", "hard: true")  # keep the die independent of fixed rectangles
    return {"kind": "alloc", "scale": s, "die": d["text"], "netlist": n["text"], "thr": rng.choice([0.3, 0.6, 0.9]),
            "proposal": n["proposal"],
            "W": d["W"], "H": d["H"], "rects": d["rects"] + n["rects"]}


def gen_alloctext(rng: random.Random, s: float, defect: bool, L: int = 10) -> dict:
    """an allocation document over a regular grid (the usual regular-grid flow: designs share cell descriptors) plus a
    netlist whose block B sits exactly on one cell; `kindB` says whether B is fixed (then it owns its cell) or hard."""
    nx, ny = rng.randint(2, 4), rng.randint(2, 3)
    cw, ch = rng.choice([1, 2, 1.5]) * s, rng.choice([1, 2]) * s
    cells = [((i + 0.5) * cw, (j + 0.5) * ch, cw, ch) for i in range(nx) for j in range(ny)]
    bx, by, bw, bh = rng.choice(cells)
    kindB = rng.choice(["fixed", "hard"])
    rows = []
    for (x, y, w, h) in cells:
        rows.append(f"[[{fmt(x)}, {fmt(y)}, {fmt(w)}, {fmt(h)}], {{S0: {fmt(rng.choice([0.2, 0.4, 0.5]))}}}]")
    atext = "[" + ",\n ".join(rows) + "]\n"
    ntext = ("Modules: {\n" + f"  B: {{{kindB}: true, rectangles: [[{fmt(bx)}, {fmt(by)}, {fmt(bw)}, {fmt(bh)}]]}},\n"
             + f"  S0: {{area: {fmt(2 * cw * ch)}, center: [{fmt(nx * cw / 2)}, {fmt(ny * ch / 2)}]}}\n}}\nNets: [[B, S0]]\n")
    return {"kind": "alloctext", "scale": s, "alloc": atext, "netlist": ntext, "thr": rng.choice([0.5, 0.6, 0.9]),
            "rects": [[(x, y, w, h) for (x, y, w, h) in cells]], "proposal": min(bw, bh, math.sqrt(2 * cw * ch)) * K_NET}


def gen_allocfirst(rng: random.Random, s: float, defect: bool, L: int = 10) -> dict:
    """an allocation document loaded with NO netlist before it: `Allocation.__init__` itself proposes the tolerance
    (1e-12 x the smaller side of the bounding box of its cells) when it is the first design of the process."""
    nx, ny = rng.randint(2, 4), rng.randint(2, 3)
    cw, ch = rng.choice([1, 2, 1.5]) * s, rng.choice([1, 2]) * s
    cells = [((i + 0.5) * cw, (j + 0.5) * ch, cw, ch) for i in range(nx) for j in range(ny)]
    if defect:   # two cells overlapping by a clear margin: rejected whatever the tolerance
        x, y, w, h = cells[0]
        cells.append((x + w / 4, y, w, h))
    rows = [f"[[{fmt(x)}, {fmt(y)}, {fmt(w)}, {fmt(h)}], {{S0: {fmt(rng.choice([0.2, 0.4, 0.5]))}, S1: {fmt(rng.choice([0.1, 0.3, 0.5]))}}}]"
            for (x, y, w, h) in cells]
    return {"kind": "allocfirst", "scale": s, "alloc": "[" + ",\n ".join(rows) + "]\n", "thr": rng.choice([0.45, 0.6, 0.9]),
            "rects": [[(x, y, w, h) for (x, y, w, h) in cells]], "proposal": min(nx * cw, ny * ch) * K_NET}


def gen_sat(rng: random.Random, s: float, defect: bool, L: int = 10) -> dict:
    if rng.random() < 0.5:
        # "rect-like" problems: weighted at-least constraints over 4-8 block variables with area-sized coefficients
        # (deep diagrams with many shared sub-diagrams, as tools/rect posts them)
        nv = rng.randint(3, 8)
        vs = [f"b_{i}" for i in range(nv)]
        areas = [rng.randint(1, 9) for _ in range(nv)]
        if rng.random() < 0.5:
            areas.sort(reverse=True)
        num, den = rng.randint(1, 8), rng.randint(1, 3)
        tot = sum(areas)
        # the three constraints tools/rect posts for one module: at least one block, minimum selected area, and
        # selected_area * den - num * (number of blocks) >= 0  (mixed-sign coefficients -> both polarities after normalisation)
        cons = [{"terms": [(1, v, False) for v in vs], "op": ">=", "rhs": 1, "decomp": False},
                {"terms": [(a, v, False) for a, v in zip(areas, vs)], "op": ">=", "rhs": rng.randint(1, max(1, tot - 1)), "decomp": False},
                {"terms": [(a * den - num, v, False) for a, v in zip(areas, vs) if a * den - num != 0] or [(1, vs[0], False)],
                 "op": ">=", "rhs": 0, "decomp": False}]
        if rng.random() < 0.3:
            cons = cons[1:]
        return {"kind": "sat", "scale": s, "vars": vs, "cons": cons, "amo": [], "k": 3}
    vs = ["a", "b", "c", "d", "e"][: rng.randint(2, 5)]
    cons = []
    for _ in range(rng.randint(1, 4)):
        terms = [(rng.choice([-3, -2, -1, 1, 1, 2, 3, 4]), rng.choice(vs), rng.random() < 0.3) for _ in range(rng.randint(1, 4))]
        cons.append({"terms": terms, "op": rng.choice([">=", "<=", ">", "<", "=", ">="]), "rhs": rng.randint(-2, 5),
                     "decomp": rng.random() < 0.4})
    amo = rng.sample(vs, rng.randint(0, len(vs)))
    return {"kind": "sat", "scale": s, "vars": vs, "cons": cons, "amo": amo, "k": rng.choice([3, 4])}


def sat_variant(rng: random.Random, cons: list) -> list:
    """the same constraints over the same variables and coefficients with the polarity of every / some literals flipped,
    coefficients negated together with the polarity, or the terms permuted: keys a memo might wrongly identify"""
    mode = rng.choice(["flip-all", "flip-some", "negate", "permute", "flip-all"])
    out = []
    for c in cons:
        d = dict(c)
        ts = [tuple(t) for t in c["terms"]]
        if mode == "flip-all":
            ts = [(co, v, not ng) for (co, v, ng) in ts]
        elif mode == "flip-some":
            ts = [(co, v, (not ng) if rng.random() < 0.5 else ng) for (co, v, ng) in ts]
        elif mode == "negate":
            ts = [(-co, v, not ng) for (co, v, ng) in ts]
        else:
            ts = rng.sample(ts, len(ts))
        d["terms"] = ts
        out.append(d)
    return out


def gen_termonly(rng: random.Random, s: float, L: int = 10) -> dict:
    """a netlist of terminals only (no rectangle, no positive area): since /repo 750ac5a it proposes NO tolerance, so the
    next design is still the first one to define it"""
    n = rng.randint(2, 4)
    mods = [f"  T{i}: {{terminal: true, center: [{fmt(rng.randint(0, 4 * L) / L * s)}, {fmt(rng.randint(0, 4 * L) / L * s)}]}}" for i in range(n)]
    nets = ", ".join(f"[T{i}, T{i + 1}]" for i in range(n - 1))
    return {"kind": "netlist", "scale": s, "rects": [], "termonly": True, "text": "Modules: {\n" + ",\n".join(mods) + "\n}\nNets: [" + nets + "]\n"}


def gen_strop(rng: random.Random, s: float, defect: bool, L: int = 10) -> dict:
    nr, nc = rng.randint(1, 5), rng.randint(1, 5)
    m = [[rng.random() < 0.6 for _ in range(nc)] for _ in range(nr)]
    if not any(any(r) for r in m):
        m[0][0] = True
    return {"kind": "strop", "scale": s, "matrix": m}


def gen_legal(rng: random.Random, s: float, defect: bool, L: int = 10) -> dict:
    n = gen_netlist(rng, s, False, L, terminals=False, soft_rects=True)   # the legaliser divides by module areas: no terminals
    n["text"] = n["text"].replace("fixed: true", "hard: true")
    return {"kind": "legal", "scale": s, "netlist": n["text"], "W": 6 * s, "H": 6 * s, "rects": n["rects"],
            "proposal": n["proposal"]}



# ------------------------------------------------------------------ tools built on the library (audit 3 item 5)
def _soft_netlist(rng: random.Random, s: float, L: int, nmin: int = 3, nmax: int = 5, centers: bool = True, W: float = 6.0, H: float = 5.0,
                  fixed: bool = False):
    """soft modules (area, optional centre) + optionally one fixed block; nets of 2-3 pins; returns (text, dims, rects)."""
    n = rng.randint(nmin, nmax)
    mods, dims, rects = [], [], []
    for i in range(n):
        a = rng.choice([1, 2, 0.5, 1.5]) * s * s
        c = f", center: [{fmt(rng.randint(L, int(W - 1) * L) / L * s)}, {fmt(rng.randint(L, int(H - 1) * L) / L * s)}]" if centers else ""
        mods.append(f"  A{i}: {{area: {fmt(a)}{c}}}")
        dims.append(math.sqrt(a))
    if fixed:
        x, y, w, h = rng.randint(1, 2), rng.randint(1, 2), 1, rng.choice([1, 0.5])
        mods.append(f"  F0: {{fixed: true, rectangles: [[{fmt(x * s)}, {fmt(y * s)}, {fmt(w * s)}, {fmt(h * s)}]]}}")
        dims = [w * s, h * s] + dims + [math.sqrt(w * s * h * s)]
        rects.append((x * s, y * s, w * s, h * s))
    names = [m.split(":")[0].strip() for m in mods]
    nets = []
    for i in range(len(names) - 1):      # a connected chain, plus a few extra nets
        nets.append(f"[{names[i]}, {names[i + 1]}]")
    for _ in range(rng.randint(0, 2)):
        mem = rng.sample(names, rng.randint(2, min(3, len(names))))
        nets.append("[" + ", ".join(mem + [fmt(rng.choice([2, 0.5]))]) + "]")
    text = "Modules: {\n" + ",\n".join(mods) + "\n}\nNets: [" + ", ".join(nets) + "]\n"
    return text, dims, rects


def gen_netgen(rng: random.Random, s: float, defect: bool, L: int = 10) -> dict:
    t = rng.choice(["grid", "grid", "grid", "chain", "ring", "star", "ring-star", "one-net", "htree"])
    d = {"kind": "netgen", "scale": s, "rects": []}
    if t == "grid":
        size = [rng.randint(1, 3), rng.randint(1, 3)]
        args = ["--type", "grid", "--size", str(size[0]), str(size[1])]
        if rng.random() < 0.7:
            W, H = rng.randint(3, 8) * s, rng.randint(3, 8) * s
            args += ["--add-centers", "--die", f"{fmt(W)}x{fmt(H)}", "--add-noise", fmt(rng.choice([0, 0, 0.125 * s])),
                     "--seed", str(rng.randint(0, 99))]
            d.update({"W": W, "H": H, "proposal": min(W, H) * K_DIE, "rects": [[(W / 2, H / 2, W, H)]]})
    else:
        n = rng.randint(1, 3) if t == "htree" else rng.randint(4, 6)      # htree: number of LEVELS
        args = ["--type", t, "--size", str(n)]
    if defect:
        args += ["--size", "2", "2", "2"]            # one size too many: rejected by an assertion before anything is built
        d["defect"] = True
    d["args"] = args
    return d


def gen_spectral(rng: random.Random, s: float, defect: bool, L: int = 10) -> dict:
    W, H = rng.randint(6, 9), rng.randint(5, 8)
    centers = rng.random() < 0.5
    text, dims, rects = _soft_netlist(rng, s, L, 3, 5, centers=centers, W=W, H=H, fixed=rng.random() < 0.3)
    return {"kind": "spectral", "scale": s, "netlist": text, "W": W * s, "H": H * s, "bestof": rng.choice([0, 1, 2] if centers else [1, 2]),
            "seed": rng.randint(0, 999), "rects": [rects + [(W * s / 2, H * s / 2, W * s, H * s)]], "proposal": min(dims) * K_NET}


def gen_force(rng: random.Random, s: float, defect: bool, L: int = 10) -> dict:
    W, H = rng.randint(6, 9), rng.randint(5, 8)
    text, dims, rects = _soft_netlist(rng, s, L, 3, 4, centers=True, W=W, H=H)
    return {"kind": "force", "scale": s, "netlist": text, "W": W * s, "H": H * s, "seed": rng.randint(0, 999), "max_iter": rng.choice([3, 6]),
            "rects": [[(W * s / 2, H * s / 2, W * s, H * s)]], "proposal": min(dims) * K_NET}


def gen_glbfloor(rng: random.Random, s: float, defect: bool, L: int = 10) -> dict:
    W, H = rng.choice([4, 6]), rng.choice([4, 6])
    n = rng.randint(2, 3)
    mods, dims = [], []
    for i in range(n):
        a = rng.choice([0.5, 0.625, 0.75]) * W * H / n * s * s      # the modules fill 50-75 % of the die
        mods.append(f"  A{i}: {{area: {fmt(a)}, center: [{fmt(rng.randint(1, W - 1) * s)}, {fmt(rng.randint(1, H - 1) * s)}]}}")
        dims.append(math.sqrt(a))
    nets = ", ".join(f"[A{i}, A{i + 1}]" for i in range(n - 1))
    text = "Modules: {\n" + ",\n".join(mods) + "\n}\nNets: [" + nets + "]\n"
    return {"kind": "glbfloor", "scale": s, "netlist": text, "W": W * s, "H": H * s, "grid": [2, rng.randint(2, 3)], "thr": rng.choice([0.7, 0.9]),
            "alpha": rng.choice([0.3, 0.5]), "rects": [[(W * s / 2, H * s / 2, W * s, H * s)]], "proposal": min(dims) * K_NET}


def gen_floorset(rng: random.Random, s: float, defect: bool, L: int = 10) -> dict:
    """a FloorSet instance: rectilinear single-trunk polygons (integer vertices), pins, block-block and pin-block nets."""
    slot = 8
    ncol, nrow = rng.randint(1, 2), rng.randint(1, 2)
    polys, areas, cons = [], [], []
    for i in range(ncol):
        for j in range(nrow):
            if polys and rng.random() < 0.3:
                continue
            ox, oy = 1 + i * slot, 1 + j * slot
            a, b = rng.randint(3, 6), rng.randint(3, 6)
            c, d = rng.randint(1, b - 1), rng.randint(1, a - 1)
            shape = rng.choice(["rect", "L", "T"])
            if shape == "rect":
                p = [(0, 0), (a, 0), (a, b), (0, b)]
            elif shape == "L":
                p = [(0, 0), (a, 0), (a, c), (d, c), (d, b), (0, b)]
            else:
                d1, d2 = sorted([rng.randint(1, a - 1), rng.randint(1, a - 1)])
                p = [(0, 0), (a, 0), (a, c), (d2, c), (d2, b), (d1, b), (d1, c), (0, c)] if d1 < d2 else [(0, 0), (a, 0), (a, b), (0, b)]
            if rng.random() < 0.5:
                p = p[::-1]
            polys.append([[float(ox + x), float(oy + y)] for x, y in p])
            areas.append(float(rng.randint(1, 40)))
            k = rng.random()
            cons.append([int(k < 0.3), int(0.3 <= k < 0.5), 0, 0, 0])
    W, H = float(ncol * slot + 2), float(nrow * slot + 2)
    pins = [[0.0, 0.0], [W, H]] + [[float(rng.randint(0, int(W))), rng.choice([0.0, H])] for _ in range(rng.randint(0, 3))]
    nb = len(polys)
    b2b = [[float(a), float(b), rng.choice([1.0, 2.0, 0.5])] for a in range(nb) for b in range(a + 1, nb) if rng.random() < 0.7]
    p2b = [[float(rng.randrange(len(pins))), float(rng.randrange(nb)), rng.choice([1.0, 3.0])] for _ in range(rng.randint(0, 3))]
    if defect:
        areas[0] = -1.0        # rejected by the constructor's assertion
    return {"kind": "floorset", "scale": s, "polys": polys, "areas": areas, "cons": cons, "pins": pins, "b2b": b2b, "p2b": p2b,
            "density": rng.choice([None, None, 0.5]), "terminals": rng.random() < 0.5}


def gen_rectsolve(rng: random.Random, s: float, defect: bool, L: int = 10) -> dict:
    """`rect.solve` on a tiny product grid (the main flow of tools/rect for one module)."""
    nx, ny = rng.randint(1, 3), rng.randint(1, 2)
    xs = [0.0]
    for _ in range(nx):
        xs.append(xs[-1] + rng.choice([1, 2, 0.5]))
    ys = [0.0]
    for _ in range(ny):
        ys.append(ys[-1] + rng.choice([1, 2]))
    occ = [rng.choice([1.0, 1.0, 0.5, 0.25, 0.0]) for _ in range(nx * ny)]
    if not any(occ):
        occ[0] = 1.0
    return {"kind": "rectsolve", "scale": s, "xs": xs, "ys": ys, "occ": occ, "ratio": rng.choice([1.0, 2.0, 3.0]), "k": rng.randint(1, 2),
            "dif0": rng.choice([0, 0, 1])}


def gen_legalbuild(rng: random.Random, s: float, defect: bool, L: int = 10) -> dict:
    d = gen_legal(rng, s, defect, L)
    d["kind"] = "legalbuild"
    return d


def gen_satmulti(rng: random.Random, s: float, defect: bool, L: int = 10) -> dict:
    """2-3 SAT managers alive at the same time, posting interleaved (they share the process-wide ROBDD store)."""
    nm = rng.randint(2, 3)
    subs = [gen_sat(rng, s, False, L) for _ in range(nm)]
    if rng.random() < 0.5:       # same variable names in every manager: the diagrams share decision variables
        for d in subs[1:]:
            ren = dict(zip(d["vars"], subs[0]["vars"] + d["vars"]))
            if len(set(ren.values())) == len(ren):
                d["cons"] = [dict(c, terms=[(co, ren[v], ng) for (co, v, ng) in c["terms"]]) for c in d["cons"]]
                d["amo"] = [ren[v] for v in d["amo"]]
                d["vars"] = [ren[v] for v in d["vars"]]
    if rng.random() < 0.5:       # a manager posting polarity / order variants of another manager's constraints
        a, b = rng.sample(range(nm), 2)
        subs[b] = dict(subs[a], cons=sat_variant(rng, subs[a]["cons"]))
    order = [i for i, d in enumerate(subs) for _ in range(len(d["cons"]) + 1)]
    rng.shuffle(order)
    return {"kind": "satmulti", "scale": s, "subs": subs, "order": order}


GEN = {"netgen": gen_netgen, "spectral": gen_spectral, "force": gen_force, "glbfloor": gen_glbfloor, "floorset": gen_floorset,
       "rectsolve": gen_rectsolve, "legalbuild": gen_legalbuild, "satmulti": gen_satmulti, "alloctext": gen_alloctext, "allocfirst": gen_allocfirst, "netlist": gen_netlist, "die": gen_die, "alloc": gen_alloc, "sat": gen_sat, "strop": gen_strop, "legal": gen_legal}


# ------------------------------------------------------------------ running an operation (child processes only)
def _num(x):
    return float(x)


def _rect_digest(r):
    return [_num(r.center.x), _num(r.center.y), _num(r.shape.w), _num(r.shape.h), r.region, r.fixed, r.hard, r.location.name]


def _plain(x):
    """JSON-able copy of nested containers / numpy values (floats stay floats, so digests compare numerically)"""
    if isinstance(x, dict):
        return [[str(k), _plain(v)] for k, v in x.items()]
    if isinstance(x, (list, tuple)):
        return [_plain(v) for v in x]
    if isinstance(x, bool) or x is None or isinstance(x, (int, str)):
        return x
    if isinstance(x, float):
        return x
    try:
        import numpy as np
        if isinstance(x, np.ndarray):
            return [_plain(v) for v in x.tolist()]
        if isinstance(x, np.generic):
            return _plain(x.item())
    except Exception:
        pass
    return str(x)


def _net_dims(n) -> list:
    """the numbers `Netlist._create_rectangles` takes the minimum of when it proposes the tolerance"""
    dims = []
    for r in n.rectangles:
        dims += [r.shape.w, r.shape.h]
    for m in n.modules:
        if m.area() > 0:
            dims.append(math.sqrt(m.area()))
    return dims


def _sat_post(sm, lits, c, refused, i) -> None:
    from tools.rect.pseudobool import Expr
    e = Expr()
    for (co, v, neg) in c["terms"]:
        e = e + (-lits[v] if neg else lits[v]) * co
    op, rhs = c["op"], c["rhs"]
    ineq = {">=": e >= rhs, "<=": e <= rhs, ">": e > rhs, "<": e < rhs, "=": e == rhs}[op]
    try:
        sm.pseudoboolencoding(ineq, c["decomp"])
    except Exception as ex:  # refusal is an observable result too
        refused.append([i, type(ex).__name__])


def _sat_digest(sm, uvars, refused) -> list:
    """[solve() verdict, truth table of the clause set over the user variables, refusals, the clause set itself canonical
    up to renaming of diagram-node / auxiliary variables by first occurrence]"""
    from pysat.solvers import Solver
    sat = sm.solve()
    table = []
    s = Solver()
    for cl in sm.clauses:
        s.add_clause([(sm.ttable[l.v] if l.s else -sm.ttable[l.v]) for l in cl])
    nv = len(uvars)
    for bits in range(2 ** nv):
        ass = [(sm.ttable[v] if (bits >> i) & 1 else -sm.ttable[v]) for i, v in enumerate(uvars)]
        table.append(bool(s.solve(assumptions=ass)))
    s.delete()
    ren: dict[str, str] = {}
    cnf = []
    for cl in sm.clauses:
        row = []
        for l in cl:
            v = l.v
            if v.startswith("robdd_") or v.startswith("aux_"):
                v = ren.setdefault(v, f"{v.split('_')[0]}#{len(ren)}")
            row.append(("" if l.s else "-") + v)
        cnf.append(row)
    return [sat, table, refused, cnf]


def run_op(d: dict):
    """executes one library operation; returns (digest, proposal-info for the tolerance model)."""
    kind = d["kind"]
    from frame.geometry.geometry import Rectangle
    if kind == "netlist":
        from frame.netlist.netlist import Netlist
        try:
            n = Netlist(d["text"])
        except AssertionError:
            return ["rejected", "Assert"], None
        dims = []
        for r in n.rectangles:
            dims += [r.shape.w, r.shape.h]
        for m in n.modules:
            if m.area() > 0:
                dims.append(math.sqrt(m.area()))
        dig = ["accepted",
               [[m.name, m.is_hard, m.is_fixed, m.is_terminal, _num(m.area()),
                 None if m.center is None else [_num(m.center.x), _num(m.center.y)],
                 [_rect_digest(r) for r in m.rectangles], m.has_stog if m.num_rectangles > 0 else None] for m in n.modules],
               [[[mm.name for mm in e.modules], _num(e.weight)] for e in n.edges], _num(n.wire_length)]
        return dig, ("net", dims)
    if kind == "die":
        from frame.die.die import Die
        try:
            die = Die(d["text"])
        except AssertionError:
            return ["rejected", "Assert"], ("die", [d["W"], d["H"]])
        dig = ["accepted", sorted(_rect_digest(r) for r in die.ground_regions),
               [_rect_digest(r) for r in die.specialized_regions], [_rect_digest(r) for r in die.blockages]]
        return dig, ("die", [d["W"], d["H"]])
    if kind == "alloc":
        from frame.die.die import Die
        from frame.netlist.netlist import Netlist
        from frame.allocation.allocation import create_initial_allocation
        try:
            n = Netlist(d["netlist"])
            dims = []
            for r in n.rectangles:
                dims += [r.shape.w, r.shape.h]
            for m in n.modules:
                if m.area() > 0:
                    dims.append(math.sqrt(m.area()))
            nprop = ("net", dims)
            die = Die(d["die"], n)
            a = create_initial_allocation(die)
            must = a.must_be_refined(d["thr"])
            a2 = a.refine(d["thr"], 1)
            a3 = a2.uniform_refinement_depth()
        except AssertionError:
            return ["rejected", "Assert"], None
        def cells(al):
            return sorted([_num(v) for v in c.rect.vector_spec[:4]] + [c.rect.vector_spec[4], c.depth,
                          sorted([k, _num(v)] for k, v in c.alloc.items())] for c in al.allocations)
        return ["ok", must, cells(a), cells(a2), cells(a3)], nprop
    if kind == "alloctext":
        from frame.netlist.netlist import Netlist
        from frame.allocation.allocation import Allocation
        nprop = None
        try:
            n = Netlist(d["netlist"])
            dims = []
            for r in n.rectangles:
                dims += [r.shape.w, r.shape.h]
            for m in n.modules:
                if m.area() > 0:
                    dims.append(math.sqrt(m.area()))
            nprop = ("net", dims)
            a = Allocation(d["alloc"])
            a1 = a.initial_allocation(n, False)
            must = a1.must_be_refined(d["thr"])
            a2 = a1.refine(d["thr"], 1)
        except AssertionError:
            return ["rejected", "Assert"], nprop
        def cells2(al):
            return sorted([_num(v) for v in c.rect.vector_spec[:4]] + [c.rect.vector_spec[4], c.depth, bool(c.rect.fixed),
                          sorted([k, _num(v)] for k, v in c.alloc.items())] for c in al.allocations)
        return ["ok", must, cells2(a1), cells2(a2)], nprop
    if kind == "allocfirst":
        from frame.allocation.allocation import Allocation
        try:
            a = Allocation(d["alloc"])
        except AssertionError:
            return ["rejected", "Assert"], None
        bb = a.bounding_box
        aprop = ("alloc", [bb.shape.w, bb.shape.h])
        must = a.must_be_refined(d["thr"])
        a2 = a.refine(d["thr"], 1)
        a3 = a2.uniform_refinement_depth()
        def cells3(al):
            return sorted([_num(v) for v in c.rect.vector_spec[:4]] + [c.rect.vector_spec[4], c.depth,
                          sorted([k, _num(v)] for k, v in c.alloc.items())] for c in al.allocations)
        return ["ok", must, cells3(a), cells3(a2), cells3(a3)], aprop
    if kind == "sat":
        from tools.rect.satmanager import SATManager
        sm = SATManager()
        lits = {v: sm.newvar(v, "") for v in d["vars"]}
        refused = []
        for i, c in enumerate(d["cons"]):
            _sat_post(sm, lits, c, refused, i)
        if len(d["amo"]) >= 2:
            sm.heuleencoding([lits[v] for v in d["amo"]], d["k"])
        return ["sat"] + _sat_digest(sm, d["vars"], refused), None
    if kind == "satmulti":
        from tools.rect.satmanager import SATManager
        subs = d["subs"]
        sms = [SATManager() for _ in subs]
        lits = [{v: sm.newvar(v, "") for v in sub["vars"]} for sm, sub in zip(sms, subs)]
        refused = [[] for _ in subs]
        nxt = [0] * len(subs)
        for i in d["order"]:            # interleaved postings: every manager sees the store the others have grown
            sub = subs[i]
            if nxt[i] < len(sub["cons"]):
                _sat_post(sms[i], lits[i], sub["cons"][nxt[i]], refused[i], nxt[i])
            elif nxt[i] == len(sub["cons"]) and len(sub["amo"]) >= 2:
                sms[i].heuleencoding([lits[i][v] for v in sub["amo"]], sub["k"])
            nxt[i] += 1
        return ["satmulti"] + [_sat_digest(sm, sub["vars"], rf) for sm, sub, rf in zip(sms, subs, refused)], None
    if kind == "netgen":
        from tools.netgen import netgen
        import tempfile
        fd, fn = tempfile.mkstemp(suffix=".yaml", prefix="c20_netgen_")
        os.close(fd)
        prop = ("die", [d["W"], d["H"]]) if "W" in d and not d.get("defect") else None
        try:
            try:
                netgen.main("netgen", ["-o", fn] + list(d["args"]))
            except AssertionError:
                return ["rejected", "Assert"], None
            from frame.utils.utils import read_yaml
            return ["netgen", _plain(read_yaml(fn))], prop
        finally:
            os.unlink(fn)
    if kind == "spectral":
        from tools.spectral.spectral import Spectral
        from frame.geometry.geometry import Shape
        try:
            sp = Spectral(d["netlist"])
        except AssertionError:
            return ["rejected", "Assert"], None
        nprop = ("net", _net_dims(sp))
        random.seed(d["seed"])           # the operation probed is "seed the generator, then lay out"
        try:
            st = sp.spectral_layout(Shape(d["W"], d["H"]), d["bestof"], False)
        except (AssertionError, ZeroDivisionError) as ex:      # open findings of C14 (orthogonality assert, near-filling disc)
            return ["spectral-raised", type(ex).__name__], nprop
        return ["spectral", st, [[m.name, None if m.center is None else [_num(m.center.x), _num(m.center.y)],
                                  [_rect_digest(r) for r in m.rectangles]] for m in sp.modules]], nprop
    if kind == "force":
        from frame.netlist.netlist import Netlist
        from frame.die.die import Die
        from tools.force.force import add_noise
        from tools.force.fruchterman_reingold import force_algorithm
        try:
            n = Netlist(d["netlist"])
            nprop = ("net", _net_dims(n))
            die = Die(f"{fmt(d['W'])}x{fmt(d['H'])}", n)
        except AssertionError:
            return ["rejected", "Assert"], None
        random.seed(d["seed"])
        die = add_noise(die, 0.01 * d["scale"])
        die, _ = force_algorithm(die, max_iter=d["max_iter"])
        return ["force", [[m.name, [_num(m.center.x), _num(m.center.y)]] for m in die.netlist.modules]], nprop
    if kind == "glbfloor":
        from frame.netlist.netlist import Netlist
        from frame.die.die import Die
        from tools.glbfloor.optimization import glbfloor
        try:
            n = Netlist(d["netlist"])
            nprop = ("net", _net_dims(n))
            die = Die(f"{fmt(d['W'])}x{fmt(d['H'])}", n)
            die.initial_grid(d["grid"][0], d["grid"][1])
        except AssertionError:
            return ["rejected", "Assert"], None
        die, a = glbfloor(die, d["thr"], d["alpha"], max_iter=1, verbose=False)
        cells = sorted([[_num(v) for v in c.rect.vector_spec[:4]], c.depth, sorted([k, _num(v)] for k, v in c.alloc.items())]
                       for c in a.allocations)
        return ["glbfloor", cells, [[m.name, None if m.center is None else [_num(m.center.x), _num(m.center.y)]]
                                    for m in die.netlist.modules]], nprop
    if kind == "floorset":
        import numpy as np
        from tools.floorset_parser.floor_set_manager.manager import FloorSetInstance
        kmax = max(len(p) for p in d["polys"]) + 2
        vb = np.full((len(d["polys"]), kmax, 2), -1.0)
        for i, p in enumerate(d["polys"]):
            vb[i, :len(p), :] = np.array(p)
        data = {"area_blocks": np.array(d["areas"], dtype=float), "b2b_connectivity": np.array(d["b2b"], dtype=float).reshape(-1, 3),
                "p2b_connectivity": np.array(d["p2b"], dtype=float).reshape(-1, 3), "pins_pos": np.array(d["pins"], dtype=float).reshape(-1, 2),
                "placement_constraints": np.array(d["cons"], dtype=float).reshape(-1, 5), "vertex_blocks": vb,
                "metrics": np.array([len(d["polys"]), len(d["pins"]), 1, 1, 1, 1, 1, 1], dtype=float)}
        try:
            fp = FloorSetInstance(data, d["density"], d["terminals"])
        except AssertionError:
            return ["rejected", "Assert"], None
        mods = getattr(fp, "modules", None)
        nets = getattr(fp, "nets", None)
        return ["floorset", _plain(mods), [[list(e.modules), _num(e.weight)] for e in (nets or [])],
                _plain(list(getattr(fp, "shape", []) or []))], None
    if kind == "rectsolve":
        import types
        import tools.rect.rect as rect
        xs, ys, occ = d["xs"], d["ys"], d["occ"]
        ny = len(ys) - 1
        ip = [(xs[i], ys[j], xs[i + 1], ys[j + 1], occ[i * ny + j]) for i in range(len(xs) - 1) for j in range(ny)]
        c = types.SimpleNamespace(input_problem=list(ip), factor=10000, theoreticalBestArea=0, selbox="M", inibox=(0, 0, 0, 0, 0))
        rect.definecoords(c)
        for b in c.blocks:
            c.theoreticalBestArea += rect.area(c, b, True)
        ret = rect.solve(c, {"Width": xs[-1] - xs[0], "Height": ys[-1] - ys[0]}, d["ratio"], (d["dif0"], 1), d["k"])
        # the shape the solver picks among equally good ones is the solver's choice; what is compared: the reported cost,
        # the number of boxes and the quality, plus every box being a union of grid cells
        cost, boxes, quality = ret
        return ["rectsolve", _plain(cost), len(boxes), _num(quality) if isinstance(quality, (int, float)) else str(quality),
                sorted(_plain(b) for b in boxes)], None
    if kind == "legalbuild":
        return run_legal(d, build=True)
    if kind == "strop":
        from tools.floorset_parser.floor_set_manager.strop import Strop
        st = Strop(" ".join("".join("1" if c else "0" for c in row) for row in d["matrix"]))
        ok = st.is_strop
        inst = []
        for i in st.instances():
            inst.append(sorted(str((r.rows.low, r.rows.high, r.columns.low, r.columns.high)) for r in i.rectangles()))
        return ["strop", ok, sorted(map(str, inst))], None
    if kind == "legal":
        return run_legal(d)
    raise ValueError(kind)


def run_legal(d: dict, build: bool = False):
    """legaliser model construction (no solve): digest = multiset of equation strings.  `build`: also run
    `ModelWrapper.build_model()` (what `solve()` does right before calling GEKKO) — it reads the process-wide slack and
    re-points it to a fresh GEKKO object — and add the equations / objective GEKKO was handed."""
    try:
        import legal_common  # provided by the C09 harness when present
    except Exception:
        return ["legal", "unavailable"], None
    nprop = None
    # ONE model construction per probe (a second one in the same process would itself be "history")
    try:
        b = legal_common.Built(d["netlist"], float(d["W"]), float(d["H"]), float(d.get("max_ratio", 2.0)), reset_epsilon=False)
        try:
            dims = []
            for r in b.netlist.rectangles:
                dims += [r.shape.w, r.shape.h]
            for m in b.netlist.modules:
                if m.area() > 0:
                    dims.append(math.sqrt(m.area()))
            nprop = ("net", dims)
            dig = ["utils " + legal_common.ser_utils(b.utils), "other-groups " + repr(sorted(b.other_groups.items()))] \
                + sorted(legal_common.ser_eq(g, e) for g, e in b.eqs)
            # the rest of what the built model exposes publicly: the variables its objective / undo() range over
            w = b.model.gekko
            names = [v.data["name"] for v in getattr(w, "variable_list", [])]
            dig = dig + ["variable_list " + " ".join(sorted(names)), "n_constraint_groups %d" % len(getattr(w, "constraints", {}))]
            # the slack tree this construction installed must belong to THIS model's GEKKO object (build_model re-points it);
            # optional observation point: without the attribute both sides read "False"
            dig.append("slack-tree-bound-to-this-model %s" % (getattr(getattr(b, "real_eps_tree", None), "gekko", None) is getattr(w, "gekko", 0)))
            if build:
                b.set_slack(None)        # the slack tree this model's constructor installed (Built parks a constant 0)
                w.build_model()
                gk = w.gekko
                dig = dig + ["gekko-eq " + str(e) for e in getattr(gk, "_equations", [])] + \
                            ["gekko-obj " + str(o) for o in getattr(gk, "_objectives", [])]
        finally:
            legal_common.cleanup()
    except AssertionError:
        return ["rejected", "Assert"], nprop
    return dig, nprop


# ------------------------------------------------------------------ process-wide registers other than the tolerances
def footprint() -> dict:
    """content of the process-wide objects the property names (besides the tolerances and the ROBDD store): the
    legaliser's name registry and debug mask, and the shared default-argument objects of `Ineq` and `Strop`.
    Every observation point is optional (a module not loaded / an attribute renamed is simply not observed)."""
    f: dict = {}
    et = sys.modules.get("tools.legalfloor.expression_tree")
    if et is not None:
        if isinstance(getattr(et, "named_variables", None), (set, frozenset, list, dict)):
            f["names"] = sorted(map(str, et.named_variables))
        if isinstance(getattr(et, "debug_print", None), int):
            f["debug"] = et.debug_print
    pb = sys.modules.get("tools.rect.pseudobool")
    if pb is not None and hasattr(pb, "Ineq"):
        d = getattr(pb.Ineq.__init__, "__defaults__", None) or ()
        f["ineq_defaults"] = [[len(x.t), x.c] if hasattr(x, "t") and hasattr(x, "c") else repr(x) for x in d]
    sp = sys.modules.get("tools.floorset_parser.floor_set_manager.strop")
    if sp is not None and hasattr(sp, "Strop"):
        d = getattr(sp.Strop.__init__, "__defaults__", None) or ()
        f["strop_defaults"] = [list(x) if isinstance(x, list) else repr(x) for x in d]
        if hasattr(sp, "EMPTY_INTERVAL"):
            f["strop_empty_interval"] = repr(sp.EMPTY_INTERVAL)
    return f


REG_NAMES = ["time", "x", "w_0", "x_0", "time_0"]


def gen_regs(rng: random.Random) -> list[list]:
    """a random sequence of register operations (model: FV/Model/Registers.lean); `build` blocks follow the shape of
    `Model.define_time` + equations: create `time`, install a fresh slack, add equations, read the slack."""
    ops: list[list] = []

    def build():
        ops.append(["var", "time"])
        ops.append(["set", rng.randint(1, 40)])
        for _ in range(rng.randint(1, 3)):
            ops.append(["eq", rng.randint(0, 1)])
            if rng.random() < 0.3:
                ops.append(["dbg", rng.choice([1, 2, 255])])
        ops.append(["get"])

    for _ in range(rng.randint(1, 8)):
        k = rng.random()
        if k < 0.3:
            build()
        elif k < 0.4:
            ops.append(["get"])
        elif k < 0.5:
            ops.append(["eq", rng.randint(0, 1)])
        elif k < 0.6:
            ops.append(["set", rng.randint(1, 40)])
        elif k < 0.7:
            ops.append(["var", rng.choice(REG_NAMES)])
        elif k < 0.8:
            ops.append(["off", rng.choice([1, 2, 3, 0x10, 0xFF, 0x100, 0x1FF])])
        elif k < 0.9:
            ops.append(["on", rng.choice([1, 2, 0x100, 0x300, 0xFF])])
        else:
            ops.append(["dbg", rng.choice([1, 2, 4, 0x100, 0xFF, 0x3FF])])
    return ops


def regs_request(ops: list[list]) -> str:
    return "F regs %d %s" % (len(ops), " ".join(" ".join(str(x) for x in op) for op in ops))


def child_regs(ops):
    """runs in a fresh forked interpreter: the same register operations on the real tools.legalfloor.expression_tree."""
    import warnings
    warnings.simplefilter("ignore")
    import io
    import contextlib
    import shutil
    try:
        from tools.legalfloor import expression_tree as et
        from gekko import GEKKO
    except Exception as ex:  # legaliser not importable here: nothing to compare
        return None
    g = GEKKO(remote=False)
    outs = []
    try:
        probe_var = None
        for op in ops:
            buf = io.StringIO()
            o = "u"
            with contextlib.redirect_stdout(buf):
                try:
                    if op[0] == "set":
                        et.set_epsilon(et.ExpressionTree(g, float(op[1])))
                    elif op[0] == "get":
                        o = "t%d" % round(et.get_epsilon())
                    elif op[0] == "eq":
                        if probe_var is None:
                            probe_var = et.ExpressionTree(g, g.Var(value=0.0, lb=0, ub=10, name="q"))
                        n0 = len(g._equations)
                        et.add_equation(g, probe_var, et.Cmp.LE, et.ExpressionTree(g, 0.0), "probe", bool(op[1]))
                        txt = str(g._equations[-1]) if len(g._equations) > n0 else ""
                        if op[1]:
                            o = "u" if txt.replace(" ", "").endswith("<=0.0") else "eq?" + txt
                        else:
                            o = "t%d" % round(float(txt.split("<=")[1]))
                    elif op[0] == "var":
                        o = "n:" + str(et.ExpressionTree.create_variable(g, 1.0, 0, 10, op[1]).data["name"])
                    elif op[0] == "off":
                        et.turn_off_flag(int(op[1]))
                    elif op[0] == "on":
                        et.turn_on_flag(int(op[1]))
                    elif op[0] == "dbg":
                        et.debug("probe", flag=int(op[1]))
                        o = None
                except (NameError, AttributeError):
                    o = "err"
                except Exception as ex:
                    o = "exc:" + type(ex).__name__
            if o is None:
                o = "p1" if buf.getvalue() else "p0"
            outs.append(o)
        try:
            e = str(round(et.epsilon.evaluate()))
        except (NameError, AttributeError):
            e = "none"
        # the two module attributes are observation points named by the property; if a refactoring renames them the
        # field is reported as "na" and not compared
        dbg = getattr(et, "debug_print", None)
        nv = getattr(et, "named_variables", None)
        tail = "eps=%s debug=%s names=%s" % (e, dbg if isinstance(dbg, int) else "na",
                                             len(nv) if isinstance(nv, (set, frozenset, list, dict)) else "na")
    finally:
        shutil.rmtree(getattr(g, "_path", "") or "/nonexistent", ignore_errors=True)
    return " ".join(outs) + " | " + tail



def _track_tempdirs() -> list:
    """GEKKO models create a scratch directory each (tempfile.mkdtemp): remember them so that the child removes its own."""
    import tempfile
    made: list = []
    orig = tempfile.mkdtemp

    def mk(*a, **k):
        pth = orig(*a, **k)
        made.append(pth)
        return pth
    tempfile.mkdtemp = mk
    return made


def _remove_tempdirs(made: list) -> None:
    import shutil
    for pth in made:
        shutil.rmtree(pth, ignore_errors=True)
    lc = sys.modules.get("legal_common")      # only if this child used it (importing it costs seconds)
    if lc is not None:
        try:
            lc.cleanup()
        except Exception:
            pass


def _guard() -> None:
    """a runaway operation must end as an exception digest of that child, not take the machine down"""
    import resource
    import signal
    try:
        resource.setrlimit(resource.RLIMIT_AS, (8 << 30, 8 << 30))
    except (ValueError, OSError):
        pass

    def _timeout(*_a):
        raise TimeoutError("operation exceeded the per-child time limit")
    signal.signal(signal.SIGALRM, _timeout)
    signal.alarm(300)


def child(task):
    """runs in a fresh forked interpreter."""
    hist, probe = task
    _guard()
    import warnings
    warnings.simplefilter("ignore")
    from frame.geometry.geometry import Rectangle
    import io
    import contextlib
    states = []
    props = []
    feet = [footprint()]
    out = io.StringIO()
    made = _track_tempdirs()
    with contextlib.redirect_stdout(out):
        for h in hist:
            try:
                _, prop = run_op(h)
            except Exception as ex:  # history ops on generated designs may fail; they still are history
                prop = None
            props.append(prop)
            states.append([Rectangle._distance_epsilon, Rectangle._area_epsilon])
            feet.append(footprint())
        try:
            dig, prop = run_op(probe)
        except Exception as ex:
            dig, prop = ["exception", type(ex).__name__], None
    props.append(prop)
    states.append([Rectangle._distance_epsilon, Rectangle._area_epsilon])
    feet.append(footprint())
    _remove_tempdirs(made)
    return json.dumps(dig), states, props, feet


# ------------------------------------------------------------------ comparison
def _flatten(x, out):
    if isinstance(x, (list, tuple)):
        for y in x:
            _flatten(y, out)
    else:
        out.append(x)


def digests_equal(a: str, b: str) -> tuple[bool, bool]:
    """(same up to 1e-9 relative on numbers, bit-identical)"""
    if a == b:
        return True, True
    fa, fb = [], []
    _flatten(json.loads(a), fa)
    _flatten(json.loads(b), fb)
    if len(fa) != len(fb):
        return False, False
    for x, y in zip(fa, fb):
        if isinstance(x, float) and isinstance(y, float):
            if abs(x - y) > 1e-9 * max(1.0, abs(x), abs(y)):
                return False, False
        elif x != y:
            return False, False
    return True, False


def robust(probe: dict, lo: float, hi: float) -> bool:
    """is the probed design Robust for the tolerance interval [lo, hi] (hypothesis of the C20 theorems)?"""
    alo, ahi = math.sqrt(lo), math.sqrt(hi)
    # float dimension: a tolerance below the rounding resolution of the design's own coordinates is absorbed by
    # `x - epsilon` (the exact-arithmetic theorem does not transfer there)
    coords = [abs(v) for group in probe.get("rects", []) for (x, y, w, h) in group for v in (x + w / 2, y + h / 2)]
    if coords and lo < 4 * math.ulp(max(coords)):
        return False
    for group in probe.get("rects", []):
        boxes = [(x - w / 2, y - h / 2, x + w / 2, y + h / 2) for x, y, w, h in group]
        for i in range(len(boxes)):
            for j in range(i + 1, len(boxes)):
                a, b = boxes[i], boxes[j]
                dx = min(a[2], b[2]) - max(a[0], b[0])
                dy = min(a[3], b[3]) - max(a[1], b[1])
                ov = dx * dy if dx > 0 and dy > 0 else 0.0
                if alo / 4 < ov <= ahi * 4:
                    return False
                for u in (a[0], a[2]):
                    for v in (b[0], b[2]):
                        if lo / 4 < abs(u - v) <= hi * 4:
                            return False
                for u in (a[1], a[3]):
                    for v in (b[1], b[3]):
                        if lo / 4 < abs(u - v) <= hi * 4:
                            return False
    return True



def proposal_value(prop) -> float | None:
    if prop is None:
        return None
    kind, dims = prop
    if kind == "die":
        return min(dims[0], dims[1]) * K_DIE
    if kind == "alloc":
        return K_NET * min(dims[0], dims[1])
    if kind == "net":
        m = math.inf
        for v in dims:
            m = min(m, v)
        return m * K_NET if m < math.inf else None
    return None


def model_request(props) -> str:
    toks = ["F", "eps", f2hex(K_DIE), f2hex(K_NET), f2hex(math.inf), str(sum(1 for p in props if p is not None))]
    for p in props:
        if p is None:
            continue
        kind, dims = p
        toks += [kind, str(len(dims))] + [f2hex(v) for v in dims]
    return " ".join(toks)


def make_task(rng: random.Random, ctx: Ctx, weights: dict | None = None):
    kind = pick_kind(rng, weights)
    # 70 %: dyadic world (lattice 1/8, scales 2^k): every float operation of the library is exact, so a design has no
    #       rounding-noise gaps and is Robust unless its absolute scale is tiny; 30 %: decimal world (lattice 0.1, 10^k)
    dyadic = rng.random() < 0.7
    L, base, kmax = (8, 2.0, 10) if dyadic else (10, 10.0, 3)
    # absolute scale of the probed design: mostly ordinary, sometimes tiny / huge
    s = base ** rng.choice([0, 0, 0, 1, 2, 3, 4, -1, -2, -3] if not dyadic else [0, 0, 0, 2, 5, 8, 12, -2, -5, -8])
    probe = GEN[kind](rng, s, rng.random() < 0.25, L)
    hist = []
    for _ in range(rng.randint(1, ctx.n(6, 25) if ctx.budget <= 1 else 8)):
        hs = s * base ** rng.randint(-kmax, kmax)
        hk = pick_kind(rng, weights)
        hist.append(GEN[hk](rng, hs, rng.random() < 0.25, L))
    if kind in ("die", "alloc") and rng.random() < 0.4:
        # the smallest design the quantifier allows as the FIRST design of the process: the inherited tolerance is then far
        # below the die's own, which is where a self-check reading the process-wide tolerance instead of the die's shows
        hist.insert(0, gen_netlist(rng, s * base ** (-kmax), False, L))
    if rng.random() < 0.15:
        # a terminals-only netlist as the FIRST design of the process (and sometimes again later): it must define nothing
        hist.insert(0, gen_termonly(rng, s * base ** rng.randint(-kmax, kmax), L))
        if rng.random() < 0.3:
            hist.append(gen_termonly(rng, s, L))
    if kind in ("netlist", "alloc", "alloctext", "legal", "legalbuild", "die", "spectral", "force", "glbfloor") and rng.random() < 0.5:
        # an earlier, DIFFERENT design that shares exact rectangle descriptors with the probe (same regular grid) but has
        # other attributes: value-keyed caches / shared objects leak marks (fixed, roles, moved centres) through these
        twin = json.loads(json.dumps(probe))
        for key in ("text", "netlist"):
            if key in twin and isinstance(twin[key], str):
                t = twin[key]
                if "{hard: true" in t and "{fixed: true" not in t:
                    t = t.replace("{hard: true", "{fixed: true")
                elif "hard: true" in t and rng.random() < 0.7:
                    t = t.replace("hard: true", "fixed: true")
                elif "fixed: true" in t:
                    t = t.replace("fixed: true", "hard: true")
                t = t.replace("area: ", "area: 1.5 * " if False else "area: ")
                twin[key] = t
        if "thr" in twin:
            twin["thr"] = rng.choice([0.3, 0.6, 0.9])
        twin.pop("proposal", None) if False else None
        hist.insert(rng.randint(0, len(hist)), twin)
    if kind in ("floorset", "rectsolve", "netgen", "satmulti", "strop") and rng.random() < 0.5:
        # the same operation kind on a closely related input earlier in the process (a memo keyed by part of the input)
        twin = json.loads(json.dumps(probe))
        if kind == "floorset":
            twin["areas"] = [a + 1.0 for a in twin["areas"]]
            twin["terminals"] = not twin["terminals"]
        elif kind == "rectsolve":
            twin["occ"] = [1.0 - o for o in twin["occ"]]
            if not any(twin["occ"]):
                twin["occ"][0] = 1.0
            twin["k"] = 3 - twin["k"]
        elif kind == "netgen":
            twin["args"] = [("1" if a == "2" else "2") if a in ("1", "2", "3") else a for a in twin["args"]]
        elif kind == "satmulti":
            twin["order"] = list(reversed(twin["order"]))
        elif kind == "strop":
            twin["matrix"] = [list(reversed(r)) for r in twin["matrix"]]
        hist.insert(rng.randint(0, len(hist)), twin)
    if kind == "sat" and probe["vars"] and probe["vars"][0].startswith("b_"):
        for _ in range(rng.randint(1, 3)):
            hist.insert(rng.randint(0, len(hist)), gen_sat(rng, s, False, L))   # half of these are rect-like again
    if kind == "sat" and rng.random() < 0.6:
        # an earlier manager that encoded (some of) the very same constraints: shares ROBDD nodes with the probe
        twin = dict(probe)
        cons = [dict(c) for c in probe["cons"] if rng.random() < 0.8] or [dict(probe["cons"][0])]
        for c in cons:
            if rng.random() < 0.5:
                c["decomp"] = not c["decomp"]        # same constraint, other ROBDD construction
            if rng.random() < 0.4:                     # a superset constraint sharing the probe's sub-problems
                c["terms"] = [(rng.choice([5, 6, 7]), "e", False)] + list(c["terms"])
                c["rhs"] = c["rhs"] + rng.choice([0, 5, 6])
        twin["cons"] = cons
        twin["vars"] = sorted(set(probe["vars"]) | {"e"})
        hist.insert(rng.randint(0, len(hist)), twin)
    if kind == "sat" and rng.random() < 0.6:
        # an earlier manager that encoded the same terms with other polarities / order (audit 4 row 13: a memo keyed by
        # variables and coefficients only)
        var = dict(probe)
        var["cons"] = sat_variant(rng, probe["cons"])
        hist.insert(rng.randint(0, len(hist)), var)
    if kind == "sat" and rng.random() < 0.6:
        # cofactors of the probe's constraints encoded earlier: their diagrams become OLDER shared sub-diagrams of the probe's
        cof = dict(probe)
        cs = []
        for c in probe["cons"]:
            if len(c["terms"]) >= 2:
                k = max(range(len(c["terms"])), key=lambda i: abs(c["terms"][i][0])) if rng.random() < 0.7 else rng.randrange(len(c["terms"]))
                d2 = dict(c)
                d2["terms"] = [t for i, t in enumerate(c["terms"]) if i != k]
                co = c["terms"][k][0]
                d2["rhs"] = c["rhs"] - (co if rng.random() < 0.5 else 0)
                cs.append(d2)
        if cs:
            cof["cons"] = cs
            cof["amo"] = []
            hist.insert(rng.randint(0, len(hist)), cof)
    return hist, probe


def corpus():
    """minimised past failures, always run first (the witness of the open finding C20-sticky-tolerance-…)."""
    def nl(s):
        return (f"Modules: {{\n  A: {{hard: true, rectangles: [[{2*s},{2*s},{2*s},{2*s}],[{3*s},{2*s},{2*s},{2*s}]]}},\n"
                f"  B: {{area: {4*s*s}, center: [{s},{s}]}}\n}}\nNets: [[A,B]]\n")
    h = 1e-1
    hist = {"kind": "netlist", "scale": h, "rects": [], "proposal": h * K_NET,
            "text": f"Modules: {{\n  A: {{area: {h*h}, center: [{h},{h}]}},\n  B: {{area: {4*h*h}, center: [{h},{h}]}}\n}}\nNets: [[A,B]]\n"}
    s = 1e-4
    probe = {"kind": "netlist", "scale": s, "text": nl(s), "rects": [[(2*s, 2*s, 2*s, 2*s), (3*s, 2*s, 2*s, 2*s)]],
             "proposal": 2 * s * K_NET}
    return [([hist], probe)]


def run(ctx: Ctx) -> None:
    ctx.rule = ("probe = one operation of kind {netlist load, die decomposition, initial allocation + refine + uniform, SAT "
                "encoding (truth table over the user variables; one manager or 2-3 interleaved), strop decomposition, legaliser model "
                "construction (+ build_model), netgen, spectral, force, glbfloor (one pass), FloorSet manager, rect.solve} on a "
                "generated design at absolute scale 10^k, k ∈ {-4..5}; history = 1..6 (thorough: ..25) operations of random "
                "kinds on unrelated designs at scales within ×1000 of the probe's, 25% of all designs carry an injected "
                "defect (overlap / out of die); each probe is run alone and after the history in two fresh forked "
                "interpreters; non-trivial = history contains at least one operation that defines or reads process state "
                "(tolerances, ROBDD store, legaliser slack); distinct = distinct (history, probe).  Streams besides `fork`: "
                "`regs` (legaliser register sequences vs Registers.lean), `satproc` (interleaved postings of 1-3 SAT managers vs "
                "SatProc.lean; each manager also re-run alone in a fresh interpreter), `state-inventory` (static scan of the source "
                "for process-wide state vs the committed list)")
    n = ctx.n(500, 6000)
    rng = ctx.rng
    # static tie: the process-wide state the SOURCE declares vs the committed inventory the model accounts for
    new_state = inventory_stream(ctx)
    suspects = [e["file"] for e in new_state]
    for extra in getattr(ctx, "seed_inputs", []) or []:
        if isinstance(extra, dict) and "state_inventory" in extra:
            suspects.append(extra["state_inventory"]["file"])
    weights = bias_weights(suspects) if suspects else None
    if weights:
        # the check's own extended search: three times the cases, drawn where the new state lives (the orchestrator's
        # extended search does not start while the open finding's corpus case is reported)
        if ctx.budget <= 1:
            n *= 3
        ctx.notes.append("new process-wide state in " + ", ".join(sorted(set(suspects))) + ": 3x the cases, operation kinds that import it drawn 8x as often")
    tasks = corpus() + [make_task(rng, ctx, weights) for _ in range(n)]
    for extra in getattr(ctx, "seed_inputs", []) or []:
        if isinstance(extra, dict) and "probe" in extra:
            tasks.append((extra["history"], extra["probe"]))
    jobs = []
    for hist, probe in tasks:
        jobs.append(([], probe))
        jobs.append((hist, probe))
    # the parent only IMPORTS the modules that hold process-wide objects, so that every child can compare their
    # content with the import-time content
    for mod in ("tools.rect.pseudobool", "tools.floorset_parser.floor_set_manager.strop", "tools.legalfloor.expression_tree"):
        try:
            __import__(mod)
        except Exception:
            ctx.notes.append(f"{mod} not importable: its registers are not observed")
    # third-party libraries the tools import (NOT part of the library under test): loaded once here so that the ~1000 forked
    # children do not each pay for them; the parent never calls into them
    for mod in ("numpy", "ruamel.yaml", "pysat.solvers", "PIL.Image", "PIL.ImageDraw", "PIL.ImageFont", "matplotlib.pyplot", "matplotlib.font_manager", "matplotlib.cm", "gekko", "distinctipy"):
        try:
            __import__(mod)
        except Exception:
            pass
    baseline = footprint()
    reg_tasks = [[["get"]], [["var", "time"], ["set", 3], ["eq", 0], ["eq", 1], ["get"]]] + \
                [gen_regs(rng) for _ in range(ctx.n(150, 2500))]
    mpctx = mp.get_context("fork")
    import time as _time
    t_phase = _time.time()
    with mpctx.Pool(processes=min(16, os.cpu_count() or 4), maxtasksperchild=1) as pool:
        results = pool.map(child, jobs, chunksize=1)
        ctx.extra.setdefault("phase_seconds", {})["fork-children"] = round(_time.time() - t_phase, 1)
        t_phase = _time.time()
        reg_results = pool.map(child_regs, reg_tasks, chunksize=1)
        ctx.extra["phase_seconds"]["register-children"] = round(_time.time() - t_phase, 1)
    regs_stream(ctx, reg_tasks, reg_results)
    t_phase = _time.time()
    sat_hs = [gen_satproc(rng) for _ in range(ctx.n(60, 1500))]
    for extra in getattr(ctx, "seed_inputs", []) or []:
        if isinstance(extra, dict) and "satproc" in extra:
            sat_hs.append(extra["satproc"])
    run_satproc(ctx, sat_hs)
    ctx.extra["phase_seconds"]["satproc"] = round(_time.time() - t_phase, 1)
    # control runs for the probes whose digest depends on the history: a third fresh interpreter in which only the
    # tolerance the history left in force is preset.  The open finding may explain a difference only if this control
    # reproduces the after-history digest (the tolerance ALONE explains it).
    differing = []
    for i, (hist, probe) in enumerate(tasks):
        same, _ = digests_equal(results[2 * i][0], results[2 * i + 1][0])
        if not same:
            st = results[2 * i + 1][1]
            before_probe = st[-2] if len(st) >= 2 else [-1.0, -1.0]
            differing.append((i, (before_probe, probe)))
    control = {}
    if differing:
        with mpctx.Pool(processes=min(16, os.cpu_count() or 4), maxtasksperchild=1) as pool:
            for (i, _), dig in zip(differing, pool.map(child_control, [t for _, t in differing], chunksize=1)):
                control[i] = dig
    ctx.count("control-runs", len(differing))
    # die probes whose verdict flips after the history: what does the model of the UNCHANGED constructor say under the
    # inherited tolerance state?  (it uses the die's own tolerance for the inside / area-sum self-checks; if it keeps the fresh
    # verdict while the code flips, the documented sticky-tolerance mechanism does not explain the difference)
    die_model: dict = {}
    dq, dk = [], []
    for i, (before_probe, probe) in differing:
        if probe["kind"] == "die":
            for st in ([-1.0, -1.0], before_probe):
                r = die_model_request(probe, st)
                if r is not None:
                    dq.append(r)
                    dk.append(i)
    if dq:
        try:
            rep = ctx.model(dq, exe="drv_die")
        except Exception as ex:
            rep = None
            ctx.notes.append(f"drv_die not usable for the die-verdict mask: {type(ex).__name__}")
        if rep is not None:
            for k in range(0, len(rep) - 1, 2):
                if dk[k] == dk[k + 1] and "bad-op" not in (rep[k], rep[k + 1]):
                    die_model[dk[k]] = (rep[k].startswith("ok"), rep[k + 1].startswith("ok"))
    reqs, expect = [], []
    for i, (hist, probe) in enumerate(tasks):
        fresh_dig, fresh_states, fresh_props, fresh_feet = results[2 * i]
        hist_dig, hist_states, hist_props, hist_feet = results[2 * i + 1]
        inp = {"history": hist, "probe": probe}
        # no operation writes the name registry, the debug mask or the shared default-argument objects
        for k, ft in enumerate(hist_feet + fresh_feet):
            bad = {key: (baseline.get(key), v) for key, v in ft.items() if key in baseline and baseline[key] != v}
            if bad:
                ctx.spec_fail("registers_untouched", inp, {"after_op": k, "import_time_vs_now": bad}, size=len(hist))
                break
        nontrivial = any(h["kind"] in GEOMETRIC + ("sat", "satmulti", "rectsolve") for h in hist)
        ctx.case("fork", (json.dumps(hist, sort_keys=True), json.dumps(probe, sort_keys=True)), nontrivial,
                 sample={"probe_kind": probe["kind"], "scale": probe["scale"], "history": [(h["kind"], h["scale"]) for h in hist],
                         "fresh_digest": fresh_dig[:160]})
        ctx.count("probe:" + probe["kind"])
        ctx.count("verdict:" + str(json.loads(fresh_dig)[0])[:12])
        if hist and hist[0]["kind"] == "allocfirst":
            ctx.count("history-starts-with-allocation")
        if hist and hist[0].get("termonly"):
            ctx.count("history-starts-with-terminals-only-netlist")
        same, exact = digests_equal(fresh_dig, hist_dig)
        if same:
            ctx.drift += 0 if exact else 1
        else:
            finding = None
            legit = [h["proposal"] for h in hist if "proposal" in h] + ([probe["proposal"]] if "proposal" in probe else [])
            inforce = hist_states[-1][0]
            explained = any(abs(inforce - v) <= 1e-9 * v for v in legit)   # the sticky mechanism, nothing else
            by_tolerance_alone = i in control and digests_equal(control[i], hist_dig)[0]
            ctx.count("differs:tolerance-alone" if by_tolerance_alone else "differs:NOT-explained-by-tolerance")
            if explained and by_tolerance_alone and probe["kind"] in GEOMETRIC:
                lo, hi = min(legit), max(legit)
                if not robust(probe, lo, hi):
                    finding = "C20-sticky-tolerance-nonrobust-design"
            clause = "history_indep"
            if i in die_model:
                fresh_ok, hist_ok = json.loads(fresh_dig)[0] == "accepted", json.loads(hist_dig)[0] == "accepted"
                ctx.count("die-verdict-mask:model-consulted")
                if fresh_ok != hist_ok and die_model[i][0] == fresh_ok and die_model[i][1] == fresh_ok:
                    # the model (own tolerance in the self-checks) keeps the fresh verdict under the inherited state
                    finding, clause = None, "die_verdict_after_history"
            ctx.spec_fail(clause, inp, {"fresh": fresh_dig[:600], "after_history": hist_dig[:600],
                                        "control_with_only_the_tolerance_preset": (control.get(i) or "")[:600],
                                        "tolerance_alone_explains": by_tolerance_alone,
                                        "die_model_accepts(fresh_state, inherited_state)": die_model.get(i)},
                          size=len(hist), finding=finding)
        # spec on implementation: the tolerance in force after the history is the proposal of the FIRST design that
        # carries one (sticky), computed on the spec side from the generated data
        legit_seq = [h["proposal"] for h in hist if "proposal" in h] + ([probe["proposal"]] if "proposal" in probe else [])
        got = hist_states[-1][0]
        if legit_seq:
            # (a design rejected before it reaches the guarded set_epsilon defines nothing, hence "some", not "the first")
            if not (got == -1.0 or any(abs(got - v) <= 1e-9 * v for v in legit_seq)):
                ctx.spec_fail("tolerance_is_a_design_proposal", inp, {"in_force": got, "proposals": legit_seq[:6]}, size=len(hist))
        elif got >= 0:
            ctx.spec_fail("tolerance_untouched_by_non_geometric_ops", inp, {"in_force": got}, size=len(hist))
        # correspondence of the tolerance state with the model.  An operation whose proposal could not be reconstructed
        # (sat / strop never propose; a rejected design may or may not have reached its guarded set_epsilon) is a no-op of
        # the model exactly when it left the observed state unchanged; otherwise the case is not modellable.
        ops = list(hist) + [probe]
        seq, ok = [], True
        prev = [-1.0, -1.0]
        for op, pr, st in zip(ops, hist_props, hist_states):
            if pr is not None:
                seq.append(pr)
            elif st != prev:
                ok = False
                break
            elif op["kind"] in NON_GEOMETRIC:
                pass
            prev = st
        for op, st0, st1 in zip(ops, [[-1.0, -1.0]] + hist_states, hist_states):
            if op["kind"] in NON_GEOMETRIC and st0 != st1:
                ctx.disagree("eps-untouched-by-sat-strop", inp, st1, st0, size=len(hist))
        if ok:
            reqs.append(model_request(seq))
            expect.append((inp, hist_states[-1]))
            ctx.count("eps-state-compared")
            for pr in seq:
                ctx.count("eps-proposal:" + pr[0])
        else:
            ctx.count("eps-state-not-modellable(rejected design changed the state)")
    replies = ctx.model(reqs)
    if replies is None:
        ctx.notes.append("model driver unavailable: tolerance-state correspondence not run")
        return
    for (inp, st), rep in zip(expect, replies):
        impl = "none" if st[0] < 0 else f"{f2hex(st[0])} {f2hex(st[1])}"
        if impl != rep:
            ctx.disagree("eps-state", inp, impl, rep, size=len(inp["history"]))


def inventory_stream(ctx: Ctx) -> list:
    """static inventory of process-wide mutable state (harness/c20_inventory.py) vs the committed expected list; a NEW piece
    of state is a broken correspondence `state-inventory` (replay = file:line) and steers the extended search."""
    import c20_inventory as inv
    import vcheck
    try:
        entries, files, bad = inv.inventory(vcheck.REPO)
        expected = inv.load_expected()
    except Exception as ex:   # the scanner itself must never take the check down
        ctx.notes.append(f"state inventory not run: {type(ex).__name__}: {ex}")
        return []
    new, gone, renames = inv.compare(entries, expected)
    ctx.case("state-inventory", ("inventory", len(files)), True,
             sample={"files_scanned": len(files), "state_entries": len(entries), "expected": len(expected)})
    ctx.count("inventory:files-scanned", len(files))
    ctx.count("inventory:state-entries", len(entries))
    for e in entries:
        ctx.count("inventory:" + e["cat"])
    ctx.extra["state_inventory"] = {"files": files, "entries": entries, "unparsable": bad,
                                    "vanished": [g["file"] + ":" + g["name"] for g in gone],
                                    "renamed": [[a["name"], b["name"]] for a, b in renames]}
    if bad:
        ctx.notes.append("state inventory: could not parse " + ", ".join(bad))
    if gone:
        ctx.notes.append("state inventory: expected entries no longer in the source (not an error): " +
                         ", ".join(g["file"] + ":" + g["name"] for g in gone))
    for e in new:
        where = f"{e['file']}:{e['line']}"
        ctx.disagree("state-inventory", {"state_inventory": e, "replay": where},
                     f"{where}: {e['cat']} `{e['name']}` ({e['kind']})",
                     "no such process-wide state in the committed inventory the model accounts for (harness/c20_state_expected.json)", size=0)
    return new


_closure_cache: dict = {}


def bias_weights(files: list) -> dict:
    """operation kinds whose import closure contains one of `files` are drawn 8x as often."""
    import c20_inventory as inv
    import vcheck
    import ast as _ast
    w = dict(KIND_WEIGHTS)
    for kind, roots in KIND_MODULES.items():
        key = tuple(roots)
        if key not in _closure_cache:
            seen, todo = set(), list(roots)
            while todo:
                rel = todo.pop()
                if rel in seen or not os.path.isfile(os.path.join(vcheck.REPO, rel)):
                    continue
                seen.add(rel)
                try:
                    tree = _ast.parse(open(os.path.join(vcheck.REPO, rel), encoding="utf-8").read())
                except SyntaxError:
                    continue
                todo += inv.resolve_imports(vcheck.REPO, rel, tree)
            _closure_cache[key] = seen
        if any(f in _closure_cache[key] for f in files):
            w[kind] = w[kind] * 8
    return w


# ------------------------------------------------------------------ the SAT layer as a process (FV/Model/SatProc.lean)
def gen_satproc(rng: random.Random) -> dict:
    """an interleaved history of 1-3 SAT managers sharing pseudobool.memory / mmap (model: FV.Proc.SatProc)."""
    nm = rng.choice([1, 2, 2, 3, 3])
    shared = rng.random() < 0.6
    names = [[(f"def_x{k}" if shared else f"def_m{j}x{k}") for k in range(rng.randint(2, 5))] for j in range(nm)]
    ops: list = [["nv", j, v] for j in range(nm) for v in names[j]]
    rng.shuffle(ops)

    def lit(ns):
        return [rng.choice(ns), rng.choice([1, 1, 0])]

    def terms(ns, lo, hi):
        return [[rng.choice([c for c in range(lo, hi + 1) if c != 0]), v, rng.choice([1, 1, 1, 0])]
                for v in rng.sample(ns, rng.randint(1, len(ns)))]
    earlier: list = []
    for _ in range(rng.randint(2, 7) * nm):
        i = rng.randrange(nm)
        ns = names[i]
        r = rng.random()
        if r < 0.12:
            ops.append(["cl", i, [lit(ns) for _ in range(rng.randint(1, 3))]])
        elif r < 0.18:
            ops.append(["im", i, [lit(ns) for _ in range(rng.randint(0, 2))], lit(ns)])
        elif r < 0.26:
            ops.append(["qu", i, [[v, rng.choice([1, 1, 0])] for v in rng.sample(ns, rng.randint(0, len(ns)))]])
        elif r < 0.38:
            ops.append(["he", i, rng.choice([3, 3, 4, 2, 0]), [[v, rng.choice([1, 1, 0])] for v in rng.sample(ns, rng.randint(0, len(ns)))]])
        elif r < 0.88:
            if earlier and rng.random() < 0.5:       # the SAME inequality again, by another manager / other construction
                e = rng.choice(earlier)
                if set(t[1] for t in e[4] + e[6]) <= set(ns):
                    lt, rt = e[4], e[6]
                    r2 = rng.random()
                    if r2 < 0.3:        # same variables and coefficients, every polarity flipped
                        lt, rt = [[c, v, 1 - sg] for (c, v, sg) in lt], [[c, v, 1 - sg] for (c, v, sg) in rt]
                    elif r2 < 0.5:      # some polarities flipped
                        lt = [[c, v, (1 - sg) if rng.random() < 0.5 else sg] for (c, v, sg) in lt]
                    elif r2 < 0.6:      # coefficient negated together with the polarity
                        lt = [[-c, v, 1 - sg] for (c, v, sg) in lt]
                    elif r2 < 0.7:
                        lt = rng.sample(lt, len(lt))
                    ops.append(["pb", i, rng.choice([0, 1]), e[3], lt, e[5], rt, e[7]])
                    continue
            o = rng.choice([">=", ">=", ">=", "<=", "<=", ">", "<", "=", "=="])
            lt = terms(ns, -3, 5)
            rt = terms(ns, 1, 3) if rng.random() < 0.2 else []
            ops.append(["pb", i, rng.choice([0, 1]), o, lt, rng.choice([0, 0, 1, -1]), rt, rng.randint(-2, 6)])
            earlier.append(ops[-1])
        else:
            ops.append(["sv", i, None])
    for j in range(nm):
        if rng.random() < 0.5:
            ops.append(["sv", j, None])
    return {"nm": nm, "ops": ops}


def _w_lit(l) -> str:
    return f"{l[0]} {int(l[1])}"


def _w_lits(ls) -> str:
    return f"{len(ls)}" + "".join(" " + _w_lit(l) for l in ls)


def _w_expr(ts, c) -> str:
    return f"{c} {len(ts)}" + "".join(f" {co} {v} {int(sg)}" for (co, v, sg) in ts)


def _w_op(op) -> str:
    k, m = op[0], op[1]
    if k == "nv":
        return f"nv {m} {op[2]}"
    if k == "cl":
        return f"cl {m} {_w_lits(op[2])}"
    if k == "im":
        return f"im {m} {_w_lits(op[2])} {_w_lit(op[3])}"
    if k == "qu":
        return f"qu {m} {_w_lits(op[2])}"
    if k == "he":
        return f"he {m} {op[2]} {_w_lits(op[3])}"
    if k == "pb":
        return f"pb {m} {int(op[2])} {op[3]} {_w_expr(op[4], op[5])} {_w_expr(op[6], op[7])}"
    if k == "sv":
        return f"sv {m} U" if op[2] is None else f"sv {m} M {len(op[2])}" + "".join(f" {v} {b}" for v, b in op[2])
    raise ValueError(k)


def _post_holds(op, sig) -> bool:
    """direct semantics of a posted constraint under an assignment of the user variables (`Post.holds`)"""
    def lv(l):
        return sig[l[0]] if l[1] else 1 - sig[l[0]]
    k = op[0]
    if k == "cl":
        return any(lv(l) for l in op[2])
    if k == "im":
        return (not all(lv(l) for l in op[2])) or bool(lv(op[3]))
    if k in ("qu", "he"):
        return sum(lv(l) for l in (op[2] if k == "qu" else op[3])) <= 1
    if k == "pb":
        lhs = op[5] + sum(c * lv((v, sg)) for (c, v, sg) in op[4])
        rhs = op[7] + sum(c * lv((v, sg)) for (c, v, sg) in op[6])
        o = op[3]
        return lhs >= rhs if o == ">=" else lhs <= rhs if o == "<=" else lhs > rhs if o == ">" else lhs < rhs if o == "<" else lhs == rhs
    raise ValueError(k)


def child_satproc(h):
    """fresh forked interpreter: the interleaved history on real SATManager objects (one shared store)."""
    _guard()
    import warnings
    warnings.simplefilter("ignore")
    from tools.rect.satmanager import SATManager
    import tools.rect.pseudobool as pbm
    from pysat.solvers import Solver
    nm = h["nm"]
    mgrs = [SATManager() for _ in range(nm)]
    users = [[] for _ in range(nm)]
    accepted = [[] for _ in range(nm)]
    bits, wire = [], []

    def L(l):
        return pbm.Literal(l[0], bool(l[1]))

    def E(ts, c):
        e = pbm.Expr()
        for (co, v, sg) in ts:
            e = e + pbm.Term(pbm.Literal(v, bool(sg)), co)
        return e + c
    for op in h["ops"]:
        k, i = op[0], op[1]
        m = mgrs[i]
        wop = list(op)
        try:
            if k == "nv":
                m.newvar(op[2][4:])
                if op[2] not in users[i]:
                    users[i].append(op[2])
            elif k == "cl":
                m.add_clause([L(l) for l in op[2]])
            elif k == "im":
                m.imply([L(l) for l in op[2]], L(op[3]))
            elif k == "qu":
                m.quadraticencoding([L(l) for l in op[2]])
            elif k == "he":
                m.heuleencoding([L(l) for l in op[3]], op[2])
            elif k == "pb":
                m.pseudoboolencoding(pbm.Ineq(E(op[4], op[5]), E(op[6], op[7]), op[3]), bool(op[2]))
            elif k == "sv":
                sat = m.solve()
                wop[2] = [(m.vtable[abs(x)], int(x > 0)) for x in m.solver.get_model() if 0 < abs(x) < len(m.vtable)] if sat else None
            bits.append("1")
            if k in ("cl", "im", "qu", "he", "pb"):
                accepted[i].append(op)
        except Exception as ex:
            bits.append("0:" + type(ex).__name__)
        wire.append(_w_op(wop))
    dumps, tables = [], []
    for i, m in enumerate(mgrs):
        vs = m.vtable[1:]
        out = [str(m.auxcount), str(len(vs))] + list(vs) + [str(len(m.clauses))]
        for c in m.clauses:
            out.append(str(len(c)))
            for l in c:
                out += [l.v, str(int(l.s))]
        dumps.append(" ".join(out))
        # truth table of the manager's own clause set over ITS user variables, by the real solver
        sol = Solver()
        for cl in m.clauses:
            sol.add_clause([(m.ttable[l.v] if l.s else -m.ttable[l.v]) for l in cl])
        uv = users[i]
        tab, direct = [], []
        for bitsv in range(2 ** len(uv)):
            sig = {v: (bitsv >> n) & 1 for n, v in enumerate(uv)}
            tab.append(bool(sol.solve(assumptions=[(m.ttable[v] if sig[v] else -m.ttable[v]) for v in uv])))
            direct.append(all(_post_holds(op, sig) for op in accepted[i]))
        sol.delete()
        tables.append((tab, direct))
    mem = [str(len(pbm.memory))]
    for n in pbm.memory:
        mem += ["L", str(n)] if isinstance(n, int) else ["N", str(n[0]), str(n[1]), str(n[2])]
    return {"bits": bits, "wire": wire, "dumps": dumps, "tables": tables, "store": " ".join(mem), "accepted": [len(a) for a in accepted]}


def project(h: dict, i: int) -> dict:
    """the operations of manager `i` alone (what it would do as the only manager of a fresh interpreter)"""
    return {"nm": h["nm"], "ops": [op for op in h["ops"] if op[1] == i]}


def satproc_stream(ctx: Ctx, hs: list, results: list, solo: dict) -> None:
    """correspondence of interleaved multi-manager histories with FV.Proc.SatProc (`drv_global`, op `satproc`) and the
    clauses of C20.sat_process_exact / sat_verdict_history_indep / encoding_multi_manager_history_indep on the real code."""
    reqs = ["F satproc %d %d %s" % (h["nm"], len(r["wire"]), " ".join(r["wire"])) for h, r in zip(hs, results)]
    replies = ctx.model(reqs)
    for k, (h, r) in enumerate(zip(hs, results)):
        inp = {"satproc": h}
        sz = len(h["ops"])
        kinds = [o[0] for o in h["ops"]]
        ctx.case("satproc", json.dumps(h, sort_keys=True), h["nm"] > 1 and "pb" in kinds, sample={"managers": h["nm"], "ops": kinds[:12]})
        ctx.count("satproc:managers:%d" % h["nm"])
        for b in r["bits"]:
            if b != "1":
                ctx.count("satproc:refused:" + b[2:])
        ops_of = [[n for n, op in enumerate(h["ops"]) if op[1] == i] for i in range(h["nm"])]
        for i in range(h["nm"]):
            tab, direct = r["tables"][i]
            # sat_process_exact: the clause set admits exactly the assignments satisfying the manager's own accepted constraints
            if tab != direct:
                ctx.spec_fail("sat_process_exact", inp, {"manager": i, "clause_set_admits": tab, "own_constraints_admit": direct}, size=sz)
            s = solo.get((k, i))
            if s is None:
                continue
            # verdicts and meaning are those of the manager running ALONE in a fresh interpreter
            mine = [r["bits"][n] for n in ops_of[i]]
            if mine != s["bits"]:
                ctx.spec_fail("sat_verdict_history_indep", inp, {"manager": i, "interleaved": mine, "alone": s["bits"]}, size=sz)
            if tab != s["tables"][i][0]:
                ctx.spec_fail("encoding_multi_manager_history_indep", inp, {"manager": i, "interleaved": tab, "alone": s["tables"][i][0]}, size=sz)
        if replies is not None:
            impl = "".join(b[0] for b in r["bits"]) + "".join(" | %d %s" % (a, d) for a, d in zip(r["accepted"], r["dumps"])) + " | " + r["store"]
            if impl != replies[k]:
                ctx.disagree("satproc", inp, impl[:2000], replies[k][:2000], size=sz)
    if replies is None:
        ctx.notes.append("model driver unavailable: SAT-process correspondence not run")


def run_satproc(ctx: Ctx, hs: list) -> None:
    mpctx = mp.get_context("fork")
    solo_jobs = [(k, i) for k, h in enumerate(hs) for i in range(h["nm"]) if h["nm"] > 1]
    with mpctx.Pool(processes=min(16, os.cpu_count() or 4), maxtasksperchild=1) as pool:
        results = pool.map(child_satproc, hs, chunksize=1)
        solos = pool.map(child_satproc, [project(hs[k], i) for k, i in solo_jobs], chunksize=1)
    satproc_stream(ctx, hs, results, dict(zip(solo_jobs, solos)))


def die_model_request(probe: dict, state) -> str | None:
    """`F model <state> <sqrt> <doc> 0` for drv_die (the C01 model of the UNCHANGED `Die.__init__`, deterministic cover) from a
    generated die document; `state` = the class-wide (dist, area) pair in force before the constructor runs."""
    try:
        regs = [(x, y, w, h) for (x, y, w, h) in probe["rects"][0]]
        tags = []
        body = probe["text"].split("regions: [", 1)[1] if "regions: [" in probe["text"] else ""
        for part in body.split("]")[:len(regs)]:
            tags.append(part.split(",")[-1].strip().strip("'"))
        items = [("width", "n " + f2hex(probe["W"])), ("height", "n " + f2hex(probe["H"]))]
        if regs:
            rl = " ".join("l 5 " + " ".join("n " + f2hex(v) for v in r) + " s " + t for r, t in zip(regs, tags))
            items.append(("regions", f"l {len(regs)} {rl}"))
        doc = f"m {len(items)} " + " ".join(k + " " + v for k, v in items)
        st = "u" if state[0] < 0 else f"d {f2hex(state[0])} {f2hex(state[1])}"
        return f"F model {st} {f2hex(0.0)} {doc} 0"
    except Exception:
        return None


def child_control(task):
    """fresh forked interpreter in which ONLY the tolerances are preset (to what the history left in force), then the
    probe: if this reproduces the after-history digest, the tolerance alone explains the difference."""
    (dist, area), probe = task
    _guard()
    import warnings
    warnings.simplefilter("ignore")
    from frame.geometry.geometry import Rectangle
    import io
    import contextlib
    made = _track_tempdirs()
    with contextlib.redirect_stdout(io.StringIO()):
        if dist >= 0:
            Rectangle.set_epsilon(dist, area)
        try:
            dig, _ = run_op(probe)
        except Exception as ex:
            dig = ["exception", type(ex).__name__]
    _remove_tempdirs(made)
    return json.dumps(dig)


def regs_stream(ctx: Ctx, reg_tasks, reg_results) -> None:
    """correspondence of the legaliser registers with FV/Model/Registers.lean + the spec clauses the theorems state."""
    if any(r is None for r in reg_results):
        ctx.notes.append("legaliser not importable: register correspondence not run")
        return
    replies = ctx.model([regs_request(ops) for ops in reg_tasks])
    for ops, impl, rep in zip(reg_tasks, reg_results, replies or [None] * len(reg_tasks)):
        inp = {"regs": ops}
        ctx.case("regs", json.dumps(ops), len(ops) > 1)
        for op in ops:
            ctx.count("regop:" + op[0])
        outs = impl.split(" | ")[0].split(" ")
        # spec (theorems createVariable_keeps_name / reachable_names_nil): a variable gets the requested name
        for op, o in zip(ops, outs):
            if op[0] == "var" and o != "n:" + op[1]:
                ctx.spec_fail("createVariable_keeps_name", inp, {"requested": op[1], "got": o}, size=len(ops))
        # spec (legal_build_history_indep): after a slack was installed, every read sees the LAST one installed
        last = None
        for op, o in zip(ops, outs):
            if op[0] == "set":
                last = op[1]
            elif (op[0] == "get" or (op[0] == "eq" and not op[1])) and last is not None and o != "t%d" % last:
                ctx.spec_fail("slack_read_is_last_installed", inp, {"installed": last, "read": o}, size=len(ops))
        if rep is not None:
            rep = rep.replace("err:NameError", "err")
            if "=na" in impl:   # an observation point is missing: compare the fields that are there
                keep = [i for i, f in enumerate(impl.split(" | ")[1].split(" ")) if not f.endswith("=na")]
                cut = lambda t: t.split(" | ")[0] + " | " + " ".join(f for i, f in enumerate(t.split(" | ")[1].split(" ")) if i in keep)
                impl, rep = cut(impl), cut(rep)
                ctx.count("regs:observation-point-missing")
            if rep != impl:
                ctx.disagree("regs", inp, impl, rep, size=len(ops))
    if replies is None:
        ctx.notes.append("model driver unavailable: register correspondence not run")


def replay(ctx: Ctx, body: dict) -> None:
    inp = body["input"]
    mpctx = mp.get_context("fork")
    if "state_inventory" in inp:
        inventory_stream(ctx)
        return
    if "satproc" in inp:
        run_satproc(ctx, [inp["satproc"]])
        return
    if "regs" in inp:
        with mpctx.Pool(processes=1, maxtasksperchild=1) as pool:
            rr = pool.map(child_regs, [inp["regs"]], chunksize=1)
        regs_stream(ctx, [inp["regs"]], rr)
        return
    with mpctx.Pool(processes=2, maxtasksperchild=1) as pool:
        r = pool.map(child, [([], inp["probe"]), (inp["history"], inp["probe"])], chunksize=1)
    same, _ = digests_equal(r[0][0], r[1][0])
    if not same:
        st = r[1][1]
        with mpctx.Pool(processes=1, maxtasksperchild=1) as pool:
            c = pool.map(child_control, [((st[-2] if len(st) >= 2 else [-1.0, -1.0]), inp["probe"])], chunksize=1)[0]
        ctx.spec_fail("history_indep", inp, {"fresh": r[0][0][:600], "after_history": r[1][0][:600],
                                             "control_with_only_the_tolerance_preset": c[:600],
                                             "tolerance_alone_explains": digests_equal(c, r[1][0])[0]})

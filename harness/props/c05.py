"""C05 — a loaded netlist matches its definition; ill-formed designs are rejected.

Correspondence (model `FV/Model/Netlist.lean`, driver `drv_netlist`):
  * valid stream: `Netlist(doc)` vs `parseNetlist` — verdict, loaded object and the derived quantities
    (module areas, centres, flat rectangle list, fixed rectangles, wire length);
  * malformed stream: a well-formed (accepted) document with exactly ONE defect injected anywhere — verdict
    accept / reject and exception class compared (messages are never compared).
Spec on the implementation:
  * derived quantities recomputed from the DOCUMENT by their definition with `fractions.Fraction`
    (`mpmath`, 50 digits, for the square roots of the wire length);
  * every document with a defect of one of the 11 listed classes must be rejected.
"""
from __future__ import annotations

from fractions import Fraction

from vcheck import Ctx
import netlist_common as nc

LEVEL = "proof"
DRIVERS = ["drv_netlist"]
TRUSTED = [
    "Lean 4.33 kernel; Mathlib lemmas; axioms ⊆ {propext, Classical.choice, Quot.sound}",
    "hand-written model FV/Model/Yaml.lean + FV/Model/Netlist.lean — fidelity to frame/netlist/*.py and "
    "parse_yaml_rectangle / Rectangle.__init__ checked by this correspondence run, not proved",
    "create_stog: parameter of the model, instantiated in the …_createStog theorems and in the driver by stogC06 (the C06 "
    "model, StogPerm proved in FV/Proofs/StogInst.lean); math.sqrt is a parameter (wire length)",
    "the process-wide tolerance Rectangle._area_epsilon is an explicit parameter εA of the model",
    "duplicate keys (they exist only in YAML text): stream malformed-text runs the text model's parser "
    "(FV/Model/YamlText.lean, driver op loadtext) + the tree reader against Netlist(text); float(literal) in the driver is "
    "Lean's Float.ofScientific (observed bit-equal with CPython), exact decimal value on the Q stream",
    "theorems are over exact ordered fields; IEEE rounding is executed (F stream), never proved",
    "harness (Python) and compiled Lean driver: encoding of trees, canonicalisation, comparison; the document oracle "
    "(netlist_common.oracle) restates the definitions independently of both",
]

TOL = 1e-9


def _near(x, y, exact: bool) -> bool:
    x, y = Fraction(x), Fraction(y)
    if x == y:
        return True
    if exact:
        return False
    return abs(x - y) <= Fraction(TOL) * max(1, abs(x), abs(y))


def spec_derived(doc, eps, mode: str) -> tuple[str, dict] | None:
    """definitions (from the document, exact) vs what the implementation holds after loading."""
    st, n = nc.load_impl(doc, eps)
    if st != "ok":
        return None
    orc = nc.oracle(doc)
    exact = mode == "Q"
    if [m.name for m in n.modules] != [m["name"] for m in orc["modules"]]:
        return "modules_def", {"impl": [m.name for m in n.modules]}
    flat_expected = []
    for m, o in zip(n.modules, orc["modules"]):
        # areas: sums of products are exact on the dyadic stream
        if list(m.area_regions) != list(o["regions"]) or not all(
                _near(m.area_regions[k], o["regions"][k], exact) for k in o["regions"]):
            return "area_def", {"module": m.name, "impl": {k: float(v) for k, v in m.area_regions.items()},
                                "definition": {k: float(v) for k, v in o["regions"].items()}}
        if not _near(m.area(), o["area"], exact):
            return "area_def", {"module": m.name, "impl": float(m.area()), "definition": float(o["area"])}
        for reg in o["regions"]:
            if not _near(m.area(reg), o["regions"][reg], exact):
                return "area_def", {"module": m.name, "region": reg}
        if m.is_terminal and not m.rectangles and m.area() != 0:
            return "area_def", {"module": m.name, "terminal-area": float(m.area())}
        # centre: the division is rounded once even on the dyadic stream → 1e-12 relative there
        if (m.center is None) != (o["center"] is None):
            return "center_def", {"module": m.name, "impl": str(m.center), "definition": str(o["center"])}
        if m.center is not None:
            for got, want in ((m.center.x, o["center"][0]), (m.center.y, o["center"][1])):
                tol = Fraction(1, 10 ** 12) if exact else Fraction(TOL)
                if abs(Fraction(got) - want) > tol * max(1, abs(want)):
                    return "center_def", {"module": m.name, "impl": str(m.center),
                                          "definition": [float(o["center"][0]), float(o["center"][1])]}
        if (m.is_hard, m.is_fixed, m.is_terminal, m.flip) != (o["hard"], o["fixed"], o["terminal"], o["flip"]):
            return "kind_def", {"module": m.name, "impl": (m.is_hard, m.is_fixed, m.is_terminal, m.flip)}
        a = m.aspect_ratio
        if (a is None) != (o["aspect"] is None) or (a is not None and not (
                _near(a.min_wh, o["aspect"][0], False) and _near(a.max_wh, o["aspect"][1], False))):
            return "aspect_def", {"module": m.name, "impl": str(a)}
        got = sorted((Fraction(r.center.x), Fraction(r.center.y), Fraction(r.shape.w), Fraction(r.shape.h), r.region)
                     for r in m.rectangles)
        if got != o["rects"]:
            return "rectangles_def", {"module": m.name, "impl": [[float(x) for x in g[:4]] + [g[4]] for g in got]}
        if any((r.fixed, r.hard) != (o["fixed"], o["hard"]) for r in m.rectangles):
            return "rectangles_def", {"module": m.name, "flags": [(r.fixed, r.hard) for r in m.rectangles]}
        flat_expected.append((o["fixed"], got))
    # the flat list: module by module (the same rectangles), fixed ones exactly those of fixed modules
    rs = list(n.rectangles)
    pos = 0
    for fixed, got in flat_expected:
        chunk = rs[pos:pos + len(got)]
        pos += len(got)
        c = sorted((Fraction(r.center.x), Fraction(r.center.y), Fraction(r.shape.w), Fraction(r.shape.h), r.region)
                   for r in chunk)
        if c != got:
            return "rectangles_def", {"flat-list": "chunk of a module differs from the module's rectangles"}
    if pos != len(rs) or n.num_rectangles != len(rs):
        return "rectangles_def", {"flat-list-length": len(rs), "expected": pos}
    fr = n.fixed_rectangles()
    want_fixed = [r for r in rs if r.fixed]
    if len(fr) != len(want_fixed) or any(a is not b for a, b in zip(fr, want_fixed)):
        return "fixedRectangles_def", {"impl": len(fr), "definition": len(want_fixed)}
    if sum(len(g) for f, g in flat_expected if f) != len(fr):
        return "fixedRectangles_def", {"impl": len(fr), "of-fixed-modules": sum(len(g) for f, g in flat_expected if f)}
    # nets and wire length
    if [([b.name for b in e.modules], Fraction(e.weight)) for e in n.edges] != orc["nets"]:
        return "nets_def", {"impl": [([b.name for b in e.modules], e.weight) for e in n.edges]}
    want = nc.wire_length_exact(orc)
    try:
        got_wl = n.wire_length
    except AssertionError:
        got_wl = None
    if (want is None) != (got_wl is None):
        return "wireLength_def", {"impl": got_wl, "definition": want}
    if want is not None:
        # rounding of the mean of the centres is amplified by the weight: the tolerance scales with Σ w·k·max|coordinate|
        cmax = max([1.0] + [abs(float(v)) for o in orc["modules"] if o["center"] for v in o["center"]])
        scale = max(1.0, abs(want), sum(float(w) * len(mem) * cmax for mem, w in orc["nets"]))
        if abs(got_wl - want) > TOL * scale:
            return "wireLength_def", {"impl": got_wl, "definition": want}
    return None


def spec_rejects(doc, eps) -> bool:
    """True when the implementation REJECTS the document."""
    st, _ = nc.load_impl(doc, eps)
    return st != "ok"


def valid_case(ctx: Ctx, doc, eps, mode: str, reqs, todo, stream="valid") -> bool:
    """an unexpected exception of the implementation is a failure of the case, never of the harness."""
    try:
        return _valid_case(ctx, doc, eps, mode, reqs, todo, stream)
    except Exception as e:
        import traceback
        ctx.spec_fail("operation-raised", nc.make_input(doc, eps, mode),
                      {"exception": repr(e)[:300], "where": traceback.format_exc()[-600:]}, nc.doc_size(doc))
        return False


def _valid_case(ctx: Ctx, doc, eps, mode: str, reqs, todo, stream="valid") -> bool:
    inp = nc.make_input(doc, eps, mode)
    size = nc.doc_size(doc)
    st, n = nc.load_impl(doc, eps)
    impl_line = nc.render_impl(n, mode) if st == "ok" else "err:" + n
    reqs.append(f"{mode} load {nc.eps_tokens(eps, mode)} {nc.enc_tree(doc, mode)}")
    todo.append(("load", inp, impl_line, size, nc.wl_scale(n)))
    ctx.case(stream, inp["tree"], st == "ok" and len(n.modules) > 0,
             sample={"mode": mode, "doc": inp["doc_repr"][:300], "verdict": st})
    ctx.count("valid-stream:" + ("accept" if st == "ok" else "reject"))
    if st != "ok" and n != "Assert":
        ctx.spec_fail("operation-raised", inp, {"exception-class": n, "note": "the reader rejects with AssertionError only"}, size)
    if st != "ok":
        return False
    ctx.count("nets:" + str(min(len(n.edges), 3)) + ("+" if len(n.edges) > 3 else ""))
    if eps is None:
        # the tolerance a fresh process installs: implementation vs the value derived from the DOCUMENT (spec side), and
        # vs the Lean model's `defaultEps` (driver op `eps`)
        inst, want = nc.installed_eps(doc), nc.doc_default_eps(doc)
        ctx.count("default-tolerance-checked")
        if inst is not None:
            bad = (want is None) != (inst[0] == float("inf"))
            if not bad and want is not None:
                bad = any(abs(g - w) > 1e-9 * abs(w) for g, w in zip(inst, want))
            if bad:
                ctx.spec_fail("default_tolerance", inp, {"installed": list(inst), "document-derived": want and list(want)}, size)
            reqs.append(f"{mode} eps {nc.enc_tree(doc, mode)}")
            impl_eps = "inf" if inst[0] == float("inf") else f"d{nc.sc(inst[0], mode)} d{nc.sc(inst[1], mode)}"
            todo.append(("eps", inp, impl_eps, size, 1.0))
    f = spec_derived(doc, eps, mode)
    if f is not None:
        clause = f[0]
        seen = sum(1 for x in ctx.spec_failures if x["clause"] == clause)
        if seen < 3:    # shrink only the first few failures of a clause (the smallest one is reported)
            small = nc.shrink(doc, lambda d: (spec_derived(d, eps, mode) or ("", None))[0] == clause)
            f2 = spec_derived(small, eps, mode) or f
            ctx.spec_fail(clause, nc.make_input(small, eps, mode), f2[1], nc.doc_size(small))
        else:
            ctx.spec_fail(clause, inp, f[1], size)
    return True


def malformed_case(ctx: Ctx, base, eps, mode: str, cls: str, reqs, todo) -> None:
    try:
        _malformed_case(ctx, base, eps, mode, cls, reqs, todo)
    except Exception as e:
        import traceback
        ctx.spec_fail("operation-raised", nc.make_input(base, eps, mode, defect=cls),
                      {"exception": repr(e)[:300], "where": traceback.format_exc()[-600:]}, nc.doc_size(base))


def _malformed_case(ctx: Ctx, base, eps, mode: str, cls: str, reqs, todo) -> None:
    bad = nc.inject(ctx.rng, base, mode, cls, eps)
    if bad is None:
        ctx.count("inject-not-applicable:" + cls)
        return
    inp = nc.make_input(bad, eps, mode, defect=cls)
    size = nc.doc_size(bad)
    st, n = nc.load_impl(bad, eps)
    impl_line = nc.render_impl(n, mode) if st == "ok" else "err:" + n
    reqs.append(f"{mode} load {nc.eps_tokens(eps, mode)} {nc.enc_tree(bad, mode)}")
    todo.append(("load-malformed:" + cls, inp, impl_line, size, nc.wl_scale(n)))
    ctx.case("malformed", (cls, inp["tree"]), True, sample={"defect": cls, "doc": inp["doc_repr"][:300], "verdict": st})
    ctx.count("defect:" + cls + (":rejected" if st != "ok" else ":accepted"))
    if st != "ok" and n != "Assert":
        ctx.spec_fail("operation-raised", inp, {"exception-class": n, "note": "the reader rejects with AssertionError only"}, size)
    if cls == "hard-overlap" and st == "ok" and not nc.overlap_above_tolerance(bad, eps):
        # small-unit designs: the overlap injected is below the (non scale-free) area tolerance in force: not a defect
        ctx.count("defect:hard-overlap:below-the-tolerance-in-force")
    elif cls in nc.LISTED and st == "ok":
        ctx.spec_fail("reject:" + cls, inp, {"defect": cls, "loaded": impl_line[:500]}, size)
    if cls in nc.MUST_LOAD and st != "ok":
        ctx.spec_fail("accept:" + cls, inp, {"variation": cls, "verdict": "rejected",
                                             "note": "overlap below the area tolerance in force (document-derived)"}, size)


def dup_key_text(rng, text: str) -> str | None:
    """a block-style YAML text with ONE mapping key written twice: a `key: scalar` line is repeated, or a whole nested
    block (a module with its attributes) is repeated at the end of its parent."""
    lines = text.split("\n")[:-1]
    cands = [i for i, l in enumerate(lines) if ":" in l and not l.lstrip().startswith("-")]
    if not cands:
        return None
    i = rng.choice(cands)
    ind = len(lines[i]) - len(lines[i].lstrip(" "))
    j = i + 1
    while j < len(lines) and (len(lines[j]) - len(lines[j].lstrip(" ")) > ind or
                              (lines[j].lstrip(" ").startswith("-") and len(lines[j]) - len(lines[j].lstrip(" ")) >= ind)):
        j += 1
    block = lines[i:j]
    # end of the parent mapping: the next line indented less than the key
    k = j
    while k < len(lines) and len(lines[k]) - len(lines[k].lstrip(" ")) >= ind and not (
            len(lines[k]) - len(lines[k].lstrip(" ")) == ind and lines[k].lstrip(" ").startswith("-")):
        k += 1
    pos = rng.choice([j, k])
    return "\n".join(lines[:pos] + block + lines[pos:]) + "\n"


def dup_key_case(ctx: Ctx, base, eps, mode: str, reqs, todo) -> None:
    """duplicate keys exist only in the TEXT (a Python dict cannot hold one): the real loader raises DuplicateKeyError,
    the model reads the text (`parseText`) into a tree with the key twice and the tree reader rejects it (`dup`)."""
    from frame.utils.utils import write_yaml
    try:
        text = write_yaml(base)
    except Exception:
        return
    bad = dup_key_text(ctx.rng, text)
    if bad is None:
        return
    st, n = nc.load_impl(bad, eps)
    inp = {"mode": mode, "eps": None if eps is None else [float(eps[0]), float(eps[1])], "text": bad, "defect": "dup-key"}
    ctx.case("malformed-text", bad, True, sample={"defect": "dup-key", "text": bad[:300], "verdict": st})
    ctx.count("defect:dup-key" + (":rejected" if st != "ok" else ":accepted"))
    if st == "ok":
        ctx.spec_fail("reject:dup-key", inp, {"loaded": nc.render_impl(n, mode)[:400]}, len(bad))
    reqs.append(f"{mode} loadtext {nc.eps_tokens(eps, mode)} {nc.enc_str(bad)}")
    todo.append(("loadtext-malformed:dup-key", inp, "err:Assert" if st != "ok" else nc.render_impl(n, mode), len(bad), 1.0))


def compare(ctx: Ctx, todo, replies) -> None:
    for (op, inp, impl_line, size, wls), rep in zip(todo, replies):
        if op.startswith("loadtext-malformed") and rep == "none":
            ctx.count("dup-key:text-outside-subset")
            continue
        model = rep if not rep.startswith("err:Assert") else "err:Assert"
        ok, exact, why = nc.cmp_lines(impl_line, model, inp["mode"], TOL, wls)
        if not ok:
            ctx.disagree(op, inp, impl_line[:2000], rep[:2000] + "  [" + why + "]", size)
        elif not exact:
            ctx.drift += 1


def run(ctx: Ctx) -> None:
    ctx.rule = ("valid stream: the structured netlist generator of C04 (every module kind and attribute combination, nets "
                "of arity 2–5 with repeated members; dyadic 'Q' / float 'F' numbers); malformed stream: an accepted document "
                "with exactly one defect injected at a random place — the 11 listed classes (unknown module in a net, weight "
                "≤ 0, area ≤ 0, soft without area, hard with area, hard without rectangles, hard with overlapping rectangles, "
                "unknown attribute, invalid name, one-pin net, rectangle size ≤ 0) and 13 further ill-formed shapes (wrong "
                "flag type, fixed+hard, malformed centre / aspect ratio / rectangles / nets / root, centre or aspect on a "
                "hard module, flip on a non-hard module, region on a hard rectangle, negative coordinates); non-trivial = "
                "accepted non-empty document (valid) / every malformed case")
    ctx.assumptions = [
        "no assumption about create_stog is left (…_createStog theorems use the C06 model, for which StogPerm is proved); "
        "math.sqrt is a parameter (wire length); the distance / area tolerances in force are the parameters ε / εA",
        "a Python dict cannot hold a key twice: duplicate keys are injected into the TEXT (stream malformed-text): the "
        "real loader raises DuplicateKeyError, the text model reads the key twice and the tree reader rejects it (dup)",
        "exact-field arithmetic in the theorems; float stream compared with 1e-9 relative tolerance (wire length: relative "
        "to Σ w·k·max|coordinate|, the scale at which the rounding of the mean is amplified)",
        "rejection is compared as accept / reject + exception class (AssertionError), never by message",
    ]
    nv = ctx.n(1200, 10000)
    nm = ctx.n(3600, 30000)
    reqs, todo = [], []
    bases = []
    seeds = getattr(ctx, "seed_inputs", None) or []
    for inp in seeds[:50]:
        try:
            doc, eps, mode = nc.read_input(inp)
            valid_case(ctx, doc, eps, mode, reqs, todo, "seed")
        except Exception:
            pass
    for i in range(nv):
        mode = "Q" if i % 2 == 0 else "F"
        doc = nc.gen_doc(ctx.rng, mode)
        eps = nc.gen_eps(ctx.rng, mode)
        doc, eps, fam = nc.maybe_rescale(ctx.rng, doc, eps, mode)
        ctx.count(fam)
        if valid_case(ctx, doc, eps, mode, reqs, todo):
            bases.append((doc, eps, mode))
    classes = nc.LISTED * 3 + nc.OTHER + ["hard-overlap"] * 3 + nc.MUST_LOAD * 4
    if bases:
        for j in range(nm):
            doc, eps, mode = bases[ctx.rng.randrange(len(bases))]
            if eps is not None and eps[1] >= 0.25 and ctx.rng.random() < 0.8:
                eps = (2.0 ** -30, 2.0 ** -20) if mode == "Q" else None  # keep the overlap defect above the tolerance
            malformed_case(ctx, doc, eps, mode, classes[j % len(classes)], reqs, todo)
        for _ in range(ctx.n(150, 1500)):
            doc, eps, mode = bases[ctx.rng.randrange(len(bases))]
            try:
                dup_key_case(ctx, doc, eps, mode, reqs, todo)
            except Exception as e:
                ctx.spec_fail("operation-raised", {"mode": mode, "eps": None, "text": "", "defect": "dup-key"},
                              {"exception": repr(e)[:300]}, 1)
    if ctx.tier == "thorough" and ctx.budget <= 1.0:
        # each listed defect class on each of 200 base documents (several positions by repetition)
        cnt = 0
        for doc, eps, mode in bases[:200]:
            for cls in nc.LISTED:
                for _ in range(3):
                    malformed_case(ctx, doc, eps if not (eps and eps[1] >= 0.25) else (2.0 ** -30, 2.0 ** -20), mode, cls,
                                   reqs, todo)
                    cnt += 1
        ctx.extra["systematic_defect_cases"] = cnt
    replies = ctx.model(reqs)
    if replies is None:
        ctx.notes.append("model driver unavailable: correspondence not run")
        return
    compare(ctx, todo, replies)


def replay(ctx: Ctx, body: dict) -> None:
    inp = body["input"]
    reqs, todo = [], []
    if "text" in inp:
        eps = None if inp["eps"] is None else (inp["eps"][0], inp["eps"][1])
        st, n = nc.load_impl(inp["text"], eps)
        if st == "ok":
            ctx.spec_fail("reject:dup-key", inp, {"loaded": nc.render_impl(n, inp["mode"])[:400]}, len(inp["text"]))
        reqs.append(f"{inp['mode']} loadtext {nc.eps_tokens(eps, inp['mode'])} {nc.enc_str(inp['text'])}")
        todo.append(("loadtext-malformed:dup-key", inp, "err:Assert" if st != "ok" else nc.render_impl(n, inp["mode"]),
                     len(inp["text"]), 1.0))
        replies = ctx.model(reqs)
        if replies:
            compare(ctx, todo, replies)
        return
    doc, eps, mode = nc.read_input(inp)
    st, n = nc.load_impl(doc, eps)
    impl_line = nc.render_impl(n, mode) if st == "ok" else "err:" + n
    reqs.append(f"{mode} load {nc.eps_tokens(eps, mode)} {nc.enc_tree(doc, mode)}")
    todo.append(("load", inp, impl_line, nc.doc_size(doc), nc.wl_scale(n)))
    cls = inp.get("defect")
    if cls == "hard-overlap" and st == "ok" and not nc.overlap_above_tolerance(doc, eps):
        pass
    elif cls in nc.LISTED and st == "ok":
        ctx.spec_fail("reject:" + cls, inp, {"defect": cls, "loaded": impl_line[:500]}, nc.doc_size(doc))
    if st == "ok" and cls is None:
        f = spec_derived(doc, eps, mode)
        if f is not None:
            ctx.spec_fail(f[0], inp, f[1], nc.doc_size(doc))
    replies = ctx.model(reqs)
    if replies:
        compare(ctx, todo, replies)

"""C07 — SAT layer: every posted constraint is encoded exactly.

Correspondence (structure stream): random posting histories — several `SATManager`s sharing the process-wide ROBDD store,
interleaved `add_clause` / `imply` / `quadraticencoding` / `heuleencoding(k)` / `pseudoboolencoding` (all six operator
strings, both constructions, zero / negative / repeated coefficients on both sides) / `solve` / `value` / `evalexpr` —
are run on the real classes and on the Lean model (`FV/Model/Sat.lean`, `Bdd.lean`, `PB.lean`); op results, every
manager's clause list / variable table / codified set / model and the store (`memory`, `mmap`) are compared, exactly
first and, if node numbering differs, after renaming nodes by structure.  Histories build some expressions ONCE and
reuse the same Python `Expr` objects in several posted inequalities (operators and direct `Ineq(a, b, op)`, against
0 / 0.0 / an empty `Expr` / each other) and in `evalexpr`; the direct semantics always uses the ORIGINAL definitions,
and the objects must keep their contents (`operand_mutated`).  Histories frequently post a constraint again or post
a cofactor of an earlier inequality (its largest-coefficient variable fixed to 0 / 1), in the same and in other
managers, so that the root of a later diagram is an inner node of an earlier one.  `Ineq.isclause` (and the printed form
`tostr()` after it) is compared on its own stream.  Session stream: 15–40 histories run one after the other on ONE store that
is never reset (fresh managers per history, rect-like objectives with weights up to 1e3 against a moving bound); per history the
nodes appended to the store are compared and the old part of the store must be untouched.  Names stream: `newvar(name, pre)`
with every prefix / name type against the model's `newvarPy` / `classify`.

Spec on implementation: for each manager, every assignment of its (≤ 12) user variables is pushed as unit assumptions to
the real pysat solver on the real clauses and compared with direct evaluation (Python integers) of the constraints that
were posted and not refused; a refused constraint must leave the clause list untouched; `solve()` must answer sat iff
some assignment satisfies the posted constraints and the exposed model (`value`, `evalexpr`) must satisfy them; the
real store must satisfy the store invariant after every history.
"""
from __future__ import annotations

import itertools

from pysat.solvers import Solver

from vcheck import Ctx
from tools.rect import pseudobool as pb
from tools.rect.satmanager import SATManager

LEVEL = "proof"
DRIVERS = ["drv_pb"]
TRUSTED = [
    "Lean 4.33 kernel; axioms ⊆ {propext, Classical.choice, Quot.sound} (core Lean only, no Mathlib)",
    "hand-written models FV/Model/{PB,Bdd,Sat}.lean — fidelity to tools/rect/{pseudobool,satmanager}.py checked by this correspondence run, not proved",
    "the SAT solver (pysat / Minisat22): its answer is a parameter of the model's `solve`; `solve_sound` assumes it is correct",
    "memo of constructrobdd is keyed by serdat(data) in Python and by the data in the model: equal as long as variable names contain no ',' and do not start with '-'",
    "the model has no recursion limit: CPython refuses (RecursionError inside getrobdd, before anything is posted) an inequality whose diagram is deeper than the interpreter's recursion limit (about 990 distinct variables by default); `encoding_ge_accepted` / `getRobdd_sem` speak about sizes below that limit",
    "variable names: the model's variables are read from / printed as Python name strings by classify / Var.chars (FV/Model/Sat.lean; "
    "one-to-one: theorem names_faithful; default-prefix names are always user variables: newvar_default_prefix_user); str() of the name "
    "argument of newvar is taken from Python",
    "harness (Python) and compiled Lean driver: parsing, printing, canonicalisation, comparison",
]

OPSTR = [">=", "<=", ">", "<", "=", "=="]


# ------------------------------------------------------------------ wire
def w_lit(l) -> str:
    return f"{l[0]} {int(l[1])}"


def w_lits(ls) -> str:
    return f"{len(ls)}" + "".join(" " + w_lit(l) for l in ls)


def w_expr(terms, const) -> str:
    return f"{const} {len(terms)}" + "".join(f" {c} {v} {int(s)}" for (c, v, s) in terms)


def w_op(op) -> str:
    k, m = op[0], op[1]
    if k == "nv":
        return f"nv {m} {op[2]}"
    if k == "cl":
        return f"cl {m} {w_lits(op[2])}"
    if k == "im":
        return f"im {m} {w_lits(op[2])} {w_lit(op[3])}"
    if k == "qu":
        return f"qu {m} {w_lits(op[2])}"
    if k == "he":
        return f"he {m} {op[2]} {w_lits(op[3])}"
    if k == "pb":
        return f"pb {m} {int(op[2])} {op[3]} {w_expr(op[4], op[5])} {w_expr(op[6], op[7])}"
    if k == "sv":
        ans = op[2]
        return f"sv {m} U" if ans is None else f"sv {m} M {len(ans)}" + "".join(f" {v} {b}" for v, b in ans)
    if k == "val":
        return f"val {m} {w_lit(op[2])}"
    if k == "ev":
        return f"ev {m} {w_expr(op[2], op[3])}"
    raise ValueError(k)


def mk_lit(l) -> pb.Literal:
    return pb.Literal(l[0], bool(l[1]))


def mk_expr(terms, const) -> pb.Expr:
    e = pb.Expr()
    for (c, v, s) in terms:
        e = e + pb.Term(pb.Literal(v, bool(s)), c)
    return e + const


def reset_store() -> None:
    del pb.memory[2:]
    pb.mmap.clear()


# ------------------------------------------------------------------ direct semantics of posted constraints
def lv(l, sig) -> int:
    x = sig[l[0]]
    return x if l[1] else 1 - x


def ev_terms(terms, const, sig) -> int:
    return const + sum(c * lv((v, s), sig) for (c, v, s) in terms)


def cmp_ints(o, x, y) -> bool:
    return x >= y if o == ">=" else x <= y if o == "<=" else x > y if o == ">" else x < y if o == "<" else x == y


def holds(con, sig) -> bool:
    k = con[0]
    if k == "cl":
        return any(lv(l, sig) == 1 for l in con[1])
    if k == "im":
        return (not all(lv(l, sig) == 1 for l in con[1])) or lv(con[2], sig) == 1
    if k == "amo":
        return sum(lv(l, sig) for l in con[1]) <= 1
    if k == "pb":
        return cmp_ints(con[1], ev_terms(con[2], con[3], sig), ev_terms(con[4], con[5], sig))
    raise ValueError(k)


# ------------------------------------------------------------------ implementation side
def dump_mgr(m: SATManager) -> str:
    vs = m.vtable[1:]
    out = [str(m.auxcount), str(len(vs))] + list(vs)
    out += [str(len(m.codified))] + [str(i) for i in m.codified]
    out.append(str(len(m.clauses)))
    for c in m.clauses:
        out.append(str(len(c)))
        for l in c:
            out += [l.v, str(int(l.s))]
    out.append(str(len(m.model)))
    for v in m.model:
        out += [v, str(m.model[v])]
    return " ".join(out)


def dump_store() -> str:
    out = [str(len(pb.memory))]
    for n in pb.memory:
        out += ["L", str(n)] if isinstance(n, int) else ["N", str(n[0]), str(n[1]), str(n[2])]
    out.append(str(len(pb.mmap)))
    for k in pb.mmap:
        out += [str(k[0]), str(k[1]), str(k[2]), str(pb.mmap[k])]
    return " ".join(out)


def store_invariant_problem():
    mem, mm = pb.memory, pb.mmap
    if len(mem) < 2 or mem[0] != 0 or mem[1] != 1:
        return "leaves"
    seen = {}
    for i in range(2, len(mem)):
        n = mem[i]
        if not isinstance(n, tuple) or len(n) != 3:
            return f"entry {i} is not a triple"
        if not (0 <= n[1] < i and 0 <= n[2] < i):
            return f"children of {i} not smaller"
        if n[1] == n[2]:
            return f"node {i} not reduced"
        if n in seen:
            return f"duplicate triple at {seen[n]} and {i}"
        seen[n] = i
        if mm.get(n) != i:
            return f"mmap does not map memory[{i}] back"
    if len(mm) != len(mem) - 2:
        return "mmap has extra keys"
    return None


class Impl:
    """runs a history on the real classes; records op results, posted constraints and solver answers"""

    def __init__(self, nm: int, reset: bool = True):
        if reset:
            reset_store()
        self.mgrs = [SATManager() for _ in range(nm)]
        self.posted = [[] for _ in range(nm)]
        self.users = [[] for _ in range(nm)]
        self.bad = [False] * nm          # an unregistered literal was posted: solve() must raise KeyError
        self.results = []
        self.problems = []               # (clause, detail)
        self.exprs = {}                  # k -> (Expr object, terms, const, snapshot): built once, reused
        self.pools = {}                  # k -> (list of Term / Literal objects built once, the INTEGER data they were built from)
        self.reposts = 0                 # postings whose diagram root had already been encoded (as root or inner node)

    @staticmethod
    def snap(e):
        return (e.c, tuple((key, e.t[key].c, e.t[key].L.v, e.t[key].L.s) for key in e.t))

    def side(self, ref):
        """(python operand, terms, const) of one side of a `pbx` comparison"""
        if ref[0] == "e":
            obj, terms, const, _ = self.exprs[ref[1]]
            return obj, terms, const
        val = int(ref[2]) if ref[1] == "i" else float(ref[2])
        return val, [], int(val)

    @staticmethod
    def snap_obj(o):
        return ("T", o.c, o.L.v, o.L.s) if isinstance(o, pb.Term) else ("L", o.v, o.s)

    def check_pools(self, op) -> None:
        for key, (objs, data, snaps) in self.pools.items():
            for j, o in enumerate(objs):
                now = self.snap_obj(o)
                if now != snaps[j]:
                    self.problems.append(("operand_mutated", {"after_op": [str(x) for x in op][:6], "pool": key, "entry": j,
                                                              "built_from": list(data[j]), "before": repr(snaps[j]), "after": repr(now)}))
                    snaps[j] = now      # report once

    def check_exprs(self, op) -> None:
        for key, (obj, _, _, sn) in self.exprs.items():
            now = self.snap(obj)
            if now != sn:
                self.problems.append(("operand_mutated", {"after_op": [str(x) for x in op][:6], "expression": key,
                                                          "before": repr(sn), "after": repr(now)}))
                self.exprs[key] = (obj, self.exprs[key][1], self.exprs[key][2], now)   # report once

    def step(self, op):
        """executes op; returns the op to put on the wire (sv gets the solver's answer filled in; `pbx` / `evx` are
        expanded to the definitions of the expressions they reuse; `ex` puts nothing on the wire)"""
        k, i = op[0], op[1]
        if k == "ex":
            e = mk_expr(op[3], op[4])
            self.exprs[op[2]] = (e, op[3], op[4], self.snap(e))
            return None
        if k == "tp":       # a table of Term / Literal objects built ONCE from integer data (c = None: a bare Literal)
            objs = [pb.Literal(v, bool(sg)) if c is None else pb.Term(pb.Literal(v, bool(sg)), c) for (c, v, sg) in op[3]]
            self.pools[op[2]] = (objs, [tuple(t) for t in op[3]], [self.snap_obj(o) for o in objs])
            return None
        m = self.mgrs[i]
        ncl = len(m.clauses)
        cod_before = set(m.codified) if k in ("pb", "pbx", "pbt") else ()
        res, con = "ok", None
        if k == "pbx":
            lo, lt, lc = self.side(op[4])
            ro, rt, rc = self.side(op[5])
            o = op[3]
            if not op[6] and op[4][0] == "n":      # `number ⋈ expr`: Python calls the reflected operator of the expression
                o = {">=": "<=", "<=": ">=", ">": "<", "<": ">"}.get(o, o)
                lt, lc, rt, rc = rt, rc, lt, lc
            wire = ("pb", i, op[2], o, lt, lc, rt, rc)
        elif k == "evx":
            wire = ("ev", i, self.exprs[op[2]][1], self.exprs[op[2]][2])
        elif k == "pbt":
            # the direct semantics and the model's posting come from the INTEGER data of the pool, never from the objects
            objs, data, _ = self.pools[op[4]]
            lt = [((1 if data[j][0] is None else data[j][0]), data[j][1], data[j][2]) for j in op[5]]
            wire = ("pb", i, op[2], op[3], lt, 0, [], op[6])
        else:
            wire = None
        try:
            if k == "pbx":
                if op[6]:
                    q = pb.Ineq(lo, ro, op[3])
                else:
                    c = op[3]
                    q = lo >= ro if c == ">=" else lo <= ro if c == "<=" else lo > ro if c == ">" else lo < ro if c == "<" else lo == ro
                m.pseudoboolencoding(q, bool(op[2]))
                con = ("pb", "=" if wire[3] == "==" else wire[3], wire[4], wire[5], wire[6], wire[7])
            elif k == "pbt":
                objs = [self.pools[op[4]][0][j] for j in op[5]]
                style = op[7]
                if style == 1 and len(objs) >= 2 and isinstance(objs[0], (pb.Term, pb.Literal)):
                    e = objs[0] + objs[1]                  # Term.__add__ / Literal.__add__
                    for t in objs[2:]:
                        e = e + t
                elif style == 2 and objs:
                    e = sum(objs)                           # 0 + term: __radd__
                else:
                    e = pb.Expr()
                    for t in objs:
                        e = e + t
                if not isinstance(e, pb.Expr):
                    e = pb.Expr() + e
                c = op[3]
                b = op[6]
                q = e >= b if c == ">=" else e <= b if c == "<=" else e > b if c == ">" else e < b if c == "<" else e == b
                m.pseudoboolencoding(q, bool(op[2]))
                con = ("pb", wire[3], wire[4], wire[5], wire[6], wire[7])
            elif k == "evx":
                x = m.evalexpr(self.exprs[op[2]][0])
                res = "e:" + str(x)
                if x is not None:
                    sig = {v: m.model[v] for v in m.model}
                    want = ev_terms(wire[2], wire[3], sig) if all(v in sig for (_, v, _) in wire[2]) else x
                    if want != x:
                        self.problems.append(("evalexpr_value", {"mgr": i, "got": x, "direct": want, "reused_expression": op[2]}))
            elif k == "nv":
                m.newvar(op[2][4:])   # names are 'def_<x>'
                if op[2] not in self.users[i]:
                    self.users[i].append(op[2])
            elif k == "cl":
                m.add_clause([mk_lit(l) for l in op[2]])
                con = ("cl", op[2])
            elif k == "im":
                m.imply([mk_lit(l) for l in op[2]], mk_lit(op[3]))
                con = ("im", op[2], op[3])
            elif k == "qu":
                m.quadraticencoding([mk_lit(l) for l in op[2]])
                con = ("amo", op[2])
            elif k == "he":
                m.heuleencoding([mk_lit(l) for l in op[3]], op[2])
                con = ("amo", op[3])
            elif k == "pb":
                q = pb.Ineq(mk_expr(op[4], op[5]), mk_expr(op[6], op[7]), op[3])
                m.pseudoboolencoding(q, bool(op[2]))
                con = ("pb", "=" if op[3] == "==" else op[3], op[4], op[5], op[6], op[7])
            elif k == "sv":
                sat = m.solve()
                # the solver's model by variable name (so that the model's own numbering is used on the Lean side)
                ans = [(m.vtable[abs(x)], int(x > 0)) for x in m.solver.get_model() if 0 < abs(x) < len(m.vtable)] if sat else None
                op = ("sv", i, ans)
                res = "sat" if sat else "unsat"
                self.check_solve(i, sat)
            elif k == "val":
                x = m.value(mk_lit(op[2]))
                res = "v:" + str(x)
            elif k == "ev":
                x = m.evalexpr(mk_expr(op[2], op[3]))
                res = "e:" + str(x)
                if x is not None:
                    sig = {v: m.model[v] for v in m.model}
                    # variables without a value (never solved / registered later) may cancel out of the expression
                    want = ev_terms(op[2], op[3], sig) if all(v in sig for (_, v, _) in op[2]) else x
                    if want != x:
                        self.problems.append(("evalexpr_value", {"mgr": i, "got": x, "direct": want}))
        except Exception as e:
            res = "err:" + type(e).__name__
            # refusals the property allows: heule with k < 3, an operator the ROBDD encoder does not implement
            # (anything but >= / <=) or an invalid operator string, solve() on a manager holding an unregistered literal
            expected = (type(e) is Exception and ((k == "he" and op[2] < 3) or (k in ("pb", "pbx", "pbt") and op[3] not in (">=", "<=")))) \
                or (type(e) is KeyError and k == "sv" and self.bad[i])
            if not expected:
                self.problems.append(("operation-raised", {"op": [str(x) for x in op][:4], "raised": repr(e)[:200]}))
        if res.startswith("err") and k != "sv":
            con = None
            if len(m.clauses) != ncl:
                self.problems.append(("refused_leaves_no_clauses", {"op": list(op), "added": len(m.clauses) - ncl}))
        if con is not None:
            self.posted[i].append(con)
            if k in ("pb", "pbx", "pbt") and len(m.clauses) > ncl and len(m.clauses[-1]) == 1 and m.clauses[-1][0].v.startswith("robdd_"):
                if int(m.clauses[-1][0].v[6:]) in cod_before:
                    self.reposts += 1
        self.results.append(res)
        self.check_pools(op)
        if k in ("pbx", "evx", "pbt"):
            self.check_exprs(op)
            return wire
        return op

    def sat_exists(self, i) -> bool:
        us = self.users[i]
        for bits in itertools.product((0, 1), repeat=len(us)):
            sig = dict(zip(us, bits))
            if all(holds(c, sig) for c in self.posted[i]):
                return True
        return False

    def check_solve(self, i, sat) -> None:
        if self.bad[i] or len(self.users[i]) > 12:
            return
        m = self.mgrs[i]
        want = self.sat_exists(i)
        if sat != want:
            self.problems.append(("solve_sat_iff", {"mgr": i, "solve": sat, "exists": want}))
            return
        if sat:
            sig = {}
            for v in self.users[i]:
                x = m.value(pb.Literal(v))
                if x not in (0, 1):
                    self.problems.append(("solve_model_total", {"mgr": i, "var": v, "value": x}))
                    return
                y = m.value(pb.Literal(v, False))
                if y != 1 - x:
                    self.problems.append(("value_negation", {"mgr": i, "var": v, "value": x, "negated": y}))
                    return
                sig[v] = x
            for c in self.posted[i]:
                if not holds(c, sig):
                    self.problems.append(("solve_model_satisfies", {"mgr": i, "constraint": c, "model": sig}))
                    return

    def check_exact(self, i) -> None:
        """all assignments of the user variables: real solver on the real clauses vs the posted constraints"""
        m = self.mgrs[i]
        us = self.users[i]
        if self.bad[i]:
            try:
                m.solve()
                self.problems.append(("unregistered_literal_refused", {"mgr": i}))
            except KeyError:
                pass
            return
        s = Solver()
        try:
            self._exact(i, m, us, s)
        except Exception as e:
            self.problems.append(("operation-raised", {"where": "clause translation", "mgr": i, "raised": repr(e)[:200]}))
        finally:
            s.delete()

    def _exact(self, i, m, us, s) -> None:
        if True:
            for clause in m.clauses:
                s.add_clause([-m.ttable[x.v] if x.s == m.isflipped(x.v) else m.ttable[x.v] for x in clause])
            for v in us:
                if v not in m.ttable:
                    self.problems.append(("user_var_registered", {"mgr": i, "var": v}))
                    return
            if len(us) <= 12:
                space = itertools.product((0, 1), repeat=len(us))
            else:      # too many for all assignments: none / one / two / three true, near the ends and in the middle
                n = len(us)
                idx = sorted({0, 1, 2, 3, n // 2, n // 2 + 1, n - 3, n - 2, n - 1, 7 % n, 991 % n, 997 % n})
                sets = [()] + [(a,) for a in idx] + [(a, b) for a in idx for b in idx if a < b][:40] + [(0, n // 2, n - 1)]
                space = [[1 if j in st else 0 for j in range(n)] for st in sets]
            for bits in space:
                sig = dict(zip(us, bits))
                got = s.solve(assumptions=[m.ttable[v] if b else -m.ttable[v] for v, b in sig.items()])
                want = all(holds(c, sig) for c in self.posted[i])
                if got != want:
                    bad = [c for c in self.posted[i] if not holds(c, sig)]
                    self.problems.append(("post_history_exact", {"mgr": i, "assignment": sig, "cnf_extends": got,
                                                                  "constraints_hold": want, "violated": bad[:2]}))
                    return


# ------------------------------------------------------------------ comparison
class Toks:
    def __init__(self, s: str):
        self.t = s.split()
        self.i = 0

    def tok(self):
        x = self.t[self.i]
        self.i += 1
        return x

    def nat(self):
        return int(self.tok())


def parse_store(s: str):
    t = Toks(s)
    mem = []
    for _ in range(t.nat()):
        if t.tok() == "L":
            mem.append(int(t.tok()))
        else:
            mem.append((t.tok(), t.nat(), t.nat()))
    mm = {}
    for _ in range(t.nat()):
        k = (t.tok(), t.nat(), t.nat())
        mm[k] = t.nat()
    return mem, mm


def parse_mgr(s: str):
    t = Toks(s)
    aux = t.nat()
    vs = [t.tok() for _ in range(t.nat())]
    cod = [t.nat() for _ in range(t.nat())]
    cls = []
    for _ in range(t.nat()):
        cls.append([(t.tok(), t.nat()) for _ in range(t.nat())])
    mdl = {}
    for _ in range(t.nat()):
        v = t.tok()
        mdl[v] = int(t.tok())
    return aux, vs, cod, cls, mdl


def canon_fn(mem, table):
    """node id -> structural id (shared interning table)"""
    cache = {}

    def go(i):
        if i in cache:
            return cache[i]
        if i < 0 or i >= len(mem):
            r = ("?", i)
        elif isinstance(mem[i], int):
            r = ("leaf", mem[i])
        else:
            v, a, b = mem[i]
            r = table.setdefault((v, go(a), go(b)), len(table))
        cache[i] = r
        return r
    return go


def canon_name(v: str, go):
    if v.startswith("robdd_") and v[6:].isdigit():
        return ("node", go(int(v[6:])))
    return v


def canon_state(mgr_strs, store_str, table):
    mem, mm = parse_store(store_str)
    go = canon_fn(mem, table)
    nodes = sorted(repr(go(i)) for i in range(len(mem)))
    mmc = sorted(repr(((k[0], go(k[1]), go(k[2])), go(mm[k]))) for k in mm)
    ms = []
    for s in mgr_strs:
        aux, vs, cod, cls, mdl = parse_mgr(s)
        ms.append((aux, sorted(repr(canon_name(v, go)) for v in vs), sorted(repr(go(i)) for i in cod),
                   sorted(repr(sorted((repr(canon_name(v, go)), sg) for v, sg in c)) for c in cls),
                   sorted((v, x) for v, x in mdl.items() if not v.startswith("robdd_"))))
    return nodes, mmc, ms


def compare_hist(ctx: Ctx, inp, impl: str, model: str, sz: int) -> None:
    if impl == model:
        return
    a, b = impl.split(" | "), model.split(" | ")
    if len(a) != len(b) or model in ("bad-op",):
        ctx.disagree("hist", inp, impl[:2000], model[:2000], size=sz)
        return
    ra, rb = a[0].split(), b[0].split()
    try:
        table = {}
        ca = canon_state(a[1:-1], a[-1], table)
        cb = canon_state(b[1:-1], b[-1], table)
    except Exception:
        ctx.disagree("hist", inp, impl[:2000], model[:2000], size=sz)
        return
    if ra != rb or ca != cb:
        ctx.disagree("hist", inp, impl[:2000], model[:2000], size=sz)
    else:
        ctx.drift += 1   # equal up to node numbering / clause order


# ------------------------------------------------------------------ generation
def rand_lit(rng, names):
    return (rng.choice(names), rng.choice([1, 1, 0]))


def rand_terms(rng, names, n, lo=-4, hi=6):
    return [(rng.randint(lo, hi), rng.choice(names), rng.choice([1, 1, 0])) for _ in range(n)]


def gen_pb(rng, i, names):
    style = rng.random()
    if style < 0.3:      # small coefficients, cardinality-like
        lt = [(rng.choice([1, 1, 1, 2, -1]), v, s) for (_, v, s) in rand_terms(rng, names, rng.randint(0, 6))]
    elif style < 0.9:
        lt = rand_terms(rng, names, rng.randint(0, 6))
    elif style < 0.95:   # larger coefficients (exercise the decomposition)
        lt = rand_terms(rng, names, rng.randint(1, 5), -9, 23)
    else:                # area-like coefficients as posted by rect.py: 1e3 … 1e4 on a few variables
        lt = [(rng.choice([1, 1, 1, -1]) * rng.randint(1000, 10000), v, s) for (_, v, s) in rand_terms(rng, names, rng.randint(2, 5))]
    rt = rand_terms(rng, names, rng.choice([0, 0, 0, 1, 2]))
    lc = rng.choice([0, 0, 0, 1, -1, 2])
    lo = lc + sum(c for (c, _, _) in lt if c < 0) - sum(c for (c, _, _) in rt if c > 0)
    hi = lc + sum(c for (c, _, _) in lt if c > 0) - sum(c for (c, _, _) in rt if c < 0)
    r = rng.random()     # mostly inside the reachable range, half of the time near its middle
    rc = (lo + hi) // 2 + rng.randint(-2, 2) if r < 0.5 else rng.randint(lo - 1, hi + 1) if r < 0.9 else rng.randint(-3, 3)
    r = rng.random()
    o = ">=" if r < 0.45 else "<=" if r < 0.75 else ">" if r < 0.83 else "<" if r < 0.90 else "=" if r < 0.94 \
        else "==" if r < 0.97 else rng.choice(["!=", "=<"])
    return ("pb", i, rng.random() < 0.5, o, lt, lc, rt, rc)


def net_form(op, lt, lc, rt, rc):
    """`Σ a_v·x_v + K ≥ 0` form of a `>=` / `<=` constraint: (variables in order of first appearance, a, K)"""
    sgn = 1 if op == ">=" else -1
    a, order = {}, []
    K = sgn * (lc - rc)
    for side, ts in ((sgn, lt), (-sgn, rt)):
        for (c, v, s) in ts:
            if v not in a:
                a[v] = 0
                order.append(v)
            if s:
                a[v] += side * c
            else:              # c·¬x = c − c·x
                a[v] -= side * c
                K += side * c
    return order, a, K


def gen_related(rng, i, earlier):
    """the same constraint again, or the cofactor of an earlier inequality on its largest-coefficient variable"""
    src = rng.choice(earlier)
    dec = src[2] if rng.random() < 0.8 else not src[2]
    if rng.random() < 0.25:
        return ("pb", i, dec) + tuple(src[3:])
    order, a, K = net_form(src[3], src[4], src[5], src[6], src[7])
    live = [v for v in order if a[v] != 0]
    if len(live) < 2:
        return ("pb", i, dec) + tuple(src[3:])
    top = max(abs(a[v]) for v in live)
    lead = [v for v in live if abs(a[v]) == top][0]
    b = rng.choice([0, 1])
    lt = [(a[v], v, 1) for v in live if v != lead]
    if rng.random() < 0.3 and len(lt) > 1:    # one level deeper
        rest = [t for t in lt]
        top2 = max(abs(t[0]) for t in rest)
        l2 = [t for t in rest if abs(t[0]) == top2][0]
        b2 = rng.choice([0, 1])
        K += l2[0] * b2
        lt = [t for t in rest if t is not l2]
    return ("pb", i, dec, ">=", lt, K + a[lead] * b, [], 0)


def gen_rich(rng, i, names):
    """a weighted at-least constraint over 4–6 variables with the bound in the middle of its range (a genuine diagram)"""
    vs = rng.sample(names, min(len(names), rng.randint(4, 6)))
    big = rng.random() < 0.2
    lt = [(rng.randint(1000, 10000) if big else rng.choice([1, 1, 1, 2, 2, 3]), v, rng.choice([1, 1, 1, 0])) for v in vs]
    tot = sum(c for (c, _, _) in lt)
    return ("pb", i, rng.random() < 0.3, ">=", lt, 0, [], max(2, tot // 2 + rng.choice([-1, 0, 0, 1])))


def gen_pbx(rng, i, pool):
    """an inequality over expression OBJECTS built once (pool: indices of the expressions of this manager)"""
    k = rng.choice(pool)
    r = rng.random()
    o = ">=" if r < 0.5 else "<=" if r < 0.8 else rng.choice([">", "<", "=", "=="])
    r = rng.random()
    if r < 0.45:
        other = ["n", "i", 0]
    elif r < 0.55:
        other = ["n", "f", rng.choice([0.0, -0.0, 0.5])]
    elif r < 0.75:
        other = ["n", "i", rng.choice([1, 1, 2, -1, 3])]
    else:
        other = ["e", rng.choice(pool)]
    direct = other[0] == "e" and rng.random() < 0.6
    if o == "==" and not direct:
        o = "="
    left, right = (["e", k], other) if direct or rng.random() < 0.75 else (other, ["e", k])
    if left[0] == "n" and right[0] == "n":
        left = ["e", k]
    return ("pbx", i, rng.random() < 0.5, o, left, right, direct)


def gen_history(rng, big: bool, long: bool = False):
    nm = rng.choice([1, 1, 2, 2, 3])
    nus = [rng.choice([2, 3, 3, 4, 4, 5, 6, 7, 8]) if not (big and j == 0) else rng.choice([10, 11, 12]) for j in range(nm)]
    shared = rng.random() < 0.5     # managers use the same variable names (same decision variables in the store)
    names = [[f"def_x{k}" if shared else f"def_m{j}x{k}" for k in range(nus[j])] for j in range(nm)]
    ops = [("nv", j, v) for j in range(nm) for v in names[j]]
    bad = [False] * nm
    pools = [[] for _ in range(nm)]          # expressions built once and reused (indices per manager)
    nex = 0
    if rng.random() < 0.6:
        for j in range(nm):
            for _ in range(rng.randint(1, 3)):
                empty = rng.random() < 0.15
                ts = [] if empty else rand_terms(rng, names[j][:nus[j]], rng.randint(1, 5), -3, 5)
                ops.append(("ex", 0, nex, ts, 0 if empty else rng.choice([-3, -2, -1, -1, 1, 1, 2, 0])))
                pools[j].append(nex)
                nex += 1
    tpools = [None] * nm                       # a table of Term / Literal objects per manager, built once (e.g. a penalty table)
    pool_family = rng.random() < 0.3
    if pool_family or rng.random() < 0.25:
        for j in range(nm):
            ents = []
            for _ in range(rng.randint(3, 8)):
                r = rng.random()
                c = None if r < 0.1 else rng.choice([-1, -2, -2, -3, -5]) if r < 0.55 else rng.choice([1, 2, 3, 4, 6]) if r < 0.95 else 0
                ents.append((c, rng.choice(names[j][:nus[j]]), rng.choice([1, 1, 0])))
            ops.append(("tp", 0, nex, ents))
            tpools[j] = (nex, len(ents), ents)
            nex += 1

    def gen_pbt(i):
        key, n, ents = tpools[i]
        idxs = [rng.randrange(n) for _ in range(rng.randint(1, min(5, n + 1)))]
        cs = [1 if ents[j][0] is None else ents[j][0] for j in idxs]
        lo, hi = sum(c for c in cs if c < 0), sum(c for c in cs if c > 0)
        b = rng.randint(lo - 1, hi + 1) if rng.random() < 0.8 else (lo + hi) // 2
        r = rng.random()
        o = ">=" if r < 0.55 else "<=" if r < 0.9 else rng.choice([">", "<", "="])
        return ("pbt", i, rng.random() < 0.4, o, key, idxs, b, rng.choice([0, 0, 1, 2]))
    earlier = []                               # `>=` / `<=` inequalities posted so far (any manager)
    family = rng.random() < 0.35               # histories built around diagrams and their sub-diagrams
    if family:
        for j in range(nm):
            if len(names[j]) >= 4 and rng.random() < 0.8:
                ops.append(gen_rich(rng, j, names[j]))
                earlier.append(ops[-1])
    nops = rng.randint(1, 8) * nm
    if long:       # as many operations as 10–20 ordinary histories over ONE store: the store is never reset in between
        nops = rng.randint(60, 150)
    for _ in range(nops):
        i = rng.randrange(nm)
        ns = names[i]
        if rng.random() < 0.06 and len(ns) < 9:     # a variable registered in the middle of the history
            ns.append(f"def_late{i}_{len(ns)}")
            ops.append(("nv", i, ns[-1]))
        r = rng.random()
        if r < 0.10:
            c = [rand_lit(rng, ns) for _ in range(rng.choice([0, 1, 2, 2, 3, 4]))]
            if rng.random() < 0.03:
                c.append((f"def_ghost{i}", 1))
                bad[i] = True
            ops.append(("cl", i, c))
        elif r < 0.18:
            ops.append(("im", i, [rand_lit(rng, ns) for _ in range(rng.choice([0, 1, 2, 3]))], rand_lit(rng, ns)))
        elif r < 0.26:
            n = rng.randint(0, min(6, len(ns) + 1))
            ls = [(v, rng.choice([1, 1, 1, 0])) for v in rng.sample(ns, min(n, len(ns)))]
            if rng.random() < 0.2 and ls:
                ls.append(rand_lit(rng, ns))     # repeated / complementary literal
            ops.append(("qu", i, ls))
        elif r < 0.40:
            n = rng.randint(0, len(ns))
            ls = [(v, rng.choice([1, 1, 1, 0])) for v in rng.sample(ns, n)]
            if rng.random() < 0.15 and ls:
                ls.append(rand_lit(rng, ns))
            ops.append(("he", i, rng.choice([3, 3, 3, 4, 5, 6, 2, 0, -1]), ls))
        elif r < 0.90:
            r2 = rng.random()
            if tpools[i] and rng.random() < (0.7 if pool_family else 0.3):
                ops.append(gen_pbt(i))
                continue
            if pools[i] and r2 < 0.35:
                ops.append(gen_pbx(rng, i, pools[i]))
                continue
            if earlier and r2 < (0.85 if family else 0.65):
                same = [e for e in earlier if e[1] == i]
                src = same if same and rng.random() < 0.7 else [e for e in earlier if set(t[1] for t in e[4] + e[6]) <= set(ns)]
                if src:
                    ops.append(gen_related(rng, i, src))
                    if ops[-1][3] in (">=", "<="):
                        earlier.append(ops[-1])
                    continue
            ops.append(gen_pb(rng, i, ns))
            if ops[-1][3] in (">=", "<="):
                earlier.append(ops[-1])
        else:
            ops.append(("sv", i, None))
            for _ in range(rng.randint(0, 3)):
                if rng.random() < 0.5:
                    ops.append(("val", i, rand_lit(rng, ns + [f"def_never{i}"])))
                elif pools[i] and rng.random() < 0.5:
                    ops.append(("evx", i, rng.choice(pools[i])))
                else:
                    ops.append(("ev", i, rand_terms(rng, ns, rng.randint(0, 4), 1, 5), rng.randint(-2, 3)))
    if pool_family:      # the same table entries in several postings of one manager, whatever the random ops above did
        for j in range(nm):
            for _ in range(rng.randint(2, 4)):
                ops.append(gen_pbt(j))
    for j in range(nm):
        if rng.random() < 0.5:
            ops.append(("sv", j, None))
    return {"nm": nm, "ops": [list(o) for o in ops], "bad": bad}


def norm_op(o):
    """JSON round trip gives lists; normalise to what Impl.step expects"""
    o = list(o)
    k = o[0]

    def lits(ls):
        return [(l[0], int(l[1])) for l in ls]

    def terms(ts):
        return [(int(t[0]), t[1], int(t[2])) for t in ts]
    if k in ("cl", "qu"):
        o[2] = lits(o[2])
    elif k == "im":
        o[2] = lits(o[2])
        o[3] = (o[3][0], int(o[3][1]))
    elif k == "he":
        o[3] = lits(o[3])
    elif k == "pb":
        o[4], o[6] = terms(o[4]), terms(o[6])
    elif k == "val":
        o[2] = (o[2][0], int(o[2][1]))
    elif k == "ev":
        o[2] = terms(o[2])
    elif k == "ex":
        o[3] = terms(o[3])
    elif k == "tp":
        o[3] = [(None if t[0] is None else int(t[0]), t[1], int(t[2])) for t in o[3]]
    elif k == "pbt":
        o[5] = [int(j) for j in o[5]]
    return tuple(o)


def run_history(ctx: Ctx, h, reqs, todo, stream="hist") -> None:
    nm = h["nm"]
    im = Impl(nm)
    im.bad = list(h.get("bad", [False] * nm))
    wire = []
    for o in h["ops"]:
        wo = im.step(norm_op(o))
        if wo is not None:
            wire.append(w_op(wo))
    sz = len(h["ops"])
    inp = {"history": h}
    for i in range(nm):
        im.check_exact(i)
    prob = store_invariant_problem()
    if prob:
        im.problems.append(("store_invariant", {"problem": prob}))
    for clause, detail in im.problems:
        ctx.spec_fail(clause, inp, detail, size=sz)
    impl = " ".join(im.results) + "".join(" | " + dump_mgr(m) for m in im.mgrs) + " | " + dump_store()
    reqs.append(f"P hist {nm} {len(wire)} " + " ".join(wire))
    todo.append(("hist", inp, impl, sz))
    kinds = [o[0] for o in h["ops"]]
    ctx.case(stream, reqs[-1], nontrivial=any(k in ("pb", "pbx", "pbt", "he", "qu") for k in kinds),
             sample={"request": reqs[-1][:300], "results": " ".join(im.results)})
    for k in kinds:
        ctx.count("op:" + k)
    ctx.count("codified-root-reposts:%d" % min(3, im.reposts))
    for r in im.results:
        if r.startswith("err"):
            ctx.count("result:" + r)
    ctx.count("nodes:%s" % ("0" if len(pb.memory) == 2 else "1-9" if len(pb.memory) < 12 else "10-49" if len(pb.memory) < 52 else "50+"))
    ctx.count("managers:%d" % nm)
    ctx.count("uservars:max%d" % max(len(u) for u in im.users))


# ---- session stream: many histories, one store that is NEVER reset in between (what a process running rect.py does:
#      a new SATManager per `solve` call, all of them appending to pseudobool.memory / mmap)
def dump_store_from(k: int) -> str:
    mem = pb.memory[k:]
    items = list(pb.mmap.items())[max(0, k - 2):]
    out = [str(k), str(len(mem))]
    for n in mem:
        out += ["L", str(n)] if isinstance(n, int) else ["N", str(n[0]), str(n[1]), str(n[2])]
    out.append(str(len(items)))
    for key, v in items:
        out += [str(key[0]), str(key[1]), str(key[2]), str(v)]
    return " ".join(out)


def gen_rect_like(rng, i, names, weights, bound_frac):
    """the objective `ratio·selarea − realarea >= dif` of tools/rect/rect.py: one signed weight (|w| up to ~1e3) per cell
    variable, the same weights in every history of the session, a bound that moves from history to history"""
    lt = [(weights[k], v, 1) for k, v in enumerate(names) if k < len(weights) and weights[k] != 0]
    lo = sum(c for (c, _, _) in lt if c < 0)
    hi = sum(c for (c, _, _) in lt if c > 0)
    bound = int(lo + (hi - lo) * bound_frac) + rng.choice([0, 0, 1, -1])
    return ("pb", i, rng.random() < 0.25, ">=", lt, 0, [], bound)


def gen_session(rng, nh: int, large: bool = False):
    nw = 12
    style = rng.random()
    if style < 0.4:       # ratio·sel − real with areas up to 1e3
        weights = [2 * rng.randint(0, 500) - rng.randint(1, 1000) for _ in range(nw)]
    elif style < 0.7:     # few distinct magnitudes (a uniform grid): many equal coefficients
        base = rng.choice([100, 250, 625, 1000])
        weights = [rng.choice([base, base, -base, 2 * base, base // 2]) for _ in range(nw)]
    else:
        weights = [rng.choice([1, -1]) * rng.randint(100, 1000) for _ in range(nw)]
    hs = []
    for j in range(nh):
        h = gen_history(rng, big=(large and j == nh // 2))
        if rng.random() < 0.7:
            first = next((t for t, o in enumerate(h["ops"]) if o[0] not in ("nv", "ex", "tp")), len(h["ops"]))
            names0 = [o[2] for o in h["ops"][:first] if o[0] == "nv" and o[1] == 0]   # registered up front
            nvars = len(names0) if large else min(len(names0), 9)
            if nvars >= 3:
                op = gen_rect_like(rng, 0, names0[:nvars], weights, (j + 1) / (nh + 1) if rng.random() < 0.7 else rng.random())
                h["ops"].insert(rng.randint(first, len(h["ops"])), list(op))
                if rng.random() < 0.3:      # the same objective against the next bound, in the same manager
                    op2 = gen_rect_like(rng, 0, names0[:nvars], weights, (j + 2) / (nh + 1))
                    h["ops"].insert(rng.randint(first, len(h["ops"])), list(op2))
        hs.append(h)
    return {"histories": hs}


def run_session(ctx: Ctx, sess, reqs, todo, stream="session") -> None:
    reset_store()
    inp = {"session": sess}
    segs, wires = [], []
    sz = sum(len(h["ops"]) for h in sess["histories"])
    for j, h in enumerate(sess["histories"]):
        nm = h["nm"]
        k0 = len(pb.memory)
        before_mem, before_mm = list(pb.memory), list(pb.mmap.items())
        im = Impl(nm, reset=False)
        im.bad = list(h.get("bad", [False] * nm))
        wire = []
        for o in h["ops"]:
            wo = im.step(norm_op(o))
            if wo is not None:
                wire.append(w_op(wo))
        for i in range(nm):
            im.check_exact(i)
        prob = store_invariant_problem()
        if prob:
            im.problems.append(("store_invariant", {"problem": prob}))
        if pb.memory[:k0] != before_mem or list(pb.mmap.items())[:len(before_mm)] != before_mm:
            im.problems.append(("store_append_only", {"history": j, "nodes_before": k0}))
        for clause, detail in im.problems:
            ctx.spec_fail(clause, inp, dict(detail, history_index=j), size=sz)
        segs.append(" ".join(im.results) + "".join(" | " + dump_mgr(m) for m in im.mgrs) + " | " + dump_store_from(k0))
        wires.append(f"{nm} {len(wire)} " + " ".join(wire))
        for o in h["ops"]:
            ctx.count("op:" + o[0])
    reqs.append(f"P sess {len(wires)} " + " ".join(wires))
    todo.append(("sess", inp, " || ".join(segs), sz))
    ctx.case(stream, reqs[-1], nontrivial=True, sample={"histories": len(segs), "store_nodes": len(pb.memory)})
    n = len(pb.memory)
    ctx.count("session-store-nodes:%s" % ("<100" if n < 100 else "100-999" if n < 1000 else "1000-4999" if n < 5000 else "5000+"))
    ctx.count("session-histories:%d+" % (10 * (len(segs) // 10)))


def _cumulative(seg_store: str, mem, mm) -> None:
    """append the suffix `k n nodes… n items…` of one segment to the cumulative store"""
    t = Toks(seg_store)
    k = t.nat()
    if k != len(mem):
        raise ValueError("suffix does not start where the store ended")
    for _ in range(t.nat()):
        if t.tok() == "L":
            mem.append(int(t.tok()))
        else:
            mem.append((t.tok(), t.nat(), t.nat()))
    for _ in range(t.nat()):
        key = (t.tok(), t.nat(), t.nat())
        mm[key] = t.nat()


def _store_str(mem, mm) -> str:
    out = [str(len(mem))]
    for n in mem:
        out += ["L", str(n)] if isinstance(n, int) else ["N", str(n[0]), str(n[1]), str(n[2])]
    out.append(str(len(mm)))
    for key, v in mm.items():
        out += [str(key[0]), str(key[1]), str(key[2]), str(v)]
    return " ".join(out)


def compare_session(ctx: Ctx, inp, impl: str, model: str, sz: int) -> None:
    if impl == model:
        return
    a, b = impl.split(" || "), model.split(" || ")
    if len(a) != len(b) or model == "bad-op":
        ctx.disagree("sess", inp, impl[:1500], model[:1500], size=sz)
        return
    # first history that differs; equal up to node numbering / clause order is drift, not a disagreement
    ma, mma, mb, mmb = [0, 1], {}, [0, 1], {}
    for j, (x, y) in enumerate(zip(a, b)):
        px, py = x.split(" | "), y.split(" | ")
        try:
            if j == 0:
                ma, mma, mb, mmb = [], {}, [], {}
                # the first suffix starts at 2: the two leaves are part of the initial store
                ma, mb = [0, 1], [0, 1]
            _cumulative(px[-1], ma, mma)
            _cumulative(py[-1], mb, mmb)
        except Exception:
            ctx.disagree("sess", dict(inp, history_index=j), x[:1500], y[:1500], size=sz)
            return
        if x == y:
            continue
        if len(px) != len(py) or px[0].split() != py[0].split():
            ctx.disagree("sess", dict(inp, history_index=j), x[:1500], y[:1500], size=sz)
            return
        try:
            table = {}
            ca = canon_state(px[1:-1], _store_str(ma, mma), table)
            cb = canon_state(py[1:-1], _store_str(mb, mmb), table)
        except Exception:
            ctx.disagree("sess", dict(inp, history_index=j), x[:1500], y[:1500], size=sz)
            return
        if ca != cb:
            ctx.disagree("sess", dict(inp, history_index=j), x[:1500], y[:1500], size=sz)
            return
    ctx.drift += 1


# ---- names stream: newvar(name, pre) with every prefix / name type
import re
_RESERVED = [(re.compile(r"^robdd_(0|[1-9][0-9]*)$"), "n"), (re.compile(r"^aux_(0|[1-9][0-9]*)$"), "a")]


def name_kind(v: str) -> str:
    """independent reading of a variable name: node / auxiliary (exactly what str() prints for an int ≥ 0) / user"""
    for rx, k in _RESERVED:
        mm = rx.match(v)
        if mm and v.isascii() and v == v.strip() and "\n" not in v:
            return k + str(int(mm.group(1)))
    return "u"


def cp(sname: str) -> str:
    """wire form of a name: its code points (names may be empty or contain white space)"""
    return ".".join(str(ord(ch)) for ch in sname)


def gen_names(rng):
    calls = []
    for _ in range(rng.randint(1, 12)):
        r = rng.random()
        pre = "def_" if r < 0.35 else "" if r < 0.55 else "robdd_" if r < 0.7 else "aux_" if r < 0.8 else \
            rng.choice(["b0_", "b1_x_", "robdd", "aux", "r", "a", "ROBDD_", "robdd__", "aux_0", "def_robdd_", "x-"])
        r = rng.random()
        if r < 0.30:
            name = rng.choice([0, 1, 2, 7, 10, 17, 100, 120, 999, 1000, 12345678901234567890, -1, -7])
        elif r < 0.40:
            name = rng.choice([0.0, 1.0, 2.5, -0.5, 1e16, 1e-5, 3.0])
        elif r < 0.70:
            name = rng.choice(["x", "y", "x0", "b_3", "7", "07", "007", "0", "00", "1_0", "robdd_7", "aux_2", "robdd_07", "_7",
                               "obdd_7", "ux_3", "+7", "٧", "x,y", "-x", "north", "3.0", "",
                               # white space is part of a name: ' x', 'x ' and 'x' are three variables, 'robdd_7 ' is no node
                               " x", "x ", "a b", " ", "7 ", " 7", "\t7", "7\n", "x\u00a0", "  x  "])
        else:
            name = rng.choice(["", "robdd_", "aux_"]) + str(rng.randint(0, 30))
        calls.append([pre, name, rng.random() < 0.5])
    return {"calls": calls}


def run_names(ctx: Ctx, case, reqs, todo) -> None:
    inp = {"names": case}
    m = SATManager()
    out, wire = [], []
    for pre, name, default in case["calls"]:
        try:
            # the default prefix is exercised both by omitting the argument and by passing it
            lit = m.newvar(name) if (default and pre == "def_") else m.newvar(name, pre)
        except Exception as e:
            ctx.spec_fail("operation-raised", inp, {"newvar raised": repr(e)[:200]}, size=len(case["calls"]))
            return
        want = pre + str(name)
        if lit.v != want or lit.s is not True:
            ctx.spec_fail("newvar_name", inp, {"pre": pre, "name": repr(name), "literal": [lit.v, lit.s]}, size=len(case["calls"]))
        if m.ttable.get(lit.v) is None or m.vtable[m.ttable[lit.v]] != lit.v:
            ctx.spec_fail("newvar_registers", inp, {"pre": pre, "name": repr(name)}, size=len(case["calls"]))
        if pre == "def_" and name_kind(lit.v) != "u":
            ctx.spec_fail("newvar_default_prefix_user", inp, {"name": repr(name), "vname": lit.v}, size=len(case["calls"]))
        out.append(f"{cp(lit.v)}:{int(lit.s)}:{name_kind(lit.v)}")
        wire.append(f"p:{cp(pre)} n:{cp(str(name))}")
    if len(set(m.vtable[1:])) != len(m.vtable) - 1 or m.tcount != len(m.vtable):
        ctx.spec_fail("newvar_registers_once", inp, {"vtable": m.vtable}, size=len(case["calls"]))
    impl = " ".join(out) + f" | {len(m.vtable) - 1}" + "".join(" v" + cp(v) for v in m.vtable[1:])
    reqs.append(f"P names {len(wire)} " + " ".join(wire))
    todo.append(("names", inp, impl, len(case["calls"])))
    ctx.case("names", reqs[-1], nontrivial=len(case["calls"]) >= 2)
    for o in out:
        ctx.count("name-kind:" + o.rsplit(":", 1)[1][0])


# ---- isclause stream
def run_isclause(ctx: Ctx, case, reqs, todo) -> None:
    o, lt, lc, rt, rc = case["op"], [tuple(t) for t in case["lt"]], case["lc"], [tuple(t) for t in case["rt"]], case["rc"]
    inp = {"isclause": case}
    try:
        q = pb.Ineq(mk_expr(lt, lc), mk_expr(rt, rc), o)
        r = q.isclause()
        if not r:
            impl = f"{q.op} {q.rhs} no"
        elif q.clause is None:
            impl = f"{q.op} {q.rhs} taut"
        else:
            impl = f"{q.op} {q.rhs} clause " + w_lits(sorted((l.v, int(l.s)) for l in q.clause))
        names = sorted({v for (_, v, _) in lt + rt})
        if r and len(names) <= 10:
            oo = "=" if o == "==" else o
            for bits in itertools.product((0, 1), repeat=len(names)):
                sig = dict(zip(names, bits))
                want = cmp_ints(oo, ev_terms(lt, lc, sig), ev_terms(rt, rc, sig))
                got = True if q.clause is None else any(lv((l.v, l.s), sig) == 1 for l in q.clause)
                if got != want:
                    ctx.spec_fail("isClause_exact", inp, {"assignment": sig, "constraint_holds": want,
                                                           "isclause": "tautology" if q.clause is None else impl}, size=len(lt) + len(rt))
                    break
    except Exception as e:
        impl = "err:" + type(e).__name__
        if not (type(e) is Exception and o not in OPSTR):
            ctx.spec_fail("operation-raised", inp, {"raised": repr(e)[:200]}, size=len(lt) + len(rt))
    reqs.append(f"P isclause {o} {w_expr(lt, lc)} {w_expr(rt, rc)}")
    todo.append(("isclause", inp, impl, len(lt) + len(rt)))
    if not impl.startswith("err"):      # the printed form after isclause() (the clause, when there is one)
        try:
            txt = q.tostr()
        except Exception as e:
            txt = "err:" + type(e).__name__
            ctx.spec_fail("operation-raised", inp, {"tostr raised": repr(e)[:200]}, size=len(lt) + len(rt))
        reqs.append(f"P qtostr {o} {w_expr(lt, lc)} {w_expr(rt, rc)}")
        todo.append(("qtostr", inp, txt, len(lt) + len(rt)))
    ctx.case("isclause", reqs[-1], nontrivial=len(lt) + len(rt) >= 2)
    ctx.count("isclause:" + (impl.split()[2] if not impl.startswith("err") else impl))


def gen_isclause(rng):
    names = [f"def_x{k}" for k in range(rng.choice([1, 2, 3, 4, 6]))]
    op = gen_pb(rng, 0, names)
    return {"op": op[3], "lt": [list(t) for t in op[4]], "lc": op[5], "rt": [list(t) for t in op[6]], "rc": op[7]}


def compare(ctx: Ctx, todo, replies) -> None:
    for (kind, inp, impl, sz), model in zip(todo, replies):
        if kind == "hist":
            compare_hist(ctx, inp, impl, model, sz)
        elif kind == "sess":
            compare_session(ctx, inp, impl, model, sz)
        elif kind == "qtostr":
            def norm(t):     # the order of the literals inside a printed clause is not part of the property
                if t.endswith(" >= 1") and " + " in t and all(x.startswith("1 ") for x in t[:-5].split(" + ")):
                    return " + ".join(sorted(t[:-5].split(" + "))) + " >= 1"
                return t
            if norm(impl) != norm(model):
                ctx.disagree("tostr", inp, impl, model, size=sz)
        else:
            m = model
            if " clause " in model:   # literal order inside the clause is not part of the property
                head, rest = model.split(" clause ")
                t = rest.split()
                ls = sorted((t[1 + 2 * j], int(t[2 + 2 * j])) for j in range(int(t[0])))
                m = head + " clause " + w_lits(ls)
            if impl != m:
                ctx.disagree("isclause", inp, impl, model, size=sz)


def exhaustive_small(ctx: Ctx, reqs, todo) -> None:
    """every constraint c1·x + c2·y + c3·z ⋈ k with coefficients in [−3,3], all operators, both constructions"""
    names = ["def_x", "def_y", "def_z"]
    cnt = 0
    for cs in itertools.product(range(-3, 4), repeat=3):
        for k in range(-4, 8):
            for o in (">=", "<=", ">", "<", "="):
                for dec in (False, True):
                    if dec and o != ">=":
                        continue
                    lt = [[c, v, 1] for c, v in zip(cs, names)]
                    h = {"nm": 1, "ops": [["nv", 0, v] for v in names] + [["pb", 0, dec, o, lt, 0, [], k]], "bad": [False]}
                    run_history(ctx, h, reqs, todo, "exhaustive")
                    cnt += 1
    ctx.extra["exhaustive_3literal_constraints"] = cnt


def large_cases(ctx: Ctx, reqs, todo) -> None:
    """sizes beyond the interpreter's recursion limit"""
    # at-most-one over 1200 / 1500 literals: must be encoded exactly (compared with the model, sampled assignments)
    for n, k in ((1200, 3), (1500, 5)):
        names = [f"def_g{j}" for j in range(n)]
        h = {"nm": 1, "ops": [["nv", 0, v] for v in names] + [["he", 0, k, [[v, 1] for v in names]]], "bad": [False]}
        run_history(ctx, h, reqs, todo, "large")
    # a 1200-term inequality: documented behaviour = either encoded, or refused by the interpreter (RecursionError
    # inside getrobdd, before anything is posted) leaving clauses, codified set and store untouched
    reset_store()
    m = SATManager()
    lits = [m.newvar(j) for j in range(1200)]
    e = pb.Expr()
    for l in lits:
        e = e + l
    inp = {"large": "sum of 1200 literals >= 600"}
    try:
        m.pseudoboolencoding(e >= 600)
        ctx.count("large-pb:encoded")
    except RecursionError:
        ctx.count("large-pb:RecursionError")
        if m.clauses or m.codified or len(pb.memory) != 2:
            ctx.spec_fail("refused_leaves_no_clauses", inp, {"clauses": len(m.clauses), "codified": len(m.codified),
                                                              "store_nodes": len(pb.memory) - 2}, size=1200)
    except Exception as ex:
        ctx.spec_fail("operation-raised", inp, {"raised": repr(ex)[:200]}, size=1200)
    prob = store_invariant_problem()
    if prob:
        ctx.spec_fail("store_invariant", inp, {"problem": prob}, size=1200)
    ctx.case("large", "pb1200", nontrivial=True)
    reset_store()


def run(ctx: Ctx) -> None:
    ctx.rule = ("random posting histories: 1–3 managers sharing the ROBDD store (same or different variable names), 2–8 user "
                "variables each (10–12 in 2.5% of the histories) registered through newvar before use (mostly up front, 6% of the ops "
                "are preceded by a late newvar; 3% of the clauses carry a never-registered literal → solve() must raise KeyError), 1–8 ops per manager drawn from add_clause / imply / quadratic / "
                "heule(k ∈ {3,4,5,6} and refused k<3) / pseudoboolencoding (0–6 terms left, 0–2 right, coefficients −4…6 or −9…23 "
                "incl. 0 and repeated variables, bound around the reachable range, six operator strings + invalid ones, both "
                "constructions) / solve + value + evalexpr; store reset to [0,1] at the start of each history so that node ids "
                "are comparable; non-trivial = contains a pseudo-Boolean or at-most-one posting; distinct = distinct request; "
                "isclause stream: the same constraint generator; 5% of the inequalities carry area-like coefficients 1000…10000; "
                "pool family (30% of the histories, plus pool postings in another 25%): per manager a table of 3–8 Term / Literal OBJECTS "
                "built once from integer data (coefficients −5…6, half of them negative, either polarity) whose entries are reused — the same "
                "Python objects — in several posted inequalities (Expr() + t…, t + t…, sum([t…])); the truth table and the model's posting "
                "come from the integer data, never from the objects after use, and the objects must keep their contents (operand_mutated); "
                "12 long histories (60–150 operations over one never-reset store); session stream: 8 (thorough 80) sessions of 15–40 "
                "histories each (fresh managers per history, 1–3 at a time) run one after the other on ONE store that is never reset — as a "
                "process running rect.py does, one SATManager per solve call — with a rect-like objective (one signed weight of "
                "magnitude up to 1e3 per variable, fixed for the session, against a bound that moves from history to history) in 70% of "
                "the histories; every fourth session has a 10–12 variable history in the middle (stores of thousands of nodes); per history "
                "names stream: 1–12 newvar(name, pre) calls on one manager with the default prefix (omitted or passed), the empty "
                "prefix, the reserved prefixes robdd_ / aux_ and look-alikes, names that are ints (incl. negative, 20 digits), floats and "
                "strings (incl. '07', '1_0', 'robdd_7', non-ASCII digits, ''): returned literal, registration, collisions and the reading "
                "of each name as node / auxiliary / user variable compared with the model's newvarPy / classify; "
                "the op results, managers and the nodes APPENDED to the store are compared, and the old part of the store must be untouched; large stream: at-most-one over 1200 (k=3) and "
                "1500 (k=5) literals, a 1200-term inequality")
    ctx.assumptions += [
        "user variable names do not start with 'robdd_' / 'aux_', contain no ',' and do not start with '-' (all names generated here are def_*)",
        "prioritize / setflipped (deprecated, outside the anchors) are never called: flipped is empty and ttable is the inverse of vtable",
        "constraints are posted through the public methods on Ineq objects built by the Expr algebra (normal form, C16)",
        "size bound: getrobdd / constructrobdd / _codifyrobdd recurse once per level of the diagram; beyond the interpreter's recursion limit (default 1000 frames, i.e. about 990 distinct variables in one inequality) pseudoboolencoding raises RecursionError before posting anything (asserted by the `large` case); heuleencoding has no such bound once fixes/C07_heule_recursion.diff is applied (1200 / 1500 literals are run every time)",
    ]
    reqs, todo = [], []
    for s in getattr(ctx, "seed_inputs", []) or []:
        if isinstance(s, dict) and "history" in s:
            run_history(ctx, s["history"], reqs, todo, "seed")
        elif isinstance(s, dict) and "session" in s:
            run_session(ctx, s["session"], reqs, todo, "seed")
        elif isinstance(s, dict) and "names" in s:
            run_names(ctx, s["names"], reqs, todo)
        elif isinstance(s, dict) and "isclause" in s:
            run_isclause(ctx, s["isclause"], reqs, todo)
    n = ctx.n(1500, 25000)
    for j in range(n):
        run_history(ctx, gen_history(ctx.rng, big=(j % 40 == 7)), reqs, todo)
    for _ in range(ctx.n(12, 150)):
        run_history(ctx, gen_history(ctx.rng, big=False, long=True), reqs, todo, "long")
    for j in range(ctx.n(8, 80)):
        run_session(ctx, gen_session(ctx.rng, ctx.rng.randint(15, 40), large=(j % 4 == 3)), reqs, todo)
    large_cases(ctx, reqs, todo)
    for _ in range(ctx.n(1500, 30000)):
        run_names(ctx, gen_names(ctx.rng), reqs, todo)
    for _ in range(ctx.n(5000, 100000)):
        run_isclause(ctx, gen_isclause(ctx.rng), reqs, todo)
    if ctx.tier == "thorough" and ctx.budget <= 1.0:
        exhaustive_small(ctx, reqs, todo)
    reset_store()
    replies = ctx.model(reqs)
    if replies is None:
        ctx.notes.append("model driver unavailable: correspondence not run")
        return
    compare(ctx, todo, replies)


def replay(ctx: Ctx, body: dict) -> None:
    reqs, todo = [], []
    inp = body["input"]
    if "history" in inp:
        run_history(ctx, inp["history"], reqs, todo)
    elif "session" in inp:
        run_session(ctx, inp["session"], reqs, todo)
    elif "names" in inp:
        run_names(ctx, inp["names"], reqs, todo)
    else:
        run_isclause(ctx, inp["isclause"], reqs, todo)
    replies = ctx.model(reqs)
    if replies:
        compare(ctx, todo, replies)

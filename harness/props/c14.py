"""C14 — Spectral placement keeps every module's disc inside the die.

Anchors: tools/spectral/spectral_algorithm.py (spectral_layout_die, normalize, orthogonalize,
calculate_centroids, abs_norm_dot_product, wirelength), tools/spectral/spectral.py (Spectral._build_graph,
Spectral.spectral_layout), Module.recenter_rectangles.

Correspondence (implementation vs the Lean model FV/Model/Spectral.lean):
  * unit ops at arbitrary vectors: normalize (Float and exact Rat: the Python runs on Fractions), orthogonalize,
    calculate_centroids, abs_norm_dot_product, wirelength, recenter_rectangles (Float and Rat), _build_graph, sum();
  * `sld`     — spectral_layout_die with the values returned by random.uniform captured and fed to the model:
                coordinates, wirelength and iteration counts of the whole run (every iteration of it);
  * `slayout` — Spectral.spectral_layout (best-of-n, recentring of hard modules, dropped centres), incl. nets so heavy that
                every trial's wirelength is inf (AssertionError on both sides) and verbose=True runs;
  * `best-of-n` — the selection among trials driven with SCRIPTED trial results (inf / NaN / equal wirelengths) vs the model's
                `betterTrial` fold and a first-strict-minimum oracle;
  * `sld` damping family — dies of side 1e6..1e9 with one disc whose span is about the convergence tolerance: the
                `max - min < epsilon` branch of the loop is taken (and the run returns).
Spec on the implementation's output (many seeds x trial counts): disc of every movable module inside the die,
fixed modules untouched, hard modules moved rigidly with centroid = assigned centre, soft centres = best trial + size/2,
best trial = first strict minimum of the wirelengths, areas / flags / nets / shapes unchanged, no exception on admissible
inputs.  The |x_i| <= 1e-9 escape of normalize is probed at function level and watched for in the runs.
"""
from __future__ import annotations

import math
import random as pyrandom
from fractions import Fraction
from types import SimpleNamespace
from itertools import combinations

from vcheck import Ctx, f2hex, hex2f, q2s
from frame.geometry.geometry import Point, Shape, Rectangle
from frame.netlist.module import Module
from tools.spectral import spectral_algorithm as SA
from tools.spectral import spectral as SP
from tools.spectral.spectral_types import AdjEdge

LEVEL = "proof (exact arithmetic, every draw list / trial count / iteration count; floats by search: partial)"
DRIVERS = ["drv_place"]
TRUSTED = [
    "Lean 4.33 kernel; Mathlib lemmas; axioms ⊆ {propext, Classical.choice, Quot.sound}",
    "hand-written model FV/Model/Spectral.lean — fidelity to tools/spectral/*.py and Module.recenter_rectangles checked by this "
    "correspondence run (unit ops, whole spectral_layout_die runs with captured draws, whole spectral_layout runs), not proved",
    "random.uniform enters the model as an arbitrary input list; the theorems quantify over all such lists",
    "theorems are over exact ordered fields with sqrt as an uninterpreted non-negative function; IEEE rounding (a 1e-9*size margin "
    "on 'inside') is searched, never proved; the radius is sqrt(area/pi) as computed by the code",
    "harness (Python) and compiled Lean driver: parsing, canonicalisation, comparison",
]

ERR = {ValueError: "err:ValueError", ZeroDivisionError: "err:ZeroDivisionError", AssertionError: "err:AssertionError"}


def err_of(ex: Exception) -> str:
    for k, v in ERR.items():
        if isinstance(ex, k):
            return v
    return "err:" + type(ex).__name__


# ------------------------------------------------------------------ instances
def gen_instance(rng, big: bool = False, terminals: bool = False) -> dict:
    W = rng.choice([6.0, 8.0, 10.0, 12.0, 16.0, 20.0])
    H = rng.choice([6.0, 8.0, 10.0, 12.0, 16.0, 20.0])
    if rng.random() < 0.25:
        W, H = round(rng.uniform(5, 25), rng.choice([1, 2, 6])), round(rng.uniform(5, 25), rng.choice([1, 2, 6]))
    integral = W == int(W) and H == int(H)
    nmov = rng.randint(4, 9 if big else 7)
    nfix = rng.choice([0, 0, 1, 2, 3]) if integral else 0
    amax = min(math.pi * (min(W, H) / 2) ** 2 * 0.9, 0.7 * W * H / (nmov + nfix))
    mods, blocks = [], set()
    for i in range(nmov):
        r = rng.random()
        if r < 0.7:
            m = {"name": f"M{i}", "kind": "soft", "area": round(rng.uniform(0.05, amax), rng.choice([1, 2, 9])) or 0.5}
            if rng.random() < 0.35:  # FPGA-style area per region type; the disc is that of the TOTAL area
                tot, regs = m["area"], rng.sample(["DSP", "BRAM", "LUT", "_"], rng.randint(1, 3))
                if rng.random() < 0.4 and "_" in regs and len(regs) > 1:
                    regs.remove("_")  # nothing in the ground region
                cuts = sorted(rng.uniform(0.05, 0.95) for _ in range(len(regs) - 1))
                parts = [b - a for a, b in zip([0.0] + cuts, cuts + [1.0])]
                m["area"] = {r: max(round(tot * p_, 4), 0.001) for r, p_ in zip(regs, parts)}
            if rng.random() < 0.4:
                m["center"] = [rng.uniform(0, W), rng.uniform(0, H)]
            mods.append(m)
        elif r < 0.95 or not terminals:
            s = min(2.0, math.sqrt(amax) / 2)
            s = rng.choice([s, s / 2, round(rng.uniform(0.2, s), 2)])
            x, y = rng.uniform(s, W - s), rng.uniform(s, H - 2 * s)
            rects = [[x, y, 2 * s, s]]
            if rng.random() < 0.6:
                rects.append([x - s / 2, y + s, s, s])
            if rng.random() < 0.3:
                rects.append([x + s / 2, y - s, s, s])
            mods.append({"name": f"H{i}", "kind": "hard", "rects": rects})
        else:
            mods.append({"name": f"T{i}", "kind": "terminal", "center": [rng.choice([0.0, W]), rng.uniform(0, H)]})
    if terminals and not any(m["kind"] == "terminal" for m in mods):
        mods.append({"name": "T99", "kind": "terminal", "center": [rng.choice([0.0, W]), rng.uniform(0, H)]})
    for i in range(nfix):
        bi, bj = rng.randrange(int(W) // 2), rng.randrange(int(H) // 2)
        if (bi, bj) in blocks:
            continue
        blocks.add((bi, bj))
        w, h = rng.choice([1.0, 2.0, 0.5]), rng.choice([1.0, 2.0, 0.5])
        rects = [[2 * bi + w / 2, 2 * bj + h / 2, w, h]]
        if w == 2.0 and h <= 1.0 and rng.random() < 0.5:
            rects.append([2 * bi + 0.5, 2 * bj + h + 0.5, 1.0, 1.0])
        mods.append({"name": f"F{i}", "kind": "fixed", "rects": rects})
    # fixed terminals (I/O pins with a given centre): several, on and off the border; they are fixed nodes of the graph
    for i in range(rng.choice([0, 1, 2, 2, 3, 4])):
        if rng.random() < 0.6:
            x, y = rng.uniform(0, W), rng.uniform(0, H)
            x, y = [(0.0, y), (W, y), (x, 0.0), (x, H), (0.0, 0.0), (W, H)][rng.randrange(6)]
        else:
            x, y = rng.uniform(0, W), rng.uniform(0, H)
        if rng.random() < 0.3:
            x, y = round(x, 1), round(y, 1)
        mods.append({"name": f"P{i}", "kind": "fterminal", "center": [x, y]})
    rng.shuffle(mods)
    names = [m["name"] for m in mods]
    n = len(names)
    nets = []
    order = names[:]
    rng.shuffle(order)
    shape = rng.random()
    for i in range(1, n):  # a spanning tree: connected, every module on a net
        j = i - 1 if shape < 0.3 else (0 if shape < 0.4 else rng.randrange(i))
        e = [order[j], order[i]]
        if rng.random() < 0.4:
            e.append(rng.choice([0.5, 1.0, 2.0, 3.0, round(rng.uniform(0.05, 10), 2)]))
        nets.append(e)
    for _ in range(rng.randint(0, n)):
        k = rng.choice([2, 2, 3, 4, 5])
        pins = rng.sample(names, min(k, n))
        if rng.random() < 0.4:
            pins.append(rng.choice([0.5, 1.0, 2.0, round(rng.uniform(0.05, 10), 2)]))
        nets.append(pins)
    rng.shuffle(nets)
    return {"W": W, "H": H, "mods": mods, "nets": nets}


def scaled(inp: dict, S: float) -> dict:
    """the same design with every length multiplied by S (areas by S^2)."""
    def sa(a):
        return {k: v * S * S for k, v in a.items()} if isinstance(a, dict) else a * S * S
    mods = []
    for m in inp["mods"]:
        m = dict(m)
        if "area" in m:
            m["area"] = sa(m["area"])
        if m.get("center") is not None:
            m["center"] = [m["center"][0] * S, m["center"][1] * S]
        if "rects" in m:
            m["rects"] = [[v * S for v in r] for r in m["rects"]]
        mods.append(m)
    return {"W": inp["W"] * S, "H": inp["H"] * S, "mods": mods, "nets": inp["nets"]}


def gen_huge(rng) -> dict:
    """designs with max(die side) x number of modules >= 1e10: the convergence tolerance of spectral_layout_die
    (epsilon = max(size) * n * 1e-10) is then >= 1 and the power-iteration loop is not entered at all."""
    if rng.random() < 0.75:
        return scaled(gen_instance(rng), float(2 ** 30) * rng.choice([1.0, 2.0, 4.0]))  # e.g. 8 modules on 8.6e9 x 6.4e9
    n = rng.randint(420, 520)  # many small modules on a 2.5e7 x 2e7 die
    W, H = 2.5e7, 2.0e7
    mods = [{"name": f"M{i}", "kind": "soft", "area": rng.uniform(1e9, 4e11)} for i in range(n)]
    for m in rng.sample(mods, 20):
        m["center"] = [rng.uniform(0, W), rng.uniform(0, H)]
    nets = [[f"M{i}", f"M{i + 1}"] for i in range(n - 1)]
    for _ in range(40):
        nets.append([f"M{j}" for j in rng.sample(range(n), rng.randint(2, 4))] + [rng.choice([1.0, 2.0, 0.5])])
    return {"W": W, "H": H, "mods": mods, "nets": nets}



def gen_damping(rng) -> dict:
    """a die of side 1e6..1e9 with one soft module whose span size/2 - radius is about the convergence tolerance
    epsilon = size * n * 1e-10: after normalize all coordinates are of that magnitude, the centroids come out closer together
    than epsilon and the loop takes its `more modest move` branch (spectral_algorithm.py: max - min < epsilon)."""
    n = rng.randint(4, 9)
    S = 10.0 ** rng.uniform(6.0, 9.0)
    eps = S * n * 1e-10
    span = eps * 10.0 ** rng.uniform(-1.2, 0.4)
    mods = [{"name": f"M{i}", "kind": "soft", "area": rng.uniform(0.005, 0.03) * S * S} for i in range(n)]
    r = S / 2 - span
    mods[rng.randrange(n)]["area"] = math.pi * r * r
    names = [m["name"] for m in mods]
    nets = []
    for i in range(1, n):
        e = [names[rng.randrange(i)], names[i]]
        if rng.random() < 0.5:
            e.append(rng.choice([0.5, 1.0, 2.0]))
        nets.append(e)
    return {"W": S, "H": S, "mods": mods, "nets": nets}


def near_filling(inp: dict, W: float, H: float) -> bool:
    """region of finding C14-near-filling-disc: some movable module whose span size/2 - radius is below 1e-3 * size
    in at least one dimension."""
    for m in inp["mods"]:
        if m["kind"] in ("fixed", "fterminal"):
            continue
        if m["kind"] == "soft":
            a = m["area"]
            a = sum(a.values()) if isinstance(a, dict) else a
        elif m["kind"] == "hard":
            a = sum(r[2] * r[3] for r in m["rects"])
        else:
            a = 0.0
        r = math.sqrt(a / math.pi)
        if W / 2 - r < 1e-3 * W or H / 2 - r < 1e-3 * H:
            return True
    return False


def finding_of_raise(inp: dict, exc: Exception, W: float, H: float, first_call: bool = True):
    """attribute a raise of spectral_layout to an open finding ONLY inside that finding's region and signature."""
    if isinstance(exc, (AssertionError, ZeroDivisionError)) and near_filling(inp, W, H):
        return "C14-near-filling-disc"
    if isinstance(exc, AssertionError) and first_call and star_on_one_fixed(inp):
        return "C14-orthogonality-assert"
    return None


def star_on_one_fixed(inp: dict) -> bool:
    """region of finding C14-orthogonality-assert: no net joins two movable modules and all movable modules have one and
    the same fixed module as their only neighbour."""
    fixed = {m["name"] for m in inp["mods"] if m["kind"] in ("fixed", "fterminal")}
    movable = {m["name"] for m in inp["mods"]} - fixed
    nb = {m: set() for m in movable}
    for e in inp["nets"]:
        pins = [x for x in e if isinstance(x, str)]
        for a in pins:
            if a in movable:
                nb[a] |= set(pins) - {a}
    allnb = set().union(*nb.values()) if nb else set()
    return bool(movable) and len(allnb) == 1 and allnb <= fixed and all(nb[m] == allnb for m in movable)


def yaml_text(inp: dict) -> str:
    lines = []
    for m in inp["mods"]:
        k = m["kind"]
        c = "" if m.get("center") is None else f", center: [{m['center'][0]!r}, {m['center'][1]!r}]"
        if k == "soft":
            a = m["area"]
            atxt = repr(a) if not isinstance(a, dict) else "{" + ", ".join(f"{k}: {v!r}" for k, v in a.items()) + "}"
            lines.append(f"  {m['name']}: {{area: {atxt}{c}}}")
        elif k in ("fixed", "hard"):
            lines.append(f"  {m['name']}: {{{k}: true, rectangles: {[[float(v) for v in r] for r in m['rects']]!r}}}")
        elif k == "terminal":
            lines.append(f"  {m['name']}: {{terminal: true{c}}}")
        elif k == "fterminal":
            lines.append(f"  {m['name']}: {{terminal: true, fixed: true{c}}}")
    nets = ", ".join("[" + ", ".join(str(x) if isinstance(x, str) else repr(float(x)) for x in e) + "]" for e in inp["nets"])
    return "Modules: {\n" + ",\n".join(lines) + "\n}\nNets: [" + nets + "]\n"


def note_missing(ctx, what: str) -> None:
    """an internal observation point is not there (renamed / restructured): say so once, never fail."""
    msg = f"observation point {what} not available: internal-stage correspondence skipped; public behaviour still compared"
    if ctx is not None and msg not in ctx.notes:
        ctx.notes.append(msg)
        ctx.extra.setdefault("observation_points_missing", []).append(what)


class Patched:
    """observation hooks for one run, each optional: the values returned by random.uniform (patched in the `random`
    module itself, and under the name `uniform` if spectral_algorithm imported it that way), every result of
    spectral_layout_die as seen from spectral.py, and every call of normalize."""

    def __init__(self, ctx=None):
        self.ctx = ctx

    def __enter__(self):
        self.rec = SimpleNamespace(draws=[])
        self.trials = []
        self.delta_hits = 0
        self.norm_calls = 0
        self._undo = []
        real_uniform = pyrandom.uniform

        def uniform(a, b):
            v = real_uniform(a, b)
            self.rec.draws.append(v)
            return v

        def patch(obj, name, new):
            self._undo.append((obj, name, getattr(obj, name)))
            setattr(obj, name, new)
        patch(pyrandom, "uniform", uniform)
        if callable(getattr(SA, "uniform", None)):
            patch(SA, "uniform", uniform)
        real_norm = getattr(SA, "normalize", None)
        if callable(real_norm):
            def norm(x, max_span, is_fixed, *a, **kw):
                self.norm_calls += 1
                try:
                    if any((not is_fixed[i]) and abs(x[i]) <= 10e-10 for i in range(len(x))):
                        self.delta_hits += 1
                except Exception:
                    pass
                return real_norm(x, max_span, is_fixed, *a, **kw)
            patch(SA, "normalize", norm)
        else:
            note_missing(self.ctx, "spectral_algorithm.normalize (hook)")
        self.sld_hooked = False
        for holder in (SP, SA):
            real = getattr(holder, "spectral_layout_die", None)
            if callable(real):
                def sld(*a, _real=real, _outer=(holder is SP), **kw):
                    r = _real(*a, **kw)
                    if _outer or not getattr(SP, "spectral_layout_die", None):
                        self.trials.append(r)
                    return r
                patch(holder, "spectral_layout_die", sld)
                self.sld_hooked = True
        if not callable(getattr(SP, "spectral_layout_die", None)) and not self.sld_hooked:
            note_missing(self.ctx, "spectral_layout_die (hook)")
        return self

    def __exit__(self, *exc):
        for obj, name, old in reversed(self._undo):
            setattr(obj, name, old)
        return False


def trial_iters(trials) -> list:
    """iteration counts of the recorded trials (best effort: the record is an internal of the run)."""
    try:
        return [list(t[2]) for t in trials]
    except Exception:
        return []


def mods_tokens(spec) -> list[str]:
    t = [str(len(spec.modules))]
    for m in spec.modules:
        c = m.center
        t += ["1" if c is not None else "0", f2hex(c.x if c is not None else 0.0), f2hex(c.y if c is not None else 0.0),
              f2hex(m.area()), "1" if m.is_fixed else "0", "1" if m.is_hard else "0", "1" if m.is_terminal else "0",
              str(len(m.rectangles))]
        for r in m.rectangles:
            t += [f2hex(r.center.x), f2hex(r.center.y), f2hex(r.shape.w), f2hex(r.shape.h)]
    idx = {m.name: i for i, m in enumerate(spec.modules)}
    t.append(str(len(spec.edges)))
    for e in spec.edges:
        t.append(str(len(e.modules)))
        t += [str(idx[b.name]) for b in e.modules]
        t.append(f2hex(e.weight))
    return t


def vec(xs) -> str:
    return f"{len(xs)} " + " ".join(f2hex(x) for x in xs) if len(xs) else "0"


def qvec(xs) -> str:
    return f"{len(xs)} " + " ".join(q2s(x) for x in xs) if len(xs) else "0"


def bools(bs) -> str:
    return f"{len(bs)} " + " ".join("1" if b else "0" for b in bs) if len(bs) else "0"


def adj_tokens(adj) -> str:
    t = [str(len(adj))]
    for es in adj:
        t.append(str(len(es)))
        for e in es:
            t += [str(e.node), f2hex(e.weight)]
    return " ".join(t)


def snapshot(spec):
    mods = [(m.name, sorted(m.area_regions.items()), m.area(), m.is_fixed, m.is_hard, m.is_terminal, m.flip,
             [(r.shape.w, r.shape.h, r.region, r.fixed, r.hard) for r in m.rectangles]) for m in spec.modules]
    nets = [([b.name for b in e.modules], e.weight) for e in spec.edges]
    return mods, nets


def rect_pos(m):
    return [(r.center.x, r.center.y) for r in m.rectangles]


def vclose(a, b, tol) -> bool:
    return len(a) == len(b) and all(x == y or abs(x - y) <= tol for x, y in zip(a, b))


def ulps(a, b, scale):
    return abs(a - b) / math.ulp(max(abs(a), abs(b), scale))


# ------------------------------------------------------------------ full runs
def check_layout_run(ctx: Ctx, inp: dict, judge: bool = True) -> None:
    """Spectral.spectral_layout for one (seed, nfloorplans): clauses (if `judge`) + correspondence."""
    n = len(inp["mods"])
    Rectangle.undefine_epsilon()
    try:
        spec = SP.Spectral(yaml_text(inp))
    except Exception as ex:  # netlist construction is not C14's code: counted, not judged
        ctx.count("build-rejected:" + type(ex).__name__)
        return
    W, H, nf = inp["W"], inp["H"], inp["nfl"]
    size = max(W, H)
    before = snapshot(spec)
    pos0 = {m.name: rect_pos(m) for m in spec.modules}
    c0 = {m.name: (None if m.center is None else (m.center.x, m.center.y)) for m in spec.modules}
    tok0 = mods_tokens(spec)
    radius = {m.name: math.sqrt(m.area() / math.pi) for m in spec.modules}
    pyrandom.seed(inp["seed"])
    exc = None
    with Patched(ctx) as p:
        try:
            if inp.get("verbose"):  # the progress report must not change anything
                import contextlib
                import io
                with contextlib.redirect_stdout(io.StringIO()):
                    spec.spectral_layout(Shape(W, H), nf, True)
            else:
                spec.spectral_layout(Shape(W, H), nf, False)
        except Exception as ex:
            exc = ex
    ctx.case("slayout", (tuple(tok0), W, H, nf, inp["seed"]), True,
             sample={"n": n, "nfl": nf, "seed": inp["seed"], "iters": trial_iters(p.trials)[:2]})
    ctx.extra["normalize_calls_watched"] = ctx.extra.get("normalize_calls_watched", 0) + p.norm_calls
    ctx.extra["normalize_calls_in_delta_region"] = ctx.extra.get("normalize_calls_in_delta_region", 0) + p.delta_hits
    for it in trial_iters(p.trials):
        ctx.count("trial-hit-10000-iterations" if 10000 in it else "trial-converged")
    # ---- model
    req = "F slayout " + " ".join(tok0) + f" {f2hex(W)} {f2hex(H)} {nf} {vec(p.rec.draws)} 10000"
    rep = ctx.model([req])
    if exc is not None:
        if judge:
            ctx.spec_fail("operation-raised", inp, {"op": "Spectral.spectral_layout", "exception": type(exc).__name__, "msg": str(exc)[:120]}, size=n,
                          finding=finding_of_raise(inp, exc, W, H))
        if rep is not None and rep[0] != err_of(exc):
            ctx.disagree("slayout", inp, err_of(exc), rep[0][:200], size=n)
        return
    if rep is not None:
        if rep[0].startswith("err"):
            ctx.disagree("slayout", inp, "returned", rep[0], size=n)
        else:
            parts = rep[0].split(" | ")
            bad = len(parts) != n
            drift = False
            for part, m in zip(parts, spec.modules):
                t = part.split()
                if t[0] == "N":
                    mc, t = None, t[1:]
                else:
                    mc, t = (hex2f(t[1]), hex2f(t[2])), t[3:]
                k = int(t[0])
                mr = [tuple(hex2f(v) for v in t[1 + 4 * i: 5 + 4 * i]) for i in range(k)]
                ic = None if m.center is None else (m.center.x, m.center.y)
                ir = [(r.center.x, r.center.y, r.shape.w, r.shape.h) for r in m.rectangles]
                if (mc is None) != (ic is None) or (mc is not None and not vclose(mc, ic, 1e-9 * size)) or len(mr) != len(ir) or \
                        not all(vclose(a, b, 1e-9 * size) for a, b in zip(mr, ir)):
                    bad = True
                elif mc != ic or mr != ir:
                    drift = True
            if bad:
                ctx.disagree("slayout", inp, str([(m.name, m.center, rect_pos(m)) for m in spec.modules])[:400], rep[0][:400], size=n * 10 + nf)
            elif drift:
                ctx.drift += 1
    if not judge:
        return
    judge_clauses(ctx, inp, spec, W, H, nf, p, before, pos0, c0, radius)


def judge_clauses(ctx: Ctx, inp: dict, spec, W, H, nf, p, before, pos0, c0, radius, doc_fixed=None, tag="layout") -> None:
    """the clauses of C14 on the state of `spec` after one call of spectral_layout(Shape(W, H), nf).
    `pos0` / `c0`: rectangle positions / centres just before the call (rigidity is relative to them);
    `doc_fixed`: name -> (rectangle positions, centre) of the fixed modules IN THE DOCUMENT — when given, fixed modules
    are compared with the document, not with the object's state before the call."""
    n = len(inp["mods"])
    size = max(W, H)
    bc = None
    try:
        if p.trials or p.sld_hooked:
            if len(p.trials) != max(nf, 1):
                ctx.spec_fail(f"{tag}:trial-count", inp, {"trials": len(p.trials)}, size=n)
                return
            best = 0
            for i, t in enumerate(p.trials):
                if t[1] < p.trials[best][1]:
                    best = i
            bc = p.trials[best][0]
            _ = [(bc[0][i], bc[1][i]) for i in range(len(spec.modules))]
    except (AttributeError, TypeError, IndexError, KeyError):  # the trial record has another shape: an internal matter
        bc = None
    if bc is None:
        note_missing(ctx, "per-trial results of spectral_layout_die inside spectral_layout")
    after = snapshot(spec)
    if after != before:
        ctx.spec_fail(f"{tag}:areas-nets-unchanged", inp, {"before": str(before)[:300], "after": str(after)[:300]}, size=n)
    for i, m in enumerate(spec.modules):
        exp_c = None if bc is None else (bc[0][i] + W / 2, bc[1][i] + H / 2)
        tol = 1e-9 * size
        if m.is_fixed:
            ref_pos, ref_c = (pos0[m.name], c0[m.name]) if doc_fixed is None else doc_fixed[m.name]
            if rect_pos(m) != ref_pos:
                ctx.spec_fail(f"{tag}:fixed-unmoved", inp, {"module": m.name, "before": ref_pos, "after": rect_pos(m)}, size=n)
            if m.is_terminal:
                c = m.center
                if c is None or ref_c is None or ulps(c.x, ref_c[0], W / 2) > 4 * (1 if doc_fixed is None else 3) or \
                        ulps(c.y, ref_c[1], H / 2) > 4 * (1 if doc_fixed is None else 3):
                    ctx.spec_fail(f"{tag}:fixed-unmoved", inp, {"module": m.name, "before": ref_c, "after": str(c)}, size=n)
            elif m.center is not None:
                ctx.spec_fail(f"{tag}:hard-centre-dropped", inp, {"module": m.name}, size=n)
            continue
        # movable: where is it?
        if m.is_hard:
            if m.center is not None and not m.is_terminal:
                ctx.spec_fail(f"{tag}:hard-centre-dropped", inp, {"module": m.name}, size=n)
            rs = m.rectangles
            if len(rs) != len(pos0[m.name]) or not rs:
                ctx.spec_fail(f"{tag}:hard-rigid", inp, {"module": m.name, "rects": len(rs)}, size=n)
                continue
            # rigid: one translation vector for all rectangles
            dx = [Fraction(r.center.x) - Fraction(p0[0]) for r, p0 in zip(rs, pos0[m.name])]
            dy = [Fraction(r.center.y) - Fraction(p0[1]) for r, p0 in zip(rs, pos0[m.name])]
            if max(dx) - min(dx) > Fraction(tol) or max(dy) - min(dy) > Fraction(tol):
                ctx.spec_fail(f"{tag}:hard-rigid", inp, {"module": m.name, "dx": [float(v) for v in dx], "dy": [float(v) for v in dy]}, size=n)
            A = sum(Fraction(r.shape.w) * Fraction(r.shape.h) for r in rs)
            px = float(sum(Fraction(r.center.x) * Fraction(r.shape.w) * Fraction(r.shape.h) for r in rs) / A)
            py = float(sum(Fraction(r.center.y) * Fraction(r.shape.w) * Fraction(r.shape.h) for r in rs) / A)
            if exp_c is not None and (abs(px - exp_c[0]) > tol or abs(py - exp_c[1]) > tol):
                ctx.spec_fail(f"{tag}:hard-centroid-is-centre", inp, {"module": m.name, "centroid": [px, py], "centre": list(exp_c)}, size=n)
        else:
            if rect_pos(m) != pos0[m.name]:
                ctx.spec_fail(f"{tag}:soft-rectangles-untouched", inp, {"module": m.name}, size=n)
            c = m.center
            if c is None or (exp_c is not None and (c.x, c.y) != exp_c):
                ctx.spec_fail(f"{tag}:best-of-n", inp, {"module": m.name, "centre": str(c), "expected": None if exp_c is None else list(exp_c),
                                                        "trials": len(p.trials)}, size=n)
                continue
            px, py = c.x, c.y
        r = radius[m.name]
        if not (math.isfinite(px) and math.isfinite(py)):
            ctx.spec_fail(f"{tag}:finite", inp, {"module": m.name, "pos": [px, py]}, size=n)
        elif not (r - tol <= px <= W - r + tol and r - tol <= py <= H - r + tol):
            ctx.spec_fail(f"{tag}:disc-inside-die", inp, {"module": m.name, "pos": [px, py], "radius": r, "die": [W, H],
                                                          "delta_region_calls": p.delta_hits}, size=n,
                          finding="C14-delta-escape" if p.delta_hits > 0 else None)


def gen_repeated(rng) -> dict:
    """a netlist with fixed terminals / blocks in all four quadrants of the die and a history of 2-3 calls of
    spectral_layout on the same object (other die, trial count, seed; a refinement with nfloorplans = 0 when allowed)."""
    inp = gen_instance(rng)
    W, H = inp["W"], inp["H"]
    names = [m["name"] for m in inp["mods"] if m["kind"] not in ("fterminal", "fixed")]
    quads = [(0.75, 0.75), (0.25, 0.75), (0.75, 0.25), (0.25, 0.25)]
    rng.shuffle(quads)
    for k, (qx, qy) in enumerate(quads[:rng.randint(2, 4)]):
        x, y = W * (qx + rng.uniform(-0.2, 0.2)), H * (qy + rng.uniform(-0.2, 0.2))
        if rng.random() < 0.4:
            x = W if qx > 0.5 else 0.0
        nm = f"Q{k}"
        inp["mods"].append({"name": nm, "kind": "fterminal", "center": [x, y]})
        inp["nets"].append([nm] + rng.sample(names, rng.randint(1, min(3, len(names)))) + [rng.choice([1.0, 2.0, 0.5])])
    soft_only = all(m["kind"] in ("soft", "fterminal") for m in inp["mods"])
    # die shapes: the instance is generated for the SMALLEST die (W x H: discs fit, fixed modules inside); the others are larger in
    # one or both dimensions, and the calls take them in RANDOM order — so a later die may be smaller in some dimension than an
    # earlier one (12x12 then 24x6 ...), with the same module areas
    shapes = [(1.0, 1.0), (2.0, 1.0), (1.0, 2.0), (1.5, 1.5), (1.25, 1.0), (1.0, 3.0), (4.0, 1.0)]
    ncalls = rng.randint(2, 3)
    fs = rng.sample(shapes, ncalls + 1)
    calls = []
    for k in range(ncalls):
        fx, fy = fs[k]
        nfl = rng.choice([1, 1, 2])
        if k > 0 and soft_only and rng.random() < 0.4:
            nfl = 0  # refinement from the current centres (allowed: every module has a centre after the first call)
        calls.append({"W": W * fx, "H": H * fy, "nfl": nfl, "seed": rng.randrange(10 ** 6)})
    inp["calls"] = calls
    # a SECOND netlist with the same module areas in the same order (other names, other nets), laid out in the same process on
    # yet another die — before or after the calls above
    ren = {m["name"]: "Z" + m["name"] for m in inp["mods"]}
    tmods = []
    for m in inp["mods"]:
        t = dict(m)
        t["name"] = ren[m["name"]]
        tmods.append(t)
    tnames = [t["name"] for t in tmods]
    order = tnames[:]
    rng.shuffle(order)
    tnets = [[order[rng.randrange(i)], order[i]] + ([rng.choice([0.5, 2.0, 3.0])] if rng.random() < 0.4 else []) for i in range(1, len(order))]
    for _ in range(rng.randint(0, 3)):
        tnets.append(rng.sample(tnames, min(len(tnames), rng.choice([2, 3, 4]))))
    fx, fy = fs[ncalls]
    inp["twin"] = {"W": W * fx, "H": H * fy, "mods": tmods, "nets": tnets, "nfl": rng.choice([1, 2]), "seed": rng.randrange(10 ** 6),
                   "first": rng.random() < 0.5}
    inp["stream"] = "repeated"
    return inp


def check_repeated(ctx: Ctx, inp: dict) -> None:
    """spectral_layout called several times on the SAME Spectral object: every call must satisfy all clauses, fixed
    modules being compared with the document; a later call with nfloorplans > 0 must equal a fresh object's result."""
    n = len(inp["mods"])
    Rectangle.undefine_epsilon()
    try:
        spec = SP.Spectral(yaml_text(inp))
    except Exception as ex:
        ctx.count("build-rejected:" + type(ex).__name__)
        return
    doc_fixed = {}
    for m in inp["mods"]:
        if m["kind"] == "fixed":
            doc_fixed[m["name"]] = ([(float(r[0]), float(r[1])) for r in m["rects"]], None)
        elif m["kind"] == "fterminal":
            doc_fixed[m["name"]] = ([], (float(m["center"][0]), float(m["center"][1])))
    radius = {m.name: math.sqrt(m.area() / math.pi) for m in spec.modules}
    twin = inp.get("twin")
    if twin is not None and twin.get("first"):
        if not run_twin(ctx, inp, twin, spec):
            return
    for k, call in enumerate(inp["calls"]):
        W, H, nf = call["W"], call["H"], call["nfl"]
        before = snapshot(spec)
        pos0 = {m.name: rect_pos(m) for m in spec.modules}
        c0 = {m.name: (None if m.center is None else (m.center.x, m.center.y)) for m in spec.modules}
        pyrandom.seed(call["seed"])
        exc = None
        with Patched(ctx) as p:
            try:
                spec.spectral_layout(Shape(W, H), nf, False)
            except Exception as ex:
                exc = ex
        ctx.case("repeated", (yaml_text(inp), k, W, H, nf, call["seed"]), True)
        ctx.count(f"repeated-call-{k + 1}-nfl{min(nf, 1)}")
        if exc is not None:
            ctx.spec_fail("operation-raised", inp, {"op": f"Spectral.spectral_layout (call #{k + 1} on the same object)",
                                                    "exception": type(exc).__name__, "msg": str(exc)[:120], "call": call}, size=n,
                          finding=finding_of_raise(inp, exc, W, H, first_call=(k == 0)))
            return
        nfail = len(ctx.spec_failures)
        judge_clauses(ctx, inp, spec, W, H, nf, p, before, pos0, c0, radius, doc_fixed=doc_fixed, tag=f"repeated#{k + 1}")
        if len(ctx.spec_failures) > nfail:
            return
        if k > 0 and nf > 0:  # the same arguments on a fresh object
            Rectangle.undefine_epsilon()
            try:
                fresh = SP.Spectral(yaml_text(inp))
                pyrandom.seed(call["seed"])
                fresh.spectral_layout(Shape(W, H), nf, False)
            except Exception as ex:
                ctx.spec_fail(f"repeated#{k + 1}:same-as-fresh-object", inp, {"fresh object raised": type(ex).__name__}, size=n)
                return
            tol = 1e-9 * max(W, H)
            for a, b in zip(spec.modules, fresh.modules):
                ca = None if a.center is None else (a.center.x, a.center.y)
                cb = None if b.center is None else (b.center.x, b.center.y)
                same_c = (ca is None) == (cb is None) and (ca is None or vclose(ca, cb, tol))
                ra, rb = rect_pos(a), rect_pos(b)
                same_r = len(ra) == len(rb) and all(vclose(x, y, tol) for x, y in zip(ra, rb))
                if not (same_c and same_r):
                    ctx.spec_fail(f"repeated#{k + 1}:same-as-fresh-object", inp,
                                  {"module": a.name, "repeated": [ca, ra], "fresh": [cb, rb], "call": call}, size=n)
                    return
    if twin is not None and not twin.get("first"):
        run_twin(ctx, inp, twin, spec)


def run_twin(ctx: Ctx, inp: dict, twin: dict, spec) -> bool:
    """a second netlist with the same module areas (other names, other nets) laid out in the same process on another die: all
    clauses, fixed modules against ITS document."""
    n = len(twin["mods"])
    Rectangle.undefine_epsilon()
    try:
        tw = SP.Spectral(yaml_text(twin))
    except Exception as ex:
        ctx.count("build-rejected(twin):" + type(ex).__name__)
        return True
    if [m.area() for m in tw.modules] != [m.area() for m in spec.modules]:
        ctx.count("twin-areas-differ(not judged as twin)")
    W, H, nf = twin["W"], twin["H"], twin["nfl"]
    doc_fixed = {}
    for m in twin["mods"]:
        if m["kind"] == "fixed":
            doc_fixed[m["name"]] = ([(float(r[0]), float(r[1])) for r in m["rects"]], None)
        elif m["kind"] == "fterminal":
            doc_fixed[m["name"]] = ([], (float(m["center"][0]), float(m["center"][1])))
    radius = {m.name: math.sqrt(m.area() / math.pi) for m in tw.modules}
    before = snapshot(tw)
    pos0 = {m.name: rect_pos(m) for m in tw.modules}
    c0 = {m.name: (None if m.center is None else (m.center.x, m.center.y)) for m in tw.modules}
    pyrandom.seed(twin["seed"])
    exc = None
    with Patched(ctx) as p:
        try:
            tw.spectral_layout(Shape(W, H), nf, False)
        except Exception as ex:
            exc = ex
    ctx.case("repeated", (yaml_text(twin), "twin", W, H, nf, twin["seed"]), True)
    ctx.count("repeated-twin-netlist-" + ("first" if twin.get("first") else "last"))
    if exc is not None:
        ctx.spec_fail("operation-raised", inp, {"op": "Spectral.spectral_layout (second netlist with the same areas, same process)",
                                                "exception": type(exc).__name__, "msg": str(exc)[:120]}, size=n,
                      finding=finding_of_raise(twin, exc, W, H, first_call=True))
        return False
    nfail = len(ctx.spec_failures)
    judge_clauses(ctx, inp, tw, W, H, nf, p, before, pos0, c0, radius, doc_fixed=doc_fixed, tag="twin")
    return len(ctx.spec_failures) == nfail


def check_sld(ctx: Ctx, inp: dict) -> None:
    """spectral_layout_die on the graph of the instance, arbitrary initial coordinates (inp['init'])."""
    n = len(inp["mods"])
    Rectangle.undefine_epsilon()
    try:
        spec = SP.Spectral(yaml_text(inp))
    except Exception as ex:  # netlist construction is not C14's code: counted, not judged
        ctx.count("build-rejected:" + type(ex).__name__)
        return
    W, H = inp["W"], inp["H"]
    # inputs of the public function spectral_layout_die, built from the public netlist API (clique model of the README)
    mods_ = list(spec.modules)
    idx = {m.name: i for i, m in enumerate(mods_)}
    fixed = [bool(m.is_fixed) for m in mods_]
    mass = [float(m.area()) for m in mods_]
    cen = [[(m.center.x if m.center is not None else -1.0) for m in mods_], [(m.center.y if m.center is not None else -1.0) for m in mods_]]
    h_adj = [[] for _ in mods_]
    for e in spec.edges:
        w = 2 * e.weight / len(e.modules)
        for m1, m2 in combinations(e.modules, 2):
            a, b = idx[m1.name], idx[m2.name]
            h_adj[a].append(AdjEdge(b, w))
            h_adj[b].append(AdjEdge(a, w))
    init = [[-1.0 if (v is None and not fixed[i]) else (cen[d][i] if v is None else float(v))
             for i, v in enumerate(inp["init"][d])] for d in range(2)]
    sld_fn = getattr(SA, "spectral_layout_die", None)
    if not callable(sld_fn):
        note_missing(ctx, "spectral_algorithm.spectral_layout_die")
        return
    pyrandom.seed(inp["seed"])
    with Patched(ctx) as p:
        try:
            coord, wl, iters = sld_fn(h_adj, mass, [W, H], init, fixed)
            impl = None
        except Exception as ex:
            impl = err_of(ex)
    req = (f"F sld {adj_tokens(h_adj)} {vec(mass)} {f2hex(W)} {f2hex(H)} {vec(init[0])} {vec(init[1])} "
           f"{bools(fixed)} {vec(p.rec.draws)} 10000")
    ctx.case("sld", req, True)
    net_t = [str(len(spec.edges))]
    for e in spec.edges:
        net_t += [str(len(e.modules))] + [str(idx[b.name]) for b in e.modules] + [f2hex(e.weight)]
    rep2 = ctx.model([req, f"F adj {len(mods_)} " + " ".join(net_t)])
    if rep2 is None:
        return
    rep = rep2[:1]
    # internal stage (optional observation points): the graph the class built for itself vs the model's clique model
    try:
        p_adj, p_mass, p_fixed = getattr(spec, "_adj", None), getattr(spec, "_mass", None), getattr(spec, "_fixed_modules", None)
        ia = None if p_adj is None else [[(int(e.node), float(e.weight)) for e in es] for es in p_adj]
        p_mass = None if p_mass is None else [float(v) for v in p_mass]
        p_fixed = None if p_fixed is None else [bool(v) for v in p_fixed]
    except (AttributeError, TypeError, ValueError):
        ia = p_mass = p_fixed = None
    if ia is None:
        note_missing(ctx, "Spectral._adj")
    else:
        impl_adj = " | ".join(" ".join(f"{a} {f2hex(w)}" for a, w in es) for es in ia)
        ctx.case("adj", impl_adj, True)
        if rep2[1] != impl_adj:
            ma = [[(int(t[i]), hex2f(t[i + 1])) for i in range(0, len(t), 2)] for t in (part.split() for part in rep2[1].split(" | "))] \
                if not rep2[1].startswith("err") else None
            same = ma is not None and len(ma) == len(ia) and all(
                len(a) == len(b) and all(x[0] == y[0] and abs(x[1] - y[1]) <= 1e-12 * max(1.0, abs(y[1])) for x, y in zip(a, b))
                for a, b in zip(ma, ia))
            if same:
                ctx.drift += 1
            else:
                ctx.disagree("adj", inp, str(ia)[:300], rep2[1][:300], size=n)
    if p_mass is None:
        note_missing(ctx, "Spectral._mass")
    elif len(p_mass) != len(mass) or any(abs(a - b) > 1e-12 * max(1.0, abs(b)) for a, b in zip(p_mass, mass)):
        ctx.disagree("mass", inp, p_mass, mass, size=n)
    if p_fixed is None:
        note_missing(ctx, "Spectral._fixed_modules")
    elif p_fixed != fixed:
        ctx.disagree("fixed-flags", inp, p_fixed, fixed, size=n)
    if impl is not None or rep[0].startswith("err"):
        if rep[0] != impl:
            ctx.disagree("sld", inp, impl or "returned", rep[0][:200], size=n)
        return
    for i in range(len(fixed)):
        if fixed[i]:
            for d, sz in ((0, W), (1, H)):
                back = coord[d][i] + sz / 2
                if ulps(back, init[d][i], sz / 2) > 4:
                    ctx.spec_fail("die:fixed-unmoved", inp, {"node": i, "dim": d, "initial": init[d][i], "returned+size/2": back}, size=n)
    # every movable node's disc inside the die, on what spectral_layout_die returned (die-centred coordinates)
    for i in range(len(fixed)):
        if not fixed[i]:
            r_i = math.sqrt(mass[i] / math.pi)
            for d, sz in ((0, W), (1, H)):
                if not abs(coord[d][i]) <= sz / 2 - r_i + 1e-9 * sz:
                    ctx.spec_fail("die:disc-inside-die", inp, {"node": i, "dim": d, "coord": coord[d][i], "radius": r_i, "size": sz,
                                                               "iterations": list(iters)}, size=n)
    ctx.count("sld-loop-not-entered" if list(iters) == [0, 0] else "sld-loop-entered")
    parts = rep[0].split(" | ")
    mx, my = [hex2f(t) for t in parts[0].split()], [hex2f(t) for t in parts[1].split()]
    mwl, mit = hex2f(parts[2]), [int(t) for t in parts[3].split()]
    size = max(W, H)
    same_iters = mit == list(iters)
    if [k == 0 for k in mit] != [k == 0 for k in iters]:  # the loop-entry condition itself (0 iterations vs some)
        ctx.disagree("sld:loop-entry", inp, {"iters": list(iters)}, {"iters": mit}, size=n)
        return
    tol = (1e-9 if same_iters else 1e-7) * size
    if not (vclose(mx, coord[0], tol) and vclose(my, coord[1], tol) and abs(mwl - wl) <= 1e-9 * max(1.0, abs(wl)) * (1 if same_iters else 100)
            and int(parts[4]) == 0):
        ctx.disagree("sld", inp, {"x": coord[0], "y": coord[1], "wl": wl, "iters": iters},
                     {"x": mx, "y": my, "wl": mwl, "iters": mit, "unused_draws": parts[4]}, size=n)
    elif not same_iters or mx != coord[0] or my != coord[1] or mwl != wl:
        ctx.drift += 1



# ------------------------------------------------------------------ best-of-n with scripted trials
def check_best_of_n(ctx: Ctx, fixed_cases=None) -> None:
    """the selection among the trials, driven with scripted trial results (incl. inf / NaN / equal wirelengths): the
    result of spectral_layout_die as seen from spectral.py is replaced by a script; which trial's coordinates end up in the
    module centres (or AssertionError when none has a wirelength below inf) must be the model's `betterTrial` fold and an
    independent first-strict-minimum oracle."""
    rng = ctx.rng
    real = getattr(SP, "spectral_layout_die", None)
    if not callable(real):
        note_missing(ctx, "spectral.spectral_layout_die (scripted trials)")
        return
    text = ("Modules: {A: {area: 1.0}, B: {area: 1.0}, C: {area: 1.0}, D: {area: 2.0}}\n"
            "Nets: [[A, B], [B, C], [C, D], [D, A]]\n")
    cases = []
    for _ in range(0 if fixed_cases is not None else ctx.n(60, 600)):
        k = rng.randint(1, 6)
        pool = [rng.uniform(1, 50), rng.uniform(1, 50), float(rng.randint(1, 4)), float(rng.randint(1, 4)), math.inf, math.nan, -math.inf, 0.0, -1.5]
        wls = [rng.choice(pool) for _ in range(k)]
        if rng.random() < 0.35:
            wls = [w if math.isfinite(w) else float(rng.randint(1, 4)) for w in wls]
        if rng.random() < 0.1:
            wls = [rng.choice([math.inf, math.nan]) for _ in range(k)]
        cases.append(wls)
    if fixed_cases is not None:
        cases = fixed_cases
    reps = ctx.model(["F besttrial " + vec(w) for w in cases])
    for ci, wls in enumerate(cases):
        k = len(wls)
        Rectangle.undefine_epsilon()
        spec = SP.Spectral(text)
        calls = []

        def scripted(adj, mass, size, centers, fixed, _w=wls, _calls=calls):
            i = len(_calls)
            _calls.append(i)
            n = len(mass)
            return [[0.25 * (i + 1)] * n, [-0.125 * (i + 1)] * n], _w[i], [1, 1]
        SP.spectral_layout_die = scripted
        try:
            try:
                spec.spectral_layout(Shape(10.0, 8.0), k, False)
                c = spec.modules[0].center
                got = None if c is None else round((c.x - 5.0) / 0.25) - 1
                impl = "none" if got is None else str(got)
            except Exception as ex:
                impl = err_of(ex)
        finally:
            SP.spectral_layout_die = real
        ctx.case("best-of-n", tuple(f2hex(w) for w in wls), True)
        inp = {"op": "best-of-n", "wls": [f2hex(w) for w in wls]}
        best, best_wl = None, math.inf
        for i, w in enumerate(wls):
            if w < best_wl:
                best, best_wl = i, w
        oracle = "err:AssertionError" if best is None else str(best)
        if len(calls) != k and not impl.startswith("err"):
            ctx.spec_fail("layout:trial-count", inp, {"trials": len(calls), "asked": k}, size=k)
        if impl != oracle:
            if impl.startswith("err") and impl != "err:AssertionError":
                ctx.spec_fail("operation-raised", inp, {"op": "spectral_layout (scripted trials)", "exception": impl}, size=k)
            else:
                ctx.spec_fail("layout:best-of-n", inp, {"kept_trial": impl, "first_strict_minimum": oracle, "wirelengths": wls}, size=k)
        if reps is not None and reps[ci] != impl:
            ctx.disagree("besttrial", inp, impl, reps[ci], size=k)


def add_heavy_net(rng, inp: dict) -> None:
    """one 2-pin net whose weight makes the Manhattan wirelength of every trial overflow to inf (each coordinate and the
    degrees stay finite): no trial is below inf, best_coord stays None."""
    names = [m["name"] for m in inp["mods"] if m["kind"] == "soft"]
    if len(names) >= 2:
        a, b = rng.sample(names, 2)
        inp["nets"].append([a, b, 8e307])


def run_sld(ctx: Ctx, inp: dict) -> None:
    """one `sld` case; with `pre_die` the same graph and masses are laid out on that (larger) die first, in the same process."""
    if inp.get("pre_die"):
        big = dict(inp)
        big["W"], big["H"] = inp["pre_die"]
        big.pop("pre_die")
        check_sld(ctx, big)
    check_sld(ctx, inp)


# ------------------------------------------------------------------ unit ops
def rand_vec(rng, n, scale=5.0, tiny=0.0):
    out = []
    for _ in range(n):
        r = rng.random()
        if r < tiny:
            out.append(rng.choice([0.0, 1e-9, -1e-9, 5e-10, 1.0000001e-9, -3e-12, 2e-9]))
        elif r < 0.1:
            out.append(float(rng.randint(-3, 3)))
        else:
            out.append(rng.uniform(-scale, scale))
    return out


def check_units(ctx: Ctx) -> None:
    rng = ctx.rng
    reqs, exps, kinds, inps = [], [], [], []

    def add(kind, req, exp, inp):
        reqs.append(req); exps.append(exp); kinds.append(kind); inps.append(inp)

    def run_py(f):
        try:
            return f()
        except Exception as ex:
            return err_of(ex)

    for _ in range(ctx.n(80, 600)):
        n = rng.randint(1, 8)
        fixed = [rng.random() < 0.25 for _ in range(n)]
        span = [rng.uniform(0.0, 6.0) if rng.random() < 0.9 else rng.uniform(-1.0, 0.0) for _ in range(n)]
        x = rand_vec(rng, n, tiny=rng.choice([0.0, 0.0, 0.3, 1.0]))
        inp = {"op": "normalize", "x": x, "span": span, "fixed": fixed}

        def f():
            y = list(x)
            SA.normalize(y, span, fixed)
            return y
        add("normalize", f"F normalize {vec(x)} {vec(span)} {bools(fixed)}", run_py(f), inp)
        # exact stream: the Python code runs on Fractions
        xq = [Fraction(rng.randint(-40, 40), rng.choice([1, 2, 3, 7, 10 ** 10])) for _ in range(n)]
        sq = [Fraction(rng.randint(0, 30), rng.choice([1, 2, 5])) for _ in range(n)]

        def g():
            y = list(xq)
            SA.normalize(y, sq, fixed)
            return y
        add("normalizeQ", f"Q normalize {qvec(xq)} {qvec(sq)} {bools(fixed)}", run_py(g),
            {"op": "normalizeQ", "x": [str(v) for v in xq], "span": [str(v) for v in sq], "fixed": fixed})
    for _ in range(ctx.n(50, 400)):
        n = rng.randint(1, 7)
        fixed = [rng.random() < 0.25 for _ in range(n)]
        mass = [0 if fixed[i] else rng.uniform(0.1, 9.0) for i in range(n)]
        dim = rng.choice([1, 2, 2])
        coord = [[1.0] * n] + [rand_vec(rng, n) for _ in range(2)]
        if rng.random() < 0.08:
            coord[1] = [0.0] * n  # den = 0
        inp = {"op": "ortho", "coord": coord, "mass": mass, "dim": dim, "fixed": fixed}

        def f():
            c = [list(r) for r in coord]
            SA.orthogonalize(c, mass, dim, fixed)
            return c[dim]
        add("ortho", f"F ortho 3 {vec(coord[0])} {vec(coord[1])} {vec(coord[2])} {vec([float(m) for m in mass])} {dim} {bools(fixed)}",
            run_py(f), inp)
        v1, v2 = rand_vec(rng, n), rand_vec(rng, n)
        if rng.random() < 0.05:
            v1 = [0.0] * n
        add("andp", f"F andp {vec(v1)} {vec(v2)} {vec([float(m) for m in mass])}",
            run_py(lambda: [SA.abs_norm_dot_product(v1, v2, mass)]), {"op": "andp", "v1": v1, "v2": v2, "w": mass})
        xs = [rng.choice([rng.uniform(-1e3, 1e3), 1e16, -1e16, 1.0, 1e-8, 0.1]) for _ in range(rng.randint(0, 9))]
        add("nsum", f"F nsum {vec(xs)}", [float(sum(xs))], {"op": "nsum", "xs": xs})
    for _ in range(ctx.n(50, 400)):
        n = rng.randint(2, 7)
        adj = [[] for _ in range(n)]
        for _ in range(rng.randint(1, 2 * n)):
            a, b = rng.randrange(n), rng.randrange(n)
            w = rng.choice([1.0, 0.5, rng.uniform(0.1, 4)])
            adj[a].append(AdjEdge(b, w)); adj[b].append(AdjEdge(a, w))
        degree = [sum([e.weight for e in adj[i]]) for i in range(n)]
        coord = rand_vec(rng, n)
        fdeg = [float(d) for d in degree]
        add("centroids", f"F centroids {adj_tokens(adj)} {vec(coord)} {vec(fdeg)}",
            run_py(lambda: list(map(float, SA.calculate_centroids(adj, coord, degree)))),
            {"op": "centroids", "adj": [[(e.node, e.weight) for e in es] for es in adj], "coord": coord})
        c2 = [rand_vec(rng, n), rand_vec(rng, n)]
        add("swl", f"F swl {adj_tokens(adj)} 2 {vec(c2[0])} {vec(c2[1])}", [float(SA.wirelength(adj, c2))],
            {"op": "swl", "adj": [[(e.node, e.weight) for e in es] for es in adj], "coord": c2})
    for _ in range(ctx.n(50, 400)):
        k = rng.randint(0, 4)
        exact = rng.random() < 0.5
        if exact:
            rs = [[Fraction(rng.randint(0, 40), 4), Fraction(rng.randint(0, 40), 4), Fraction(rng.randint(1, 12), 3), Fraction(rng.randint(1, 12), 4)] for _ in range(k)]
            c = (Fraction(rng.randint(0, 50), 7), Fraction(rng.randint(0, 50), 3))
        else:
            rs = [[rng.uniform(0, 10), rng.uniform(0, 10), rng.uniform(0.1, 3), rng.uniform(0.1, 3)] for _ in range(k)]
            c = (rng.uniform(0, 10), rng.uniform(0, 10))
        m = Module("H", hard=True)
        for r in rs:
            pt = Point()
            pt.x, pt.y = r[0], r[1]  # public setters: exact (Fraction) coordinates are allowed through them
            m.add_rectangle(Rectangle(center=pt, shape=Shape(r[2], r[3])))
        cp = Point()
        cp.x, cp.y = c
        m.center = cp

        def f():
            m.recenter_rectangles()
            return [v for r in m.rectangles for v in (r.center.x, r.center.y, r.shape.w, r.shape.h)]
        sc = q2s if exact else f2hex
        req = f"{'Q' if exact else 'F'} recenter {sc(c[0])} {sc(c[1])} {k} " + " ".join(sc(v) for r in rs for v in r)
        add("recenterQ" if exact else "recenter", req, run_py(f), {"op": "recenter", "c": [str(v) for v in c], "rects": [[str(v) for v in r] for r in rs]})
    rep = ctx.model(reqs)
    if rep is None:
        return
    for kind, req, exp, got, inp in zip(kinds, reqs, exps, rep, inps):
        ctx.case(kind, req, True)
        if isinstance(exp, str) or got.startswith("err"):
            if exp != got:
                ctx.disagree(kind, inp, exp, got[:200], size=1)
            continue
        t = got.split()
        if kind == "recenter" or kind == "recenterQ":
            t = t[1:]
        if kind.endswith("Q"):
            if [Fraction(v) for v in t] != [Fraction(v) for v in exp]:
                ctx.disagree(kind, inp, [str(v) for v in exp], got[:300], size=1)
            continue
        vals = [hex2f(v) for v in t]
        scale = max([1.0] + [abs(v) for v in exp if math.isfinite(v)])
        if len(vals) != len(exp) or not all(a == b or abs(a - b) <= 1e-9 * scale or (math.isnan(a) and math.isnan(b)) for a, b in zip(vals, exp)):
            ctx.disagree(kind, inp, exp, vals, size=1)
        elif any(a != b and not (math.isnan(a) and math.isnan(b)) for a, b in zip(vals, exp)):
            ctx.drift += 1


def check_delta_escape(ctx: Ctx) -> None:
    """the |x_i| <= 1e-9 escape, at function level: the post-condition |x'_i| <= span_i is only promised for |x_i| > 1e-9."""
    rng = ctx.rng
    seen_escape = 0
    for _ in range(ctx.n(60, 600)):
        n = rng.randint(2, 6)
        span = [rng.uniform(0.1, 6.0) for _ in range(n)]
        fixed = [rng.random() < 0.2 for _ in range(n)]
        x = [rng.choice([1e-9, -1e-9, 3e-10, 2e-9, -4e-9, 1.5e-9, rng.uniform(-1e-8, 1e-8), rng.uniform(-3, 3)]) for _ in range(n)]
        y = list(x)
        try:
            SA.normalize(y, span, fixed)
        except ValueError:
            continue
        except Exception as ex:
            ctx.spec_fail("operation-raised", {"op": "normalize", "x": x, "span": span, "fixed": fixed}, {"exception": type(ex).__name__}, size=n)
            continue
        ctx.case("delta-probe", (tuple(x), tuple(span), tuple(fixed)), True)
        for i in range(n):
            if fixed[i]:
                if y[i] != x[i]:
                    ctx.spec_fail("normalize:fixed-untouched", {"op": "normalize", "x": x, "span": span, "fixed": fixed}, {"i": i}, size=n)
            elif abs(x[i]) > 10e-10:
                if abs(y[i]) > span[i] * (1 + 1e-12):
                    ctx.spec_fail("normalize:post", {"op": "normalize", "x": x, "span": span, "fixed": fixed},
                                  {"i": i, "x": x[i], "out": y[i], "span": span[i]}, size=n)
            elif abs(y[i]) > span[i]:
                seen_escape += 1
    ctx.extra["delta_escape_witnesses_at_function_level"] = ctx.extra.get("delta_escape_witnesses_at_function_level", 0) + seen_escape


# ------------------------------------------------------------------ entry points
def run(ctx: Ctx) -> None:
    import time
    rng = ctx.rng
    ctx.rule = ("instances: die 5..25 (integer and decimal sizes), 4..7 (thorough 9) movable modules (soft with/without centre, area as a number or split over region types incl. nothing in `_`; hard with 1-3 "
                "rectangles) + 0..3 fixed modules (rectangles) + 0..4 fixed terminals with a centre (on the border, in corners, inside), connected net list (random spanning tree, chain or star + extra nets of arity "
                "2..5, default and explicit weights), every disc fits (12% of the ordinary layout runs give one soft module a disc that fills the die up to a margin k in 0..5e-2); 25-30% of the runs use a huge design (the same scaled by 2^30..2^32, or 420-520 modules on 2.5e7 x 2e7) for which epsilon >= 1 and the loop is not entered; runs: Python `random` seeded per run, nfloorplans 0..3 (0 = use the "
                "given centres), draws captured. Streams: unit ops (normalize F/Q, ortho, andp, nsum, centroids, swl, recenter F/Q), `sld` = "
                "whole spectral_layout_die runs, `slayout` = whole spectral_layout runs (+ a few with movable terminals, correspondence "
                "only), `delta-probe` = normalize on vectors with entries at/below 1e-9; `best-of-n` = spectral_layout with scripted trial results (1..6 trials, wirelengths incl. inf / NaN / -inf / ties): kept trial vs model and first-strict-minimum oracle, AssertionError when none is below inf; every 5th `sld` run is a die of side 1e6..1e9 with one module whose span is ~epsilon (damping branch); every 9th judged `slayout` run gets a net of weight 8e307 (wirelength inf in every trial; correspondence only); every 8th `slayout` run uses verbose=True; `repeated` = 2-3 calls of spectral_layout on the SAME object on dies of DIFFERENT SHAPE taken in random order (W x H, 2W x H, W x 2H, 1.5W x 1.5H, 1.25W x H, W x 3H, 4W x H: a later die may be smaller in one dimension; other trial count / seed, nfloorplans = 0 refinement when every module has a centre) plus, before or after them, a SECOND netlist with the same module areas (other names and nets) on yet another die in the same process; every 4th `sld` instance is run on an enlarged die first and then on its own die on netlists with fixed terminals in all quadrants: every call judged by all clauses with fixed modules compared with the document, later calls compared with a fresh object.")
    ctx.assumptions += [
        "admissible input: >= 4 movable modules, every module on some net, connected, every disc fits the die (radius <= size/2), "
        "fixed modules inside the die; movable terminals are outside the property's quantifier (they make recenter_rectangles divide by zero) "
        "and are exercised for correspondence only",
        "normalize bounds only coordinates with |x_i| > 1e-9 (explicit hypothesis of the theorem); runs are watched for normalize calls in that region",
        "'inside' on the float stream carries a 1e-9*size margin; equality-free in the exact-arithmetic theorem",
        "net weights such that the Manhattan wirelength of a trial is a finite double (a weight of 8e307 makes every trial's wirelength inf: "
        "no trial is below inf and spectral_layout fails `assert best_coord is not None` — modelled (`non_finite_wirelength_asserts`) and "
        "compared, not judged)",
    ]
    for inp in list(getattr(ctx, "seed_inputs", []) or []):
        replay(ctx, {"input": inp})
    check_units(ctx)
    check_delta_escape(ctx)
    check_best_of_n(ctx)
    t0 = time.time()
    budget = 9 if ctx.tier == "quick" else 150
    for i in range(ctx.n(40, 600)):
        if time.time() - t0 > min(budget * ctx.budget, max(budget, 60)):
            ctx.notes.append(f"sld stream stopped by its time budget after {i} runs")
            break
        damp = i % 5 == 1
        inp = gen_damping(rng) if damp else (gen_huge(rng) if rng.random() < 0.3 else gen_instance(rng, big=ctx.tier != "quick"))
        n = len(inp["mods"])
        inp["seed"] = rng.randrange(10 ** 6)
        inp["init"] = [[(None if (damp or rng.random() < 0.6) else rng.uniform(0, inp["W" if d == 0 else "H"])) for _ in range(n)] for d in range(2)]
        inp["stream"] = "sld"
        if damp:
            ctx.count("sld-damping-family(span ~ epsilon)")
        if i % 4 == 2 and not damp:
            # the same graph and masses on a die that is larger in one dimension FIRST, then on its own die (smaller in that dimension)
            big = dict(inp)
            if rng.random() < 0.5:
                big["W"] = inp["W"] * rng.choice([2.0, 1.5, 3.0])
            else:
                big["H"] = inp["H"] * rng.choice([2.0, 1.5, 3.0])
            ctx.count("sld-same-masses-two-dies")
            inp["pre_die"] = [big["W"], big["H"]]
        run_sld(ctx, inp)
    t0 = time.time()
    budget = 9 if ctx.tier == "quick" else 100
    for i in range(ctx.n(12, 300)):
        if time.time() - t0 > min(budget * ctx.budget, max(budget, 40)):
            ctx.notes.append(f"repeated stream stopped by its time budget after {i} instances")
            break
        check_repeated(ctx, gen_repeated(rng))
    t0 = time.time()
    budget = 23 if ctx.tier == "quick" else 450
    for i in range(ctx.n(70, 2000)):
        if time.time() - t0 > min(budget * ctx.budget, max(budget, 150)):
            ctx.notes.append(f"slayout stream stopped by its time budget after {i} runs")
            break
        terminals = rng.random() < 0.1
        inp = gen_instance(rng, big=ctx.tier != "quick", terminals=terminals)
        if not terminals and rng.random() < 0.25:
            inp = gen_huge(rng)
            ctx.count("huge-design(loop not entered)")
        elif not terminals and rng.random() < 0.12:
            # a movable disc that (nearly) fills the die: admissible ("discs fit"), region of C14-near-filling-disc below 1e-3
            soft = [m for m in inp["mods"] if m["kind"] == "soft"]
            if soft:
                k = rng.choice([0.0, 1e-9, 1e-6, 1e-5, 1e-4, 5e-4, 1.5e-3, 3e-3, 1e-2, 5e-2])
                rng.choice(soft)["area"] = math.pi * (min(inp["W"], inp["H"]) / 2) ** 2 * (1 - k)
                ctx.count("near-filling-disc" + ("(in finding region)" if near_filling(inp, inp["W"], inp["H"]) else "(margin >= 1e-3)"))
        inp["seed"] = rng.randrange(10 ** 6)
        inp["nfl"] = rng.choice([1, 1, 2, 3, 5 if ctx.tier != "quick" else 2])
        if rng.random() < 0.15:
            inp["nfl"] = 0
            for m in inp["mods"]:
                if m["kind"] == "soft" and "center" not in m:
                    m["center"] = [rng.uniform(0, inp["W"]), rng.uniform(0, inp["H"])]
        inp["stream"] = "slayout"
        inp["verbose"] = i % 8 == 3
        inp["judge"] = not any(m["kind"] == "terminal" for m in inp["mods"])
        if i % 9 == 4 and inp["judge"] and len(inp["mods"]) < 40:
            add_heavy_net(rng, inp)   # wirelength = inf in every trial: outside the property (finite weights/wirelength assumed)
            inp["judge"] = False
            ctx.count("non-finite-wirelength(correspondence only)")
        ctx.count(f"nfloorplans-{inp['nfl']}")
        ctx.count("mix:" + "".join(sorted({m["kind"][0] for m in inp["mods"]})))
        ctx.count(f"fixed-terminals-{min(3, sum(m['kind'] == 'fterminal' for m in inp['mods']))}{'+' if sum(m['kind'] == 'fterminal' for m in inp['mods']) >= 3 else ''}")
        if any(isinstance(m.get("area"), dict) for m in inp["mods"]):
            ctx.count("has-multi-region-soft-module")
        check_layout_run(ctx, inp, judge=inp["judge"])


def replay(ctx: Ctx, body: dict) -> None:
    inp = body["input"]
    if inp.get("op") == "best-of-n":
        check_best_of_n(ctx, fixed_cases=[[hex2f(w) for w in inp["wls"]]])
        return
    if "op" in inp:
        print("unit-op case; re-run `./check C14` with the same VERIF_SEED to reproduce:", str(inp)[:300])
        if inp["op"] == "normalize" and "x" in inp and not isinstance(inp["x"][0], str):
            y = list(inp["x"])
            try:
                SA.normalize(y, inp["span"], inp["fixed"])
                impl = y
            except Exception as ex:
                impl = err_of(ex)
            rep = ctx.model([f"F normalize {vec(inp['x'])} {vec(inp['span'])} {bools(inp['fixed'])}"])
            got = rep[0] if rep else None
            if got is not None and not isinstance(impl, str) and not got.startswith("err"):
                vals = [hex2f(v) for v in got.split()]
                if not vclose(vals, impl, 1e-9 * max([1.0] + [abs(v) for v in impl])):
                    ctx.disagree("normalize", inp, impl, vals, size=1)
            elif got is not None and got != impl:
                ctx.disagree("normalize", inp, impl, got, size=1)
            for i in range(len(y)):
                if not isinstance(impl, str) and not inp["fixed"][i] and abs(inp["x"][i]) > 10e-10 and abs(y[i]) > inp["span"][i] * (1 + 1e-12):
                    ctx.spec_fail("normalize:post", inp, {"i": i}, size=1)
        return
    if inp.get("stream") == "repeated":
        check_repeated(ctx, inp)
    elif inp.get("stream") == "sld":
        run_sld(ctx, inp)
    else:
        check_layout_run(ctx, inp, judge=inp.get("judge", True))

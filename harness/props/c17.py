"""C17 — Disc-overlap area is total, symmetric, bounded and accurate.

Correspondence: `circle_circle_intersection_area` of the repository vs the Lean model `FV/Model/Disc.lean`
run at `Float` with the C library's pow / acos / sin and a transcription of CPython 3.12's math.hypot (driver
`drv_legal`, op `disc`): same error class, same value (bit-equal is the rule; a difference below the conditioning
of the formula is counted as drift).
Spec on implementation (what cannot be a theorem: the floating-point facts): on every generated pair the call
does not raise, is symmetric, lies in [0, pi*min(r)^2] and is within 1e-5*max(r)^2 of the exact lens area
computed with 60-digit mpmath from the exact distance of the (binary) centres.
"""
from __future__ import annotations

import math

from mpmath import mp, mpf

from vcheck import Ctx, f2hex, hex2f, ulp_nudge
from tools.force.fruchterman_reingold import circle_circle_intersection_area
from tools.force import fruchterman_reingold as FR
from frame.geometry.geometry import Point

mp.dps = 60

LEVEL = "proof (real-number facts) + search (floating-point facts); partial"
DRIVERS = ["drv_legal", "drv_place"]
TRUSTED = [
    "Lean 4.33 kernel; Mathlib lemmas on Real.arccos / Real.sqrt / Real.sin; axioms ⊆ {propext, Classical.choice, Quot.sound}",
    "hand-written model FV/Model/Disc.lean — fidelity to tools/force/fruchterman_reingold.py checked by this correspondence run, not proved",
    "theorems are over ℝ (and, for the clamp, over any linear order with arbitrary rounding); IEEE rounding and the C library's "
    "pow/acos/sin are executed (same libm as CPython), never proved",
    "CPython 3.12's math.hypot (Modules/mathmodule.c: math_hypot + vector_norm) is transcribed by hand into the model "
    "(Disc.pyHypot); bit-equality with math.hypot is what this correspondence run observes (every `disc` case), not proved",
    "'never fails' is claimed for finite centres and finite positive radii whose smaller one is <= 1e150 (generated range; "
    "min(r1, r2)**2 raises OverflowError above 1.34e154, where the disc area is not a double); centre coordinates up to 1e308",
    "mpmath (60 digits) as the oracle for the exact lens area",
    "harness (Python) and compiled Lean driver: parsing, comparison",
]

FLOOR = 4 * 5e-324          # a few subnormal steps: no double can do better below
ACCURACY_FROM = 1e-150      # below, the disc areas themselves (~r^2) approach the subnormal range, where 1e-5*r^2 nears the spacing

FAMILIES = ["ext_tangent", "int_tangent", "equal", "concentric", "nested", "far", "generic", "near_equal", "near_equal",
            "very_far"]


def exact_area(x1, y1, r1, x2, y2, r2):
    """exact lens area of the two discs given by binary floats (60 digits)."""
    dx, dy = mpf(x1) - mpf(x2), mpf(y1) - mpf(y2)
    d = mp.sqrt(dx * dx + dy * dy)
    r1, r2 = mpf(r1), mpf(r2)
    if d >= r1 + r2:
        return mpf(0)
    if d <= abs(r1 - r2):
        return mp.pi * min(r1, r2) ** 2
    a = mp.acos((r1 * r1 + d * d - r2 * r2) / (2 * r1 * d))
    b = mp.acos((r2 * r2 + d * d - r1 * r1) / (2 * r2 * d))
    return r1 * r1 * a + r2 * r2 * b - d * r1 * mp.sin(a)


def exact_area_atan2(x1, y1, r1, x2, y2, r2):
    """the same lens area by an INDEPENDENT route (no acos, no sin): with x = (d² + r1² - r2²)/(2d) the distance from the
    first centre to the chord and y = sqrt(Heron)/(2d) the half chord, the area is r1²·atan2(y, x) + r2²·atan2(y, d - x) - d·y."""
    dx, dy = mpf(x1) - mpf(x2), mpf(y1) - mpf(y2)
    d = mp.sqrt(dx * dx + dy * dy)
    r1, r2 = mpf(r1), mpf(r2)
    if d >= r1 + r2:
        return mpf(0)
    if d <= abs(r1 - r2):
        return mp.pi * min(r1, r2) ** 2
    g = r1 - r2   # exact differences first: d may be 1e-175 of the radii (60 digits would absorb it)
    h = (r1 + r2 - d) * (d + g) * (d - g) * (d + r1 + r2)
    y = mp.sqrt(h) / (2 * d)
    x = (d * d + g * (r1 + r2)) / (2 * d)
    return r1 * r1 * mp.atan2(y, x) + r2 * r2 * mp.atan2(y, d - x) - d * y


def oracle(x1, y1, r1, x2, y2, r2):
    """the exact lens area, computed twice (acos form and atan2 form); the two 60-digit values must agree to 1e-30·R²
    (otherwise the oracle itself is broken: infrastructure error, not a verdict)."""
    a = exact_area_atan2(x1, y1, r1, x2, y2, r2)
    b = exact_area(x1, y1, r1, x2, y2, r2)
    R2 = mpf(max(r1, r2)) ** 2
    if abs(a - b) > mpf(10) ** -30 * R2:
        raise RuntimeError(f"C17 oracles disagree: atan2 form {a}, acos form {b} for {(x1, y1, r1, x2, y2, r2)!r}")
    return a


def call(x1, y1, r1, x2, y2, r2):
    try:
        v = circle_circle_intersection_area(Point(x1, y1), r1, Point(x2, y2), r2)
    except Exception as e:  # noqa: BLE001  (error *class* is the observation)
        return "err:" + type(e).__name__
    return float(v)


def near_equal_case(rng, scale):
    """nearly equal radii (relative gap 1e-12 ... 1e-3) with the centre distance next to one of the two tangencies:
    the difference of the squared radii cancels (findings/C17_near_equal_radii.py)."""
    style = rng.random()
    if style < 0.25:
        r1 = round(rng.uniform(0.1, 9.9), 1) * scale
    elif style < 0.4:
        r1 = rng.randint(1, 64) / 8 * scale
    else:
        r1 = rng.uniform(0.05, 1.0) * scale
    r2 = r1 * (1 - 10.0 ** rng.uniform(-12, -3))
    if r2 == r1:
        r2 = ulp_nudge(r1, -rng.randint(1, 1000))
    gap = abs(r1 - r2)
    kind = rng.choice(["in+rel", "in+rel", "in+ulp", "in+ulp", "ex+ulp", "in+wide", "ex-rel"])
    k = rng.randint(-8, 64)
    if kind == "in+rel":        # just above internal tangency: d = |r1 - r2| (1 + t), t = 1e-10 ... 1e-5
        d = gap * (1 + 10.0 ** rng.uniform(-10, -5))
    elif kind == "in+ulp":      # a few units in the last place of |r1 - r2| (mostly above: the lens branch)
        d = ulp_nudge(gap, k)
    elif kind == "ex+ulp":      # next to external tangency
        d = ulp_nudge(r1 + r2, rng.randint(-64, 8))
    elif kind == "ex-rel":      # just below external tangency
        d = (r1 + r2) * (1 - 10.0 ** rng.uniform(-14, -5))
    else:                       # from the internal tangency up to a proper lens
        d = gap * (1 + 10.0 ** rng.uniform(-5, 4))
    if rng.random() < 0.5:
        r1, r2 = r2, r1
    return r1, r2, abs(d), k, kind


def gen_full_range(rng, fam):
    """radii over the WHOLE range of positive doubles (5e-324 … 1.7e308, subnormals included): the larger radius at any
    scale, the smaller one at most 1e150 (above 1.34e154 `min(r1, r2)**2` is not a double: outside the claim); centre
    distances from 0 to the largest double."""
    DMAX, DMIN = 1.7976931348623157e308, 5e-324
    e = rng.choice([rng.uniform(-323.3, 308.25), rng.uniform(-323.3, -290), rng.uniform(290, 308.25), rng.uniform(150, 308.25)])
    R = min(DMAX, max(DMIN, 10.0 ** min(e, 308.0) * rng.uniform(1.0, 10.0) if e < 308 else DMAX * rng.uniform(0.1, 1.0)))
    style = rng.random()
    if style < 0.35:
        r = R * rng.choice([1.0, rng.uniform(0.05, 1.0), 1 - 10.0 ** rng.uniform(-12, -3)])
    elif style < 0.6:
        r = R * 10.0 ** rng.uniform(-17, -1)
    else:
        r = 10.0 ** rng.uniform(-323.3, min(150.0, math.log10(R)))
    r = min(r, 1e150, R)
    r = max(r, DMIN)
    if fam == "equal" and R <= 1e150:
        r = R
    r1, r2 = (R, r) if rng.random() < 0.5 else (r, R)
    k = rng.randint(-8, 8)
    s_, g_ = r1 + r2, abs(r1 - r2)
    if fam in ("ext_tangent",):
        d = ulp_nudge(s_, k) if s_ < math.inf else DMAX
    elif fam in ("int_tangent", "near_equal"):
        d = ulp_nudge(g_, k) if g_ > 0 else ulp_nudge(0.0, abs(k))
    elif fam == "equal":
        d = rng.choice([0.0, min(DMAX, r1 * rng.uniform(0, 2)), r1 * 10.0 ** rng.uniform(-12, 0)])
    elif fam == "concentric":
        d = 0.0
    elif fam == "nested":
        d = g_ * rng.uniform(0, 1)
    elif fam in ("far", "very_far"):
        d = min(DMAX, s_ * rng.uniform(1.0, 50.0)) if s_ < DMAX / 50 else DMAX * rng.uniform(0.5, 1.0)
    else:
        d = min(DMAX, g_ + (min(s_, DMAX) - g_) * rng.uniform(0, 1))
    d = min(abs(d), DMAX)
    if not math.isfinite(d):
        d = DMAX
    # centres: one at the origin (offsets would overflow / be absorbed at these scales), axis-aligned or rotated
    x1, y1 = 0.0, 0.0
    p = rng.random()
    if p < 0.5:
        x2, y2 = d, 0.0
    elif p < 0.7:
        x2, y2 = 0.0, -d
    else:
        th = rng.uniform(0, 2 * math.pi)
        x2, y2 = d * math.cos(th), d * math.sin(th)
    return {"family": "full_range:" + fam, "k": k, "x1": f2hex(x1), "y1": f2hex(y1), "r1": f2hex(r1),
            "x2": f2hex(x2), "y2": f2hex(y2), "r2": f2hex(r2)}


def gen_case(rng, full_range: float = 0.0):
    fam = rng.choice(FAMILIES + ["ext_tangent", "int_tangent", "equal"])
    u = rng.random()
    if rng.random() < full_range:
        return gen_full_range(rng, fam)
    if u < 0.5:
        scale = 10.0 ** rng.uniform(-6, 6)
    elif u < 0.8:
        scale = 10.0 ** rng.uniform(-160, 150)
    elif u < 0.93:
        scale = 10.0 ** rng.uniform(-160, -140)   # squares and products of the lengths underflow here
    else:
        scale = 10.0 ** rng.uniform(140, 150)
    style = rng.random()
    if style < 0.3:  # short decimals
        r1 = round(rng.uniform(0.1, 9.9), 1) * scale
        r2 = round(rng.uniform(0.1, 9.9), 1) * scale
    elif style < 0.5:  # dyadic
        r1 = rng.randint(1, 64) / 8 * scale
        r2 = rng.randint(1, 64) / 8 * scale
    else:
        r1 = rng.uniform(0.05, 1.0) * scale
        r2 = rng.uniform(0.05, 1.0) * scale
    if fam == "equal" or (fam in ("ext_tangent", "concentric") and rng.random() < 0.2):
        r2 = r1
    elif rng.random() < 0.12:  # a disc that is tiny relative to the other one (down to its last bits)
        r1 = r2 * 10.0 ** rng.uniform(-17, -1)
        if rng.random() < 0.5:
            r1, r2 = r2, r1
    k = rng.randint(-8, 8)
    sub = None
    if fam == "near_equal":
        r1, r2, d, k, sub = near_equal_case(rng, scale)
    elif fam == "very_far":     # centres further apart than the square root of the largest double (Point.norm overflowed)
        d = 10.0 ** rng.uniform(153.5, 307.9)
        if rng.random() < 0.3:
            d = max(d, (r1 + r2) * 10.0 ** rng.uniform(0.5, 100))
    elif fam == "ext_tangent":
        d = ulp_nudge(r1 + r2, k)
    elif fam == "int_tangent":
        d = ulp_nudge(abs(r1 - r2), k) if r1 != r2 else ulp_nudge(0.0, abs(k)) * rng.choice([1.0, 2.0 ** 500, 2.0 ** 1000])
    elif fam == "equal":
        d = rng.choice([0.0, r1 * rng.uniform(0, 2), ulp_nudge(2 * r1, k), r1 * 10.0 ** rng.uniform(-12, 0)])
    elif fam == "concentric":
        d = 0.0
    elif fam == "nested":
        d = abs(r1 - r2) * rng.uniform(0, 1)
    elif fam == "far":
        d = (r1 + r2) * rng.uniform(1.0, 50.0)
    else:
        d = abs(r1 - r2) + (r1 + r2 - abs(r1 - r2)) * rng.uniform(0, 1)
    d = abs(d)
    # place the centres: axis-aligned (the distance is then d up to the rounding of pow) or rotated
    off = rng.choice([0.0, 0.0, scale * rng.uniform(-1000, 1000)])
    if fam == "near_equal" and rng.random() < 0.7:
        off = 0.0               # keep the prescribed distance: it is ~1e-8 of the radii, an offset would round it away
    if fam == "very_far":
        off = rng.choice([0.0, -d / 2, d * rng.uniform(-1, 0)])   # |off| + d stays below the largest double
    x1, y1 = off, rng.choice([0.0, off, scale * rng.uniform(-10, 10)])
    p = rng.random()
    if p < 0.4:
        x2, y2 = x1 + d, y1
    elif p < 0.6:
        x2, y2 = x1, y1 - d
    else:
        th = rng.uniform(0, 2 * math.pi)
        x2, y2 = x1 + d * math.cos(th), y1 + d * math.sin(th)
    if sub is not None:
        fam = fam + ":" + sub
    return {"family": fam, "k": k, "x1": f2hex(x1), "y1": f2hex(y1), "r1": f2hex(r1),
            "x2": f2hex(x2), "y2": f2hex(y2), "r2": f2hex(r2)}


def args_of(inp):
    return tuple(hex2f(inp[k]) for k in ("x1", "y1", "r1", "x2", "y2", "r2"))


def request(inp, swap=False) -> str:
    ks = ("x2", "y2", "r2", "x1", "y1", "r1") if swap else ("x1", "y1", "r1", "x2", "y2", "r2")
    return "F disc " + " ".join(inp[k] for k in ks)


def near_tangent(x1, y1, r1, x2, y2, r2) -> bool:
    d = math.hypot(x1 - x2, y1 - y2)
    R = max(r1, r2)
    return abs(d - (r1 + r2)) <= 1e-3 * R or abs(d - abs(r1 - r2)) <= 1e-3 * R


def spec_on_impl(ctx: Ctx, inp, a, b) -> None:
    x1, y1, r1, x2, y2, r2 = args_of(inp)
    R2 = mpf(max(r1, r2)) ** 2          # exact (the square of a radius above 1.34e154 is not a double)
    size = 0
    if isinstance(a, str):
        ctx.spec_fail("total", inp, {"raises": a}, size)
        return
    if isinstance(b, str):
        ctx.spec_fail("total", inp, {"raises_with_arguments_swapped": b}, size)
        return
    if not (a == a and abs(a) != math.inf):
        ctx.spec_fail("total", inp, {"not_finite": repr(a)}, size)
        return
    if abs(mpf(a) - mpf(b)) > max(mpf(1e-6) * R2, mpf(FLOOR)):
        ctx.spec_fail("symmetric", inp, {"f(1,2)": a, "f(2,1)": b, "allowed": float(mpf(1e-6) * R2)}, size)
    cap = mp.pi * mpf(min(r1, r2)) ** 2
    if a < 0:
        ctx.spec_fail("bounds.nonneg", inp, {"area": a}, size)
    if mpf(a) > cap * (1 + mpf(10) ** -12) + mpf(FLOOR):
        ctx.spec_fail("bounds.smaller_disc", inp, {"area": a, "smaller_disc": float(cap)}, size)
    if max(r1, r2) < ACCURACY_FROM:
        ctx.count("accuracy-not-judged:radius<1e-150")
        return
    ex = oracle(x1, y1, r1, x2, y2, r2)
    if abs(mpf(a) - ex) > mpf(1e-5) * R2:
        ctx.spec_fail("accurate", inp, {"area": a, "exact": mp.nstr(ex, 20), "allowed": mp.nstr(mpf(1e-5) * R2, 8)}, size)


def compare(ctx: Ctx, inp, impl, model: str, op: str) -> None:
    x1, y1, r1, x2, y2, r2 = args_of(inp)
    R = max(r1, r2)
    R2 = R * R if R < 1e154 else math.inf
    if isinstance(impl, str) or model.startswith("err:") or model == "bad-op":
        if impl != model:
            ctx.disagree(op, inp, impl if isinstance(impl, str) else f2hex(impl), model, 0)
        return
    mv = hex2f(model)
    if f2hex(impl) == model or impl == mv:
        return
    tol = max((1e-6 if near_tangent(x1, y1, r1, x2, y2, r2) else 1e-9) * R2, FLOOR)
    if abs(impl - mv) <= tol:
        ctx.drift += 1
    else:
        ctx.disagree(op, inp, f2hex(impl), model, 0)


def process(ctx: Ctx, cases) -> None:
    reqs = []
    for inp in cases:
        reqs.append(request(inp))
        reqs.append(request(inp, swap=True))
    replies = ctx.model(reqs)
    if replies is None:
        ctx.notes.append("model driver unavailable: correspondence not run")
    for n, inp in enumerate(cases):
        x1, y1, r1, x2, y2, r2 = args_of(inp)
        a = call(x1, y1, r1, x2, y2, r2)
        b = call(x2, y2, r2, x1, y1, r1)
        nontrivial = inp["family"] not in ("far", "very_far", "full_range:far", "full_range:very_far")
        ctx.case("disc", tuple(inp[k] for k in ("x1", "y1", "r1", "x2", "y2", "r2")), nontrivial,
                 {"family": inp["family"], "r1": r1, "r2": r2, "d": math.hypot(x1 - x2, y1 - y2), "area": a})
        ctx.count(inp["family"].split(":")[0])
        if ":" in inp["family"] and not inp["family"].startswith("full_range"):
            ctx.count(inp["family"])
        if isinstance(a, float) and not isinstance(b, str):
            if a == 0.0:
                ctx.count("result:zero")
            elif near_tangent(x1, y1, r1, x2, y2, r2):
                ctx.count("result:lens-near-tangent")
            else:
                ctx.count("result:lens-or-disc")
        spec_on_impl(ctx, inp, a, b)
        if replies is not None:
            compare(ctx, inp, a, replies[2 * n], "disc")
            compare(ctx, inp, b, replies[2 * n + 1], "disc-swapped")


class _Rel:
    """stand-in for a centre: drives the body of the function with an exact distance `d` whichever way the code takes it —
    `math.hypot(c1.x - c2.x, c1.y - c2.y)` (hypot(d, 0.0) is d, exactly, for every double) or `(c1 - c2).norm()`."""

    def __init__(self, d, x):
        self.d, self.x, self.y = d, x, 0.0

    def __sub__(self, other):
        return self

    def norm(self):
        return self.d


def call_body(r1, r2, d):
    try:
        v = circle_circle_intersection_area(_Rel(d, d), r1, _Rel(d, 0.0), r2)
    except Exception as e:  # noqa: BLE001
        return "err:" + type(e).__name__
    return float(v)


def exact_body(r1, r2, d):
    return oracle(d, 0.0, r1, 0.0, 0.0, r2)


def body_stream(ctx: Ctx, n: int) -> None:
    """(r1, r2, d) triples given directly: tiny d against huge radii, tiny radius ratios, exact tangencies."""
    rng = ctx.rng
    cases = []
    for _ in range(n):
        scale = 10.0 ** rng.choice([rng.uniform(-6, 6), rng.uniform(-160, 150), rng.uniform(100, 150), rng.uniform(-160, -120)])
        r1 = scale * rng.uniform(0.1, 1.0)
        kind = rng.choice(["tiny-d", "tiny-d", "ratio", "tangent", "lens", "near-equal", "near-equal"])
        if kind == "near-equal":
            r1, r2, d, _, _ = near_equal_case(rng, scale)
        elif kind == "tiny-d":
            r2 = r1
            d = max(5e-324, r1 * 10.0 ** rng.uniform(-330, -280))
        elif kind == "ratio":
            r2 = r1 * 10.0 ** rng.uniform(-17, -14)
            d = ulp_nudge(r1, rng.randint(-3, 3))
        elif kind == "tangent":
            r2 = scale * rng.uniform(0.1, 1.0)
            d = ulp_nudge(rng.choice([r1 + r2, abs(r1 - r2)]), rng.randint(-8, 8))
        else:
            r2 = scale * rng.uniform(0.1, 1.0)
            d = abs(r1 - r2) + (r1 + r2 - abs(r1 - r2)) * rng.random()
        if d <= 0 or r2 <= 0:
            continue
        cases.append((kind, r1, r2, d))
    replies = ctx.model(["F discd %s %s %s" % (f2hex(r1), f2hex(r2), f2hex(d)) for (_, r1, r2, d) in cases])
    for k, (kind, r1, r2, d) in enumerate(cases):
        inp = {"body": True, "family": "body:" + kind, "r1": f2hex(r1), "r2": f2hex(r2), "d": f2hex(d)}
        a = call_body(r1, r2, d)
        b = call_body(r2, r1, d)
        ctx.case("body", (inp["r1"], inp["r2"], inp["d"]), True, None)
        ctx.count("body:" + kind)
        R = max(r1, r2)
        R2 = R * R if R < 1e154 else math.inf
        if isinstance(a, str) or isinstance(b, str):
            ctx.spec_fail("total", inp, {"raises": a if isinstance(a, str) else b}, 0)
        else:
            cap = mp.pi * mpf(min(r1, r2)) ** 2
            if a < 0 or mpf(a) > cap * (1 + mpf(10) ** -12) + mpf(FLOOR):
                ctx.spec_fail("bounds", inp, {"area": a, "smaller_disc": float(cap)}, 0)
            if abs(a - b) > max(1e-6 * R2, FLOOR):
                ctx.spec_fail("symmetric", inp, {"f(1,2)": a, "f(2,1)": b}, 0)
            if max(r1, r2) >= ACCURACY_FROM:
                ex = exact_body(r1, r2, d)
                if abs(mpf(a) - ex) > mpf(1e-5) * mpf(max(r1, r2)) ** 2:
                    ctx.spec_fail("accurate", inp, {"area": a, "exact": float(ex)}, 0)
        if replies is not None:
            m = replies[k]
            if isinstance(a, str) or m.startswith("err:") or m == "bad-op":
                if a != m:
                    ctx.disagree("discd", inp, a if isinstance(a, str) else f2hex(a), m, 0)
            elif f2hex(a) != m and a != hex2f(m):
                if abs(a - hex2f(m)) <= max(1e-6 * R2, FLOOR):
                    ctx.drift += 1
                else:
                    ctx.disagree("discd", inp, f2hex(a), m, 0)


def _die_of(discs_areas, kinds=None):
    """a real Die + Netlist (public API) holding one module per disc — soft (area as given), fixed / hard (one square
    rectangle of that area; the fixed ones on disjoint places inside the die), terminal / fixed terminal (no area) —,
    centres set afterwards (any coordinates, also negative)."""
    from frame.netlist.netlist import Netlist
    from frame.die.die import Die
    from frame.geometry.geometry import Rectangle
    Rectangle.undefine_epsilon()
    kinds = kinds or ["soft"] * len(discs_areas)
    side = [math.sqrt(a) if a > 0 else 0.0 for (_, _, a) in discs_areas]
    big = max([1.0] + side)
    S = max(1000.0, (2 * len(discs_areas) + 3) * big)
    lines = []
    for i, ((_, _, a), k) in enumerate(zip(discs_areas, kinds)):
        if k == "soft":
            lines.append(f"  M{i}: {{area: {a!r}}}")
        elif k in ("fixed", "hard"):
            lines.append(f"  M{i}: {{{k}: true, rectangles: [[{(2 * i + 1.5) * big!r}, {big!r}, {side[i]!r}, {side[i]!r}]]}}")
        elif k == "terminal":
            lines.append(f"  M{i}: {{terminal: true, center: [0.0, {float(i)!r}]}}")
        else:
            lines.append(f"  M{i}: {{terminal: true, fixed: true, center: [0.0, {float(i)!r}]}}")
    nl = Netlist("Modules: {\n" + ",\n".join(lines) + "\n}\n")
    for m, (x, y, _) in zip(nl.modules, discs_areas):
        m.center = Point(x, y)
    return Die(f"{S!r}x{S!r}", nl)


def _caller_judge(ctx: Ctx, inp: dict, die, reply) -> None:
    mods = die.netlist.modules
    n = len(mods)
    try:
        v = float(FR.total_intersection_area(die))
    except Exception as e:  # noqa: BLE001
        ctx.spec_fail("total", inp, {"op": "total_intersection_area", "raises": type(e).__name__}, n)
        return
    rad = [math.sqrt(m.area() / math.pi) for m in mods]          # the radii the code derives from the areas
    exact, allowed = mpf(0), mpf(0)
    for i in range(n):
        for j in range(i + 1, n):
            exact += 2 * oracle(mods[i].center.x, mods[i].center.y, rad[i], mods[j].center.x, mods[j].center.y, rad[j])
            allowed += 2 * mpf(1e-5) * mpf(max(rad[i], rad[j])) ** 2
    if not (v >= 0 and math.isfinite(v)):
        ctx.spec_fail("caller.nonneg", inp, {"total": v}, n)
    if abs(mpf(v) - exact) > allowed:
        ctx.spec_fail("caller.twice-the-pairs", inp, {"total": v, "twice_sum_of_exact_lens_areas": mp.nstr(exact, 20),
                                                      "allowed": mp.nstr(allowed, 8), "kinds": inp.get("kinds")}, n)
    if reply is not None:
        if reply.startswith("err") or reply == "bad-op":
            ctx.disagree("caller", inp, f2hex(v), reply, n)
        elif f2hex(v) != reply and v != hex2f(reply):
            if abs(v - hex2f(reply)) <= 1e-9 * max(1.0, abs(v)):
                ctx.drift += 1
            else:
                ctx.disagree("caller", inp, f2hex(v), reply, n)


def _caller_req(die) -> str:
    mods = die.netlist.modules
    t = [f2hex(8.0), f2hex(6.0), str(len(mods))]
    for m in mods:
        t += ["1", f2hex(m.center.x), f2hex(m.center.y), f2hex(m.area()), "1" if m.is_fixed else "0"]
    t.append("0")
    return "F tia " + " ".join(t)


def caller_stream(ctx: Ctx, n: int) -> None:
    """the caller `total_intersection_area`: 2..6 modules of every kind (soft, fixed, hard, terminal, fixed terminal), several
    of their discs tangent / nested / coincident; the value must be non-negative and equal to twice the sum over unordered
    pairs of the EXACT lens area (60-digit oracle) — fixed and area-less modules included —, each pair within the accuracy the
    property allows; it is also compared with the composition of the two Lean models (drv_place `tia`)."""
    rng = ctx.rng
    if not callable(getattr(FR, "total_intersection_area", None)):
        ctx.notes.append("total_intersection_area not found: caller stream skipped")
        return
    built = []
    for _ in range(n):
        k = rng.randint(2, 6)
        scale = 10.0 ** rng.uniform(-3, 3)
        discs = []
        for i in range(k):
            r = scale * rng.choice([rng.uniform(0.05, 1.0), round(rng.uniform(0.1, 9.9), 1) / 10, rng.randint(1, 8) / 8])
            if i > 0 and rng.random() < 0.6:     # placed relative to an earlier disc: tangent / nested / coincident / lens
                x0, y0, r0 = discs[rng.randrange(i)]
                kind = rng.choice(["ext", "int", "same", "lens", "nested"])
                if kind == "ext":
                    d = ulp_nudge(r + r0, rng.randint(-8, 8))
                elif kind == "int":
                    d = abs(ulp_nudge(abs(r - r0), rng.randint(-8, 8)))
                elif kind == "same":
                    d, r = rng.choice([0.0, r0 * 1e-9]), rng.choice([r, r0])
                elif kind == "nested":
                    d = abs(r - r0) * rng.random()
                else:
                    d = abs(r - r0) + (r + r0 - abs(r - r0)) * rng.random()
                if rng.random() < 0.5:
                    x, y = x0 + d, y0
                else:
                    th = rng.uniform(0, 2 * math.pi)
                    x, y = x0 + d * math.cos(th), y0 + d * math.sin(th)
            else:
                x, y = scale * rng.uniform(-3, 3), scale * rng.uniform(-3, 3)
            discs.append((x, y, r))
        kinds = [rng.choice(["soft", "soft", "fixed", "fixed", "hard", "terminal", "fterminal"]) for _ in range(k)]
        if rng.random() < 0.25:
            kinds = ["soft"] * k
        if not any(kd in ("soft", "fixed", "hard") for kd in kinds):
            kinds[0] = "soft"
        items = [(x, y, 0.0 if kd in ("terminal", "fterminal") else math.pi * r * r) for (x, y, r), kd in zip(discs, kinds)]
        inp = {"caller": True, "family": "caller", "kinds": kinds, "discs": [[f2hex(x), f2hex(y), f2hex(a)] for (x, y, a) in items]}
        try:
            die = _die_of(items, kinds)
        except Exception as e:  # noqa: BLE001   (netlist / die construction is not C17's code)
            ctx.count("caller-build-rejected:" + type(e).__name__)
            continue
        built.append((inp, die))
        for kd in set(kinds):
            ctx.count("caller-has-" + kd)
    replies = ctx.model([_caller_req(die) for _, die in built], exe="drv_place")
    for ci, (inp, die) in enumerate(built):
        ctx.case("caller", (tuple(map(tuple, inp["discs"])), tuple(inp["kinds"])), True, None)
        _caller_judge(ctx, inp, die, None if replies is None else replies[ci])


def replay_caller(ctx: Ctx, inp: dict) -> None:
    items = [(hex2f(x), hex2f(y), hex2f(a)) for x, y, a in inp["discs"]]
    die = _die_of(items, inp.get("kinds"))
    rep = ctx.model([_caller_req(die)], exe="drv_place")
    _caller_judge(ctx, inp, die, None if rep is None else rep[0])


def history_stream(ctx: Ctx, n: int, fixed=None) -> None:
    """object histories: the centres are MUTABLE Point objects that the force stage updates in place (`module.center.x += …`,
    `pos[v].x = …`).  The same Point objects are evaluated, moved in place, and evaluated again with the same radii: every
    answer must be the overlap of the CURRENT coordinates (60-digit oracle) and bit-equal to the answer for freshly built
    Points; interleaved with total_intersection_area on a live netlist whose centres are moved in place between calls."""
    rng = ctx.rng
    scripts = []
    for _ in range(0 if fixed is not None else n):
        scale = 10.0 ** rng.uniform(-3, 3)
        r1 = scale * rng.choice([rng.uniform(0.1, 1.0), 1.0, 0.5])
        r2 = scale * rng.choice([rng.uniform(0.1, 1.0), 1.0, r1 / scale])
        x1, y1 = scale * rng.uniform(-2, 2), scale * rng.uniform(-2, 2)
        steps = []
        for _ in range(rng.randint(2, 6)):
            kind = rng.choice(["lens", "lens", "far", "nested", "same", "ext", "int"])
            if kind == "far":
                d = (r1 + r2) * rng.uniform(1.1, 5)
            elif kind == "nested":
                d = abs(r1 - r2) * rng.random()
            elif kind == "same":
                d = 0.0
            elif kind == "ext":
                d = ulp_nudge(r1 + r2, rng.randint(-4, 4))
            elif kind == "int":
                d = abs(ulp_nudge(abs(r1 - r2), rng.randint(-4, 4)))
            else:
                d = abs(r1 - r2) + (r1 + r2 - abs(r1 - r2)) * rng.uniform(0.05, 0.95)
            th = rng.choice([0.0, math.pi / 2, rng.uniform(0, 2 * math.pi)])
            steps.append([rng.choice(["set2", "set2", "iadd2", "set1", "both"]), d * math.cos(th), d * math.sin(th)])
        scripts.append({"history": True, "family": "history", "r1": f2hex(r1), "r2": f2hex(r2), "x1": f2hex(x1), "y1": f2hex(y1),
                        "steps": [[k, f2hex(a), f2hex(b)] for k, a, b in steps], "extra": rng.randint(0, 3)})
    if fixed is not None:
        scripts = fixed
    for inp in scripts:
        r1, r2, x1, y1 = (hex2f(inp[k]) for k in ("r1", "r2", "x1", "y1"))
        p, q = Point(x1, y1), Point(x1, y1)
        # a live netlist holding the SAME two Point objects as module centres (plus bystanders)
        die = None
        try:
            extra = [(x1 + (i + 1) * 0.7 * r1, y1 - 0.3 * r2 * i, math.pi * (0.5 * r1) ** 2) for i in range(inp.get("extra", 0))]
            die = _die_of([(x1, y1, math.pi * r1 * r1), (x1, y1, math.pi * r2 * r2)] + extra)
            die.netlist.modules[0].center = p
            die.netlist.modules[1].center = q
        except Exception as e:  # noqa: BLE001
            ctx.count("history-build-rejected:" + type(e).__name__)
        ctx.case("history", (inp["r1"], inp["r2"], inp["x1"], inp["y1"], tuple(map(tuple, inp["steps"]))), True, None)
        for si, (kind, a, b) in enumerate(inp["steps"]):
            dx, dy = hex2f(a), hex2f(b)
            if kind == "set1":      # move the FIRST centre so that q - p = (dx, dy)
                p.x = q.x - dx
                p.y = q.y - dy
            elif kind == "iadd2":   # in-place increments, as add_noise does
                q.x += (p.x + dx) - q.x
                q.y += (p.y + dy) - q.y
            elif kind == "both":
                sh = 0.25 * r1
                p.x += sh
                p.y -= sh
                q.x = p.x + dx
                q.y = p.y + dy
            else:
                q.x = p.x + dx
                q.y = p.y + dy
            cur = (p.x, p.y, r1, q.x, q.y, r2)
            for (c1, ra, c2, rb, args) in ((p, r1, q, r2, cur), (q, r2, p, r1, (q.x, q.y, r2, p.x, p.y, r1))):
                try:
                    v = float(circle_circle_intersection_area(c1, ra, c2, rb))
                    fresh = float(circle_circle_intersection_area(Point(args[0], args[1]), ra, Point(args[3], args[4]), rb))
                except Exception as e:  # noqa: BLE001
                    ctx.spec_fail("total", inp, {"step": si, "raises": type(e).__name__}, len(inp["steps"]))
                    break
                ex = oracle(*args)
                R2 = mpf(max(r1, r2)) ** 2
                if abs(mpf(v) - ex) > mpf(1e-5) * R2:
                    ctx.spec_fail("history.accurate-for-current-coordinates", inp,
                                  {"step": si, "area": v, "exact_for_current_coordinates": mp.nstr(ex, 17), "coordinates": list(args)}, len(inp["steps"]))
                if v != fresh:
                    ctx.spec_fail("history.same-as-fresh-points", inp, {"step": si, "same_objects": v, "fresh_objects": fresh,
                                                                        "coordinates": list(args)}, len(inp["steps"]))
            if die is not None:   # the caller on the live netlist (centres moved in place since the last call)
                try:
                    t_live = float(FR.total_intersection_area(die))
                    t_fresh = float(FR.total_intersection_area(_die_of([(m.center.x, m.center.y, m.area()) for m in die.netlist.modules])))
                except Exception as e:  # noqa: BLE001
                    ctx.spec_fail("total", inp, {"step": si, "op": "total_intersection_area", "raises": type(e).__name__}, len(inp["steps"]))
                    continue
                if abs(t_live - t_fresh) > 1e-9 * max(1.0, abs(t_fresh)):
                    ctx.spec_fail("history.caller-same-as-fresh-netlist", inp, {"step": si, "live": t_live, "fresh": t_fresh}, len(inp["steps"]))


CORPUS = [  # the witnesses of findings/C17_acos_domain.py and exact tangencies
    (2.1, 3.7, float.fromhex("0x1.7333333333334p+2")), (4.0, 1.6, float.fromhex("0x1.6666666666664p+2")),
    (3.3, 3.8, float.fromhex("0x1.0000000000003p-1")), (1.0, 1.0, 2.0), (1.0, 1.0, 0.0), (2.0, 1.0, 1.0),
    (2.0, 1.0, 3.0), (0.1, 0.2, 0.30000000000000004), (0.1, 0.2, 0.3), (1e-6, 1e-6, 2e-6), (1e6, 3e5, 7e5),
    # findings/C17_underflow.py
    (9.01165710384412e-171, 1.3105308960428737e-155, 1.3105308960428743e-155), (3e-160, 2e-160, 4e-160),
    (1.5e-170, 1.5e-170, 2e-170), (3e150, 2e150, 4e150), (1e-300, 1e-300, 1e-300),
    # findings/C17_near_equal_radii.py
    (4.476107856162686, 4.476107808596214, 4.756647260599044e-08), (1.0, 0.9999999892856017, 1.0714398308125872e-08),
    (2.999999968365859e-07, 3e-07, 3.1634141139969578e-15), (2.7399764922771456e+26, 2.7399764630784478e+26, 2.9198697788709453e+18),
    # findings/C17_far_overflow.py
    (1.0, 1.0, 2e154), (2.5, 0.5, 2e200), (2e153, 1e153, 1.5e154), (1e150, 1e150, 1.7e308),
]


def run(ctx: Ctx) -> None:
    ctx.rule = ("pairs of discs from 9 families: centre distance within ±8 ulp of r1+r2 (externally tangent) and of |r1-r2| "
                "(internally tangent), equal discs (incl. distance 0 and 2r±ulp), concentric, nested, far apart, generic "
                "lenses; nearly equal radii (r2 = r1(1 - 10^U(-12,-3)), either order) with d = |r1-r2|(1 + 10^U(-10,-5)), "
                "d within -8…+64 ulp of |r1-r2|, within -64…+8 ulp of r1+r2, (r1+r2)(1 - 10^U(-14,-5)) or |r1-r2|(1 + 10^U(-5,4)) "
                "(2 of 13 draws; mostly at the origin so that the prescribed distance survives); very far apart centres "
                "(distance 10^U(153.5, 307.9), where the squared distance is not a double); radii short decimals / dyadic / uniform at scales 1e-6…1e6 (half of the cases), 1e-160…1e150, "
                "1e-160…1e-140 and 1e140…1e150, one disc possibly 1e-17…1e-1 of the other; centres axis-aligned or rotated, at the "
                "origin or offset by up to 1000 radii; every pair is evaluated in both argument orders. A second stream drives the body with exact (r1, r2, d) triples through a stand-in for c1 - c2 (distances down to 5e-324 against radii up to 1e150, radius ratios 1e-17…1e-14, exact tangencies, the nearly-equal-radii family), which reaches the zero-divisor guard. A fourth stream (`history`) keeps the SAME Point objects through 2..6 steps (moved in place by assignment and by +=, lens / far / nested / coincident / ±4 ulp of the tangencies) and re-evaluates with the same radii: every answer vs the oracle for the CURRENT coordinates and bit-equal to fresh Points, interleaved with total_intersection_area on a live netlist holding those Points vs a freshly built netlist. A third stream (`caller`) evaluates total_intersection_area on a real netlist of 2..6 modules of every kind (soft, fixed and hard with a rectangle, terminals and fixed terminals without area; discs tangent / nested / coincident / lens, scales 1e-3..1e3) against twice the sum over unordered pairs of the exact lens area and against the composed Lean models. In the thorough tier 20% (quick 2%) of the pairs take their radii from the WHOLE range of positive doubles (5e-324 … 1.7e308, the smaller one <= 1e150) with centre distances up to the largest double. The exact area is computed twice, by the acos form and by an independent atan2 form, which must agree to 1e-30·R². Far-apart pairs are "
                "trivial; distinct = distinct (centres, radii)")
    cases = []
    full_range = 0.02 if ctx.tier == "quick" else 0.2
    for _ in range(ctx.n(40000, 800000)):
        cases.append(gen_case(ctx.rng, full_range))
    if not getattr(ctx, "seed_inputs", None) and ctx.budget <= 1.0:   # after the generated cases: replays show what the search found
        for r1, r2, d in CORPUS:
            cases.append({"family": "corpus", "k": 0, "x1": f2hex(0.0), "y1": f2hex(0.0), "r1": f2hex(r1),
                          "x2": f2hex(d), "y2": f2hex(0.0), "r2": f2hex(r2)})
    process(ctx, cases)
    body_stream(ctx, ctx.n(6000, 100000))
    caller_stream(ctx, ctx.n(1500, 30000))
    history_stream(ctx, ctx.n(400, 8000))
    ctx.assumptions.append("radii positive and finite, <= 1e150 (the disc area must be a double; min(r1, r2)**2 raises OverflowError "
                           "when the smaller radius exceeds ~1.34e154); centre coordinates: any finite doubles (centre distances up "
                           "to 8e307 are generated); NaN/inf inputs are outside the property")
    ctx.assumptions.append("the 1e-5*r^2 accuracy clause is judged for max(r1, r2) >= 1e-150 only: below, the areas (~r^2 <= 1e-300) "
                           "approach the subnormal range and the allowed error approaches the spacing of subnormal doubles; totality, "
                           "symmetry and bounds are judged at every scale")


def replay(ctx: Ctx, body: dict) -> None:
    inp = body["input"]
    if inp.get("caller"):
        replay_caller(ctx, inp)
        return
    if inp.get("history"):
        history_stream(ctx, 0, fixed=[inp])
        return
    if inp.get("body"):
        r1, r2, d = hex2f(inp["r1"]), hex2f(inp["r2"]), hex2f(inp["d"])
        a = call_body(r1, r2, d)
        rep = ctx.model(["F discd %s %s %s" % (inp["r1"], inp["r2"], inp["d"])])
        if isinstance(a, str):
            ctx.spec_fail("total", inp, {"raises": a}, 0)
        else:
            ex = exact_body(r1, r2, d)
            cap = mp.pi * mpf(min(r1, r2)) ** 2
            if a < 0 or mpf(a) > cap * (1 + mpf(10) ** -12) + mpf(FLOOR):
                ctx.spec_fail("bounds", inp, {"area": a}, 0)
            if max(r1, r2) >= ACCURACY_FROM and abs(mpf(a) - ex) > mpf(1e-5) * mpf(max(r1, r2)) ** 2:
                ctx.spec_fail("accurate", inp, {"area": a, "exact": float(ex)}, 0)
        if rep and (rep[0] != (a if isinstance(a, str) else f2hex(a))):
            ctx.disagree("discd", inp, a if isinstance(a, str) else f2hex(a), rep[0], 0)
        return
    process(ctx, [inp])

"""C04 — netlist write → read round trip preserves the design; writing is repeatable.

Correspondence (model `FV/Model/Netlist.lean`, driver `drv_netlist`):
  * `Netlist(doc)`: verdict + the loaded object (modules, kinds, per-region areas, centres, aspect bounds, rectangles
    with regions / flags / roles, nets) against `parseNetlist`;
  * the TREE the writer hands to the YAML dumper (`dump_yaml_modules` / `dump_yaml_edges`) against `dumpNetlist`
    (type-aware: `True`, `1`, `1.0` differ);
  * the object obtained by loading that tree again, against the model loading the same tree.
Text layer (model `FV/Model/YamlText.lean`, driver mode `T`), on every accepted document:
  * `n.write_yaml()` against `emitText` of the writer's tree, BYTE FOR BYTE (floats enter the model as `repr(x)`);
  * `read_yaml(text)` against `parseText text` (types, key order, float bits of `float(literal)`);
  * small random edits of the text: whenever the model parser accepts one, the real loader must build the same tree
    (the parser answers `none` outside its subset; duplicate keys: the loader raises, the model tree shows them);
  * `read_yaml`'s text / file-name test against `isYamlText` (observed through `FileNotFoundError`).
In addition `safe_load(n.write_yaml())` equals the writer's tree and `safe_load(write_yaml(doc))` equals `doc`.
Spec on the implementation: `Netlist(n.write_yaml())` compared field by field with `n`; second write identical.
"""
from __future__ import annotations

import math
import os

from vcheck import Ctx
import netlist_common as nc
from frame.utils.utils import write_yaml, read_yaml

LEVEL = "proof"
DRIVERS = ["drv_netlist"]
TRUSTED = [
    "Lean 4.33 kernel; Mathlib lemmas; axioms ⊆ {propext, Classical.choice, Quot.sound}",
    "hand-written model FV/Model/Yaml.lean + FV/Model/Netlist.lean — fidelity to frame/netlist/*.py checked by this "
    "correspondence run (object, writer tree, re-read object), not proved",
    "create_stog: the model's STOG step is a parameter; the headline theorems (…_createStog) and the driver use stogC06 = "
    "the C06 model FV/Model/Stog.lean run on the tagged rectangles, for which StogPerm / StogStable are proved "
    "(FV/Proofs/StogInst.lean); fidelity of that model to geometry.py::create_stog is C06's correspondence plus this run "
    "(roles and order of loaded and re-read rectangles are compared)",
    "YAML text layer: modelled for the writer's subset (FV/Model/YamlText.lean: emitText / parseText, theorem "
    "text_parse_emit); fidelity to ruamel.yaml checked on every run (bytes of write_yaml, tree of read_yaml, edited "
    "texts), not proved; outside the subset (flow style, comments, anchors, keys > 122 characters) nothing is claimed",
    "float <-> decimal text (Python repr / float) is a hypothesis of the text theorems (float(repr(x)) == x)",
    "integers: the model's emitInt / parseIntLit are total, CPython refuses str(int) / int(str) beyond 4300 digits "
    "(sys.get_int_max_str_digits; ruamel would raise ValueError): integers of more than 4300 digits are outside the tie",
    "theorems are over exact ordered fields; IEEE rounding is executed (F stream), never proved",
    "harness (Python) and compiled Lean driver: encoding of trees, canonicalisation, comparison",
]

TOL = 1e-9


def _close(a, b, exact: bool) -> bool:
    if a == b:
        return True
    if exact:
        return False
    return abs(float(a) - float(b)) <= TOL * max(1.0, abs(float(a)), abs(float(b)))


def fieldwise(n, n2, exact: bool) -> str | None:
    """the relation ≃ of the property between two implementation netlists; returns the first field that differs.
    Everything the property calls "the same" is compared EXACTLY (bit-identical floats, same number tags): names, kinds,
    per-region areas of soft modules, centres (the centroid is summed with math.fsum, hence independent of the order in
    which create_stog leaves the rectangles), aspect-ratio bounds, rectangles with regions / flags / roles, nets.
    Only the area of a HARD module — a derived number that is never written (sum() of the rectangle areas, taken in the
    new list order after the reload) — is compared with a 1e-9 relative tolerance on the float stream (`exact` = dyadic
    stream: exact there too)."""
    if len(n.modules) != len(n2.modules):
        return "module-count"
    for m, m2 in zip(n.modules, n2.modules):
        if m.name != m2.name:
            return "module-order/name"
        if (m.is_hard, m.is_fixed, m.is_terminal, m.flip) != (m2.is_hard, m2.is_fixed, m2.is_terminal, m2.flip):
            return f"kind({m.name}): hard/fixed/terminal/flip {(m.is_hard, m.is_fixed, m.is_terminal, m.flip)} -> " \
                   f"{(m2.is_hard, m2.is_fixed, m2.is_terminal, m2.flip)}"
        if list(m.area_regions) != list(m2.area_regions):
            return f"area-regions({m.name}): {dict(m.area_regions)} -> {dict(m2.area_regions)}"
        for k in m.area_regions:
            if not _close(m.area_regions[k], m2.area_regions[k], exact or not m.is_hard):
                return f"area-regions({m.name}): {dict(m.area_regions)} -> {dict(m2.area_regions)}"
        if (m.center is None) != (m2.center is None):
            return f"center({m.name}): {m.center} -> {m2.center}"
        if m.center is not None and (m.center.x, m.center.y) != (m2.center.x, m2.center.y):
            return f"center({m.name}): {m.center!r} -> {m2.center!r}"
        a, a2 = m.aspect_ratio, m2.aspect_ratio
        if (a is None) != (a2 is None) or (a is not None and (a.min_wh, a.max_wh) != (a2.min_wh, a2.max_wh)):
            return f"aspect({m.name}): {a} -> {a2}"
        if len(m.rectangles) != len(m2.rectangles):
            return f"rectangle-count({m.name})"
        for r, r2 in zip(m.rectangles, m2.rectangles):
            v, v2 = r.vector_spec, r2.vector_spec
            if v != v2 or [type(x) for x in v] != [type(x) for x in v2]:
                return f"rectangle({m.name}): {v} -> {v2}"
            if (r.fixed, r.hard, r.location) != (r2.fixed, r2.hard, r2.location):
                return f"rectangle-flags/role({m.name}): {(r.fixed, r.hard, r.location.name)} -> " \
                       f"{(r2.fixed, r2.hard, r2.location.name)}"
    if len(n.edges) != len(n2.edges):
        return "net-count"
    for e, e2 in zip(n.edges, n2.edges):
        if [b.name for b in e.modules] != [b.name for b in e2.modules]:
            return "net-members"
        if e.weight != e2.weight or type(e.weight) is not type(e2.weight):
            return f"net-weight: {e.weight!r} -> {e2.weight!r}"
    return None


def spec_roundtrip(doc, eps, mode: str) -> tuple[str, dict] | None:
    """evaluate the property on the implementation for one accepted document; returns (clause, detail) of the first
    failure.  Used both by the run and by the shrinker."""
    st, n = nc.load_impl(doc, eps)
    if st != "ok":
        return None
    tree = nc.impl_tree(n)
    text = n.write_yaml()
    back = nc.safe_load(text)
    if not nc.typed_eq(nc.plain(back), nc.plain(tree)):
        return "text-layer:load(dump(tree))==tree", {"tree": repr(tree)[:600], "loaded": repr(back)[:600]}
    st2, n2 = nc.load_impl(text, eps)
    if st2 != "ok":
        return "roundtrip:reread-rejected", {"error": n2, "text": text[:800]}
    exact = mode == "Q"
    d = fieldwise(n, n2, exact)
    if d is not None:
        return "roundtrip:" + d.split("(")[0].split(":")[0], {"difference": d, "text": text[:800]}
    text2 = n2.write_yaml()
    if text2 != text:       # "writing the reloaded design gives the identical document": string identity, both streams
        return "dump_stable", {"first": text[:600], "second": text2[:600],
                               "first-difference": next((f"{a!r} / {b!r}" for a, b in zip(text.splitlines(), text2.splitlines())
                                                         if a != b), "length")}
    return None


def _trees_close(a, b) -> bool:
    if isinstance(a, dict) and isinstance(b, dict):
        return list(a) == list(b) and all(_trees_close(a[k], b[k]) for k in a)
    if isinstance(a, list) and isinstance(b, list):
        return len(a) == len(b) and all(_trees_close(x, y) for x, y in zip(a, b))
    if isinstance(a, float) and isinstance(b, float):
        return abs(a - b) <= TOL * max(1.0, abs(a), abs(b))
    return type(a) is type(b) and a == b


def one_case(ctx: Ctx, doc, eps, mode: str, reqs: list, todo: list, stream: str) -> None:
    """one document; an unexpected exception of the implementation is a failure of the case, never of the harness."""
    try:
        _one_case(ctx, doc, eps, mode, reqs, todo, stream)
    except Exception as e:
        import traceback
        ctx.spec_fail("operation-raised", nc.make_input(doc, eps, mode),
                      {"exception": repr(e)[:300], "where": traceback.format_exc()[-600:]}, nc.doc_size(doc))


def _one_case(ctx: Ctx, doc, eps, mode: str, reqs: list, todo: list, stream: str) -> None:
    inp = nc.make_input(doc, eps, mode)
    size = nc.doc_size(doc)
    et = nc.eps_tokens(eps, mode)
    st, n = nc.load_impl(doc, eps)
    impl_line = nc.render_impl(n, mode) if st == "ok" else "err:" + n
    if st != "ok" and n != "Assert":
        ctx.spec_fail("operation-raised", inp, {"exception-class": n, "note": "the reader rejects with AssertionError only"}, size)
    reqs.append(f"{mode} load {et} {nc.enc_tree(doc, mode)}")
    todo.append(("load", inp, impl_line, nc.wl_scale(n), size))
    ctx.count("verdict:" + ("accept" if st == "ok" else "reject"))
    nontrivial = st == "ok" and len(n.modules) > 0
    ctx.case(stream, inp["tree"], nontrivial,
             sample={"mode": mode, "doc": inp["doc_repr"][:300], "verdict": st})
    # text layer on the input document itself (any tree the generator can produce)
    if isinstance(doc, dict) and all(isinstance(k, str) for k in doc):
        try:
            back = nc.safe_load(write_yaml(doc))
            if not nc.typed_eq(nc.plain(back), doc):
                ctx.spec_fail("text-layer:load(dump(doc))==doc", inp, {"loaded": repr(back)[:600]}, size)
        except Exception as e:  # the dumper refusing a tree is a text-layer failure too
            ctx.spec_fail("text-layer:load(dump(doc))==doc", inp, {"exception": repr(e)[:300]}, size)
    if st != "ok":
        return
    for m in n.modules:
        kind = "terminal" if m.is_terminal else "fixed" if m.is_fixed else "hard" if m.is_hard else "soft"
        ctx.count("module:" + kind + ("+flip" if m.flip else "") + ("+rects" if m.rectangles and kind == "soft" else ""))
        if kind == "soft":
            ctx.count("area:" + ("ground" if list(m.area_regions) == ["_"] else "regions"))
    # writer's tree vs dumpNetlist
    tree = nc.impl_tree(n)
    reqs.append(f"{mode} dump {et} {nc.enc_tree(doc, mode)}")
    todo.append(("dump", inp, None, tree, size))
    text_layer(ctx, inp, n, tree, size, reqs, todo)
    if ctx.rng.random() < 0.15:
        file_route(ctx, inp, n, eps, mode, size)
    # re-read of the writer's tree: implementation vs model on the same tree
    st3, n3 = nc.load_impl(tree, eps)
    reqs.append(f"{mode} load {et} {nc.enc_tree(tree, mode)}")
    todo.append(("reload-tree", nc.make_input(tree, eps, mode, origin=inp["tree"]),
                 nc.render_impl(n3, mode) if st3 == "ok" else "err:" + n3, nc.wl_scale(n3), size))
    # the property on the implementation
    f = spec_roundtrip(doc, eps, mode)
    if f is not None:
        clause, detail = f
        seen = sum(1 for x in ctx.spec_failures if x["clause"] == clause)
        if seen < 3:    # shrink only the first few failures of a clause (the smallest one is reported)
            small = nc.shrink(doc, lambda d: (spec_roundtrip(d, eps, mode) or ("", None))[0] == clause)
            f2 = spec_roundtrip(small, eps, mode) or f
            ctx.spec_fail(clause, nc.make_input(small, eps, mode), f2[1], nc.doc_size(small))
        else:
            ctx.spec_fail(clause, inp, detail, size)


def load_text(text: str):
    """`read_yaml(text)` → (tree, None) or (None, exception class)."""
    try:
        return read_yaml(text), None
    except Exception as e:
        return None, type(e).__name__


def text_layer(ctx: Ctx, inp, n, tree, size, reqs: list, todo: list) -> None:
    """the emitted text and its reading, against the text model (FV/Model/YamlText.lean)."""
    text = n.write_yaml()
    reqs.append("T emit " + nc.enc_text_tree(tree))
    todo.append(("text-emit", inp, text, None, size))
    reqs.append("T parse " + nc.enc_str(text))
    todo.append(("text-parse", inp, load_text(text), text, size))
    reqs.append("T yamltext " + nc.enc_str(text))
    todo.append(("yamltext", inp, "1", text, size))
    ctx.count("text:written")
    # the COMPOSED reader `loadText` (text model, then float(), then the tree reader) against `Netlist(text)`
    eps = None if inp["eps"] is None else (inp["eps"][0], inp["eps"][1])
    st2, n2 = nc.load_impl(text, eps)
    reqs.append(f"{inp['mode']} loadtext {nc.eps_tokens(eps, inp['mode'])} {nc.enc_str(text)}")
    todo.append(("reload-text", inp, nc.render_impl(n2, inp["mode"]) if st2 == "ok" else "err:" + n2, nc.wl_scale(n2), size))
    if ctx.rng.random() < 0.5:
        for _ in range(3):
            t2 = nc.mutate_text(ctx.rng, text)
            for _ in range(ctx.rng.choice([0, 0, 1, 2])):
                t2 = nc.mutate_text(ctx.rng, t2)
            if t2 != text:
                text_case(ctx, t2, reqs, todo)


def file_route(ctx: Ctx, inp, n, eps, mode: str, size) -> None:
    """the same round trip through a FILE: `n.write_yaml(path)` must put exactly the text `n.write_yaml()` returns into the
    file, and `Netlist(path)` (a string `read_yaml` takes for a file name) must be the same design."""
    import os
    import tempfile
    text = n.write_yaml()
    with tempfile.TemporaryDirectory(prefix="c04_") as d:
        path = os.path.join(d, "netlist.yaml")
        r = n.write_yaml(path)
        with open(path) as f:
            content = f.read()
        if r is not None or content != text:
            ctx.spec_fail("file-route:file-content==write_yaml()", inp, {"returned": repr(r)[:80], "file": content[:400],
                                                                         "text": text[:400]}, size)
            return
        st2, n2 = nc.load_impl(path, eps)
        handle_route(ctx, inp, n, path, eps, mode, size)
    ctx.count("text:file-route")
    if st2 != "ok":
        ctx.spec_fail("file-route:reread-rejected", inp, {"error": n2}, size)
        return
    d = fieldwise(n, n2, mode == "Q")
    if d is not None:
        ctx.spec_fail("file-route:" + d.split("(")[0].split(":")[0], inp, {"difference": d}, size)


def handle_route(ctx: Ctx, inp, n, path: str, eps, mode: str, size) -> None:
    """third documented input of `read_yaml`: an open file handle.  On the tree as found `read_yaml` guards this branch with
    `isinstance(stream, typing.TextIO)`, which no real stream satisfies (findings/C04_read_yaml_handle.py, repair proposed in
    fixes/C04_read_yaml_handle.diff): that refusal is recorded as a note; once repaired the route is held to the property."""
    import traceback
    from frame.geometry.geometry import Rectangle
    from frame.netlist.netlist import Netlist
    nc.set_eps(eps)
    try:
        with open(path) as f:
            n3 = Netlist(f)
    except AssertionError as e:
        last = traceback.extract_tb(e.__traceback__)[-1]
        if last.name == "read_yaml":
            ctx.count("text:handle-route-refused-by-read_yaml")
            msg = ("read_yaml refuses every open file handle (typing.TextIO guard): the handle route of the round trip is not "
                   "checked — findings/C04_read_yaml_handle.py, fixes/C04_read_yaml_handle.diff")
            if msg not in ctx.notes:
                ctx.notes.append(msg)
        else:
            ctx.spec_fail("file-route:handle-reread-rejected", inp, {"error": "AssertionError", "where": last.name}, size)
        return
    except Exception as e:
        ctx.spec_fail("operation-raised", inp, {"exception": repr(e)[:200], "where": "Netlist(open(path))"}, size)
        return
    finally:
        Rectangle.undefine_epsilon()
    ctx.count("text:handle-route")
    d = fieldwise(n, n3, mode == "Q")
    if d is not None:
        ctx.spec_fail("file-route:handle:" + d.split("(")[0].split(":")[0], inp, {"difference": d}, size)


def text_case(ctx: Ctx, text: str, reqs: list, todo: list) -> None:
    """an arbitrary text: if the model parser accepts it the loader must build the same tree."""
    reqs.append("T parse " + nc.enc_str(text))
    todo.append(("text-edited", {"mode": "T", "text": text}, None, text, len(text)))


def generic_tree_cases(ctx: Ctx, reqs: list, todo: list) -> None:
    """the text theorems range over EVERY tree of the subset `wfRoot`, not only netlist-shaped ones: random nestings of
    block mappings / sequences with scalars of every class (reserved words, long identifiers that make the emitter move
    a value to the next line, extreme floats, big integers), written by the real `write_yaml` and read by `read_yaml`."""
    for _ in range(ctx.n(150, 3000)):
        tree = nc.gen_text_tree(ctx.rng)
        inp = {"mode": "T", "kind": "tree", "tree": nc.enc_text_tree(tree)}
        try:
            text = write_yaml(tree)
        except Exception as e:
            ctx.spec_fail("operation-raised", inp, {"exception": repr(e)[:300], "where": "write_yaml(tree)"}, 1)
            continue
        size = len(text)
        reqs.append("T emit " + nc.enc_text_tree(tree))
        todo.append(("text-emit", inp, text, None, size))
        reqs.append("T parse " + nc.enc_str(text))
        todo.append(("text-parse", inp, load_text(text), text, size))
        ctx.case("text-tree", inp["tree"], True, sample={"tree": repr(tree)[:200]})


def yamltext_cases(ctx: Ctx, reqs: list, todo: list) -> None:
    """`read_yaml` decides between YAML text and a file name: the file-name branch is observed as FileNotFoundError on a
    name in a directory that does not exist."""
    alphabet = ["a", "b", "Z", "_", "1", ":", " ", ": ", "\n", " :", "-", "[", "]", ",", ".", "yaml", "{", "}"]
    # the decisive characters at the very START of the string (index 0 / 1) and nowhere else: no directory prefix here
    # (relative names that do not exist: the file-name branch still shows as FileNotFoundError)
    fixed = [": c04_no_such_file", ": ", ":  c04", ": \n", "\n", "\nc04_no_such_file", "\n: ", "a: c04_no_such", "a\n", "a\nb",
             " : c04_no_such", " \n", "x: ", ":c04_no_such_file", ":\n", "c04_no_such_file:", "c04_no_such_file :", "c04_no_such_file",
             "", ":", " ", "c04 no such file", "- c04_no_such", "[c04_no_such]", "c04_no_such_file: ", "c04_no_such_file\n"]
    probes = list(fixed)
    for _ in range(ctx.n(20, 200)):
        probes.append("".join(ctx.rng.choice([": ", "\n", ":", " ", "c04nofile", "_zq"]) for _ in range(ctx.rng.randint(1, 3))))
    for _ in range(ctx.n(40, 400)):
        probes.append("/nonexistent_dir_c04/" + "".join(ctx.rng.choice(alphabet) for _ in range(ctx.rng.randint(0, 8))))
    for s in probes:
        if "\x00" in s or (s and os.path.exists(s)):
            continue
        try:
            read_yaml(s)
            seen = "1"
        except (FileNotFoundError, NotADirectoryError, IsADirectoryError):
            seen = "0"
        except Exception:
            seen = "1"          # the YAML loader ran (and refused the text)
        reqs.append("T yamltext " + nc.enc_str(s))
        todo.append(("yamltext", {"mode": "T", "text": s, "kind": "yamltext"}, seen, s, len(s)))
        ctx.case("yamltext", s, seen == "0", sample={"string": s, "taken-for": "text" if seen == "1" else "file name"})


def compare_text(ctx: Ctx, op, inp, expected, text, size, rep) -> None:
    if op == "yamltext":
        if rep != expected:
            ctx.disagree("read_yaml:text-or-file-name", inp, expected, rep, size)
        return
    if op == "text-emit":
        toks = rep.split()
        if len(toks) != 3 or toks[0] != "ok":
            ctx.disagree("text-emit", inp, expected[:1500], rep[:300], size)
            return
        mine = bytes.fromhex(toks[2][1:]).decode("utf-8")
        if toks[1] != "1":
            ctx.disagree("text-emit:tree-outside-wfRoot", inp, expected[:1500], "wfRoot = false", size)
        elif mine != expected:
            first = next((f"{a!r} / {b!r}" for a, b in zip(expected.splitlines(), mine.splitlines()) if a != b), "length")
            ctx.disagree("text-emit", inp, expected[:1500], mine[:1500] + "  [first difference " + first + "]", size)
        return
    if op == "text-parse":
        loaded, lerr = expected
        if rep == "none" or lerr is not None:
            ctx.disagree("text-parse", inp, f"{lerr or repr(nc.plain(loaded))[:1200]}", rep[:1200], size)
            return
        mt, _ = nc.dec_text_tree(rep.split()[1:], 0)
        d = nc.text_tree_diff(mt, nc.plain(loaded))
        if d:
            ctx.disagree("text-parse", inp, repr(nc.plain(loaded))[:1200], repr(mt)[:1200] + "  [" + d + "]", size)
        return
    # text-edited: only the texts the model accepts are compared
    if rep == "none":
        ctx.count("text-edited:outside-subset")
        return
    mt, _ = nc.dec_text_tree(rep.split()[1:], 0)
    loaded, lerr = load_text(text)
    if lerr == "DuplicateKeyError" and nc.model_tree_has_dup(mt):
        ctx.count("text-edited:duplicate-key")
        return
    ctx.count("text-edited:accepted")
    ctx.case("text-edited", text, True, sample={"text": text[:200]})
    d = f"loader raised {lerr}" if lerr is not None else nc.text_tree_diff(mt, nc.plain(loaded))
    if d:
        ctx.disagree("text-parse:edited-text", inp, lerr or repr(nc.plain(loaded))[:1200], repr(mt)[:1200] + "  [" + d + "]", size)


def compare(ctx: Ctx, todo, replies, mode_of) -> None:
    for (op, inp, impl_line, tree, size), rep in zip(todo, replies):
        if op in ("text-emit", "text-parse", "text-edited", "yamltext"):
            compare_text(ctx, op, inp, impl_line, tree, size, rep)
            continue
        mode = inp["mode"]
        if op in ("load", "reload-tree", "reload-text"):
            model = rep if not rep.startswith("err:Assert") else "err:Assert"
            ok, exact, why = nc.cmp_lines(impl_line, model, mode, TOL, tree if isinstance(tree, float) else 1.0)
            if not ok:
                ctx.disagree(op, inp, impl_line[:2000], rep[:2000] + "  [" + why + "]", size)
            elif not exact:
                ctx.drift += 1
        else:
            if not rep.startswith("ok "):
                ctx.disagree("dump", inp, repr(tree)[:1500], rep[:1500], size)
                continue
            mt, _ = nc.dec_tree(rep.split()[1:], 0, mode)
            diff, exact = nc.tree_diff(tree, mt, TOL)
            if diff:
                ctx.disagree("dump", inp, repr(tree)[:1500], repr(mt)[:1500] + "  [" + diff + "]", size)
            elif not exact:
                ctx.drift += 1


def exhaustive_single_module(ctx: Ctx, reqs, todo) -> None:
    """every subset of the attributes of a one-module document (thorough tier)."""
    import itertools
    attrs = {"area": [3, {"_": 2, "dsp": 1.5}], "center": [[1, 2.5]], "aspect_ratio": [2, [0.5, 2]],
             "fixed": [True, False], "hard": [True, False], "terminal": [True, False], "flip": [True, False],
             "rectangles": [[[2, 2, 4, 2], [1, 4, 2, 2]], [1, 1, 2, 2, "dsp"]]}
    keys = list(attrs)
    cnt = 0
    for r in range(0, len(keys) + 1):
        for sub in itertools.combinations(keys, r):
            for vals in itertools.product(*[attrs[k] for k in sub]):
                for order in ([0], [0, 1])[: 1 + (len(sub) > 1)]:
                    items = list(zip(sub, vals))
                    if order == [0, 1]:
                        items.reverse()
                    doc = {"Modules": {"M": dict(items), "Z": {"area": 1}}, "Nets": [["M", "Z"]]}
                    one_case(ctx, doc, (2.0 ** -30, 2.0 ** -20), "Q", reqs, todo, "exhaustive-1-module")
                    cnt += 1
    ctx.extra["exhaustive_single_module_documents"] = cnt


# hand-written texts at the borders of the text model's subset (compared whenever the model accepts them)
TEXT_CORNERS = [
    "a: \n  1\n", "a:\n  1\n", "a: \n  b: 1\n", "a:\n  1\n  2\n", "a: \n  1\nb: 2\n", "a: \n 1\n", "a: \n1\n", "- a: \n    1\n",
    "a:\n  'x'\n", "a:\n  []\n", "a: \n  - 1\n", "a:  \n  1\n", "a: 1\n  2\n",
    "a: 1\n", "a: 1", "- 1\n- 2\n", "a:\n- 1\n", "a:\n  - 1\n", "a:\n  b: 1\n", "a:\n b: 1\n", "a:\n   b: 1\nc: 2\n",
    "- - 1\n  - 2\n- - 3\n", "- a: 1\n  b: 2\n- c: 3\n", "- a:\n  - 1\n", "- a:\n    - 1\n", "a: []\nb: {}\n", "- []\n- {}\n",
    "true: 1\n", "'true': 1\n", "null: 1\n", "1: 2\n", "1.5: 2\n", ".nan: 1\n", "a: null\n", "a: ~\n", "a: Null\n", "a: nul\n",
    "a: yes\n", "a: y\n", "a: on\n", "a: True\n", "a: FALSE\n", "a: tRUE\n", "a: 012\n", "a: 0\n", "a: -0\n", "a: 00\n", "a: -1\n",
    "a: +1\n", "a: 1e5\n", "a: 1e+5\n", "a: 1E+5\n", "a: 1.0e+5\n", "a: 1.e+5\n", "a: .5\n", "a: 5.\n", "a: 0.5\n", "a: -0.0\n",
    "a: .inf\n", "a: -.inf\n", "a: +.inf\n", "a: .Inf\n", "a: .nan\n", "a: -.nan\n", "a: inf\n", "a: nan\n", "a: 1_000\n",
    "a: 0x10\n", "a: 0o17\n", "a: 1.5.2\n", "a: 1e\n", "a: e5\n", "a: -\n", "a: --1\n", "a: 'x'\n", "a: ''\n", "a: '1'\n",
    "a: 'x\n", "a: x'\n", "a: 'x''y'\n", "a: \"x\"\n", "a:  1\n", "a : 1\n", "a:1\n", "a: 1 \n", " a: 1\n", "a: 1\n b: 2\n",
    "a: 1\nb: 2\n", "a: 1\na: 2\n", "a:\n- 1\nb:\n- 2\n", "a:\n- 1\n  - 2\n", "a:\n- - 1\n- 2\n", "-  1\n", "-1\n", "- \n", "-\n",
    "a:\n", "a:\nb: 1\n", "\n", "", "a: 1\n\n", "\na: 1\n", "# c\na: 1\n", "a: 1 # c\n", "---\na: 1\n", "a: 1\n...\n", "a: [1]\n",
    "a: {b: 1}\n", "? a\n: 1\n", "a: &x 1\n", "a: !!str 1\n", "a: |\n  x\n", "a: b c\n", "a: b\n  c\n", "\ta: 1\n", "a:\t1\n",
    "a: 2024-01-01\n", "a: 12:30\n", "a: <<\n", "<<: 1\n", "a: =\n", "_: _\n", "a: 1\r\n", "é: 1\n", "a: é\n",
]


def run(ctx: Ctx) -> None:
    ctx.rule = ("structured random netlist documents, ≤ 12 modules: soft (scalar / bool / ground-dict / multi-region / "
                "non-ground-only areas, ± centre, ± aspect ratio scalar or pair, ± rectangles in named regions, ± redundant "
                "false flags), hard (hard: true or terminal: false; single / trunk+branches / twin / chain / scattered "
                "rectangles; ± flip), fixed, terminal (± fixed, ± centre, ± rectangles), key order shuffled; nets of 2–5 "
                "members with repeated members and weights absent / 1 / 1.0 / true / int / float; numbers tagged int / float "
                "/ bool; 'Q' stream dyadic (exact, explicit tolerance), 'F' stream decimal / thirds / doubles (tolerance "
                "undefined or explicit); non-trivial = accepted and at least one module; distinct = distinct documents")
    ctx.assumptions = [
        "no assumption about create_stog is left in the headline theorems: StogPerm and StogStable are proved for the C06 "
        "model (stogC06), which is also what the driver executes",
        "the YAML text layer (ruamel dump / safe load) is not modelled: load(dump(tree)) == tree is tested on every sample",
        "exact-field arithmetic in the theorems; on the float stream centres / hard areas recomputed in a different order "
        "are compared with 1e-9 relative tolerance",
        "one process-wide tolerance (Rectangle epsilon) is in force for the write and the read (set or undefined identically "
        "before each load)",
    ]
    n = ctx.n(800, 20000)
    reqs, todo = [], []
    seeds = getattr(ctx, "seed_inputs", None) or []
    for inp in seeds[:50]:
        try:
            doc, eps, mode = nc.read_input(inp)
            one_case(ctx, doc, eps, mode, reqs, todo, "seed")
        except Exception:
            pass
    for i in range(n):
        mode = "Q" if i % 2 == 0 else "F"
        doc = nc.gen_doc(ctx.rng, mode)
        eps = nc.gen_eps(ctx.rng, mode)
        doc, eps, fam = nc.maybe_rescale(ctx.rng, doc, eps, mode)
        ctx.count(fam)
        one_case(ctx, doc, eps, mode, reqs, todo, mode)
    if ctx.tier == "thorough" and ctx.budget <= 1.0:
        exhaustive_single_module(ctx, reqs, todo)
    yamltext_cases(ctx, reqs, todo)
    generic_tree_cases(ctx, reqs, todo)
    for t in TEXT_CORNERS:
        text_case(ctx, t, reqs, todo)
    replies = ctx.model(reqs)
    if replies is None:
        ctx.notes.append("model driver unavailable: correspondence not run")
        return
    compare(ctx, todo, replies, None)


def replay(ctx: Ctx, body: dict) -> None:
    reqs, todo = [], []
    if body["input"].get("mode") == "T":
        if body["input"].get("kind") == "tree":
            tree = nc.text_tree_to_python(nc.dec_text_tree(body["input"]["tree"].split(), 0)[0])
            text = write_yaml(tree)
            reqs.append("T emit " + body["input"]["tree"])
            todo.append(("text-emit", body["input"], text, None, len(text)))
            reqs.append("T parse " + nc.enc_str(text))
            todo.append(("text-parse", body["input"], load_text(text), text, len(text)))
            replies = ctx.model(reqs)
            if replies:
                compare(ctx, todo, replies, None)
            return
        text = body["input"]["text"]
        if body["input"].get("kind") == "yamltext":
            try:
                read_yaml(text)
                seen = "1"
            except (FileNotFoundError, NotADirectoryError):
                seen = "0"
            except Exception:
                seen = "1"
            reqs.append("T yamltext " + nc.enc_str(text))
            todo.append(("yamltext", body["input"], seen, text, len(text)))
        else:
            text_case(ctx, text, reqs, todo)
        replies = ctx.model(reqs)
        if replies:
            compare(ctx, todo, replies, None)
        return
    doc, eps, mode = nc.read_input(body["input"])
    one_case(ctx, doc, eps, mode, reqs, todo, "replay")
    replies = ctx.model(reqs)
    if replies:
        compare(ctx, todo, replies, None)

"""C04 — netlist write → read round trip preserves the design; writing is repeatable.

Correspondence (model `FV/Model/Netlist.lean`, driver `drv_netlist`):
  * `Netlist(doc)`: verdict + the loaded object (modules, kinds, per-region areas, centres, aspect bounds, rectangles
    with regions / flags / roles, nets) against `parseNetlist`;
  * the TREE the writer hands to the YAML dumper (`dump_yaml_modules` / `dump_yaml_edges`) against `dumpNetlist`
    (type-aware: `True`, `1`, `1.0` differ);
  * the object obtained by loading that tree again, against the model loading the same tree.
Text layer (ruamel, tested not proved): `safe_load(n.write_yaml())` equals the writer's tree, and
`safe_load(write_yaml(doc))` equals `doc`, on every sample.
Spec on the implementation: `Netlist(n.write_yaml())` compared field by field with `n`; second write identical.
"""
from __future__ import annotations

import math

from vcheck import Ctx
import netlist_common as nc
from frame.utils.utils import write_yaml

LEVEL = "proof"
DRIVERS = ["drv_netlist"]
TRUSTED = [
    "Lean 4.33 kernel; Mathlib lemmas; axioms ⊆ {propext, Classical.choice, Quot.sound}",
    "hand-written model FV/Model/Yaml.lean + FV/Model/Netlist.lean — fidelity to frame/netlist/*.py checked by this "
    "correspondence run (object, writer tree, re-read object), not proved",
    "create_stog: the model's STOG step is a parameter; the headline theorems (…_createStog) and the driver use stogC06 = "
    "the C06 model FV/Model/Stog.lean run on the tagged rectangles, for which StogPerm / StogStable are proved "
    "(FV/Proofs/StogInst.lean); fidelity of that model to geometry.py::create_stog is C06's correspondence plus this run "
    "(roles and order of loaded and re-read rectangles are compared)",
    "YAML text layer (ruamel.yaml dump/load) is outside the theorem: pinned by load(dump(tree)) == tree on every sample",
    "theorems are over exact ordered fields; IEEE rounding is executed (F stream), never proved",
    "harness (Python) and compiled Lean driver: encoding of trees, canonicalisation, comparison",
]

TOL = 1e-9


def _close(a, b, exact: bool) -> bool:
    if a == b:
        return True
    if exact:
        return False
    return abs(float(a) - float(b)) <= TOL * max(1.0, abs(float(a)), abs(float(b)))


def fieldwise(n, n2, exact: bool) -> str | None:
    """the relation ≃ of the property between two implementation netlists; returns the first field that differs.
    Everything the property calls "the same" is compared EXACTLY (bit-identical floats, same number tags): names, kinds,
    per-region areas of soft modules, centres (the centroid is summed with math.fsum, hence independent of the order in
    which create_stog leaves the rectangles), aspect-ratio bounds, rectangles with regions / flags / roles, nets.
    Only the area of a HARD module — a derived number that is never written (sum() of the rectangle areas, taken in the
    new list order after the reload) — is compared with a 1e-9 relative tolerance on the float stream (`exact` = dyadic
    stream: exact there too)."""
    if len(n.modules) != len(n2.modules):
        return "module-count"
    for m, m2 in zip(n.modules, n2.modules):
        if m.name != m2.name:
            return "module-order/name"
        if (m.is_hard, m.is_fixed, m.is_terminal, m.flip) != (m2.is_hard, m2.is_fixed, m2.is_terminal, m2.flip):
            return f"kind({m.name}): hard/fixed/terminal/flip {(m.is_hard, m.is_fixed, m.is_terminal, m.flip)} -> " \
                   f"{(m2.is_hard, m2.is_fixed, m2.is_terminal, m2.flip)}"
        if list(m.area_regions) != list(m2.area_regions):
            return f"area-regions({m.name}): {dict(m.area_regions)} -> {dict(m2.area_regions)}"
        for k in m.area_regions:
            if not _close(m.area_regions[k], m2.area_regions[k], exact or not m.is_hard):
                return f"area-regions({m.name}): {dict(m.area_regions)} -> {dict(m2.area_regions)}"
        if (m.center is None) != (m2.center is None):
            return f"center({m.name}): {m.center} -> {m2.center}"
        if m.center is not None and (m.center.x, m.center.y) != (m2.center.x, m2.center.y):
            return f"center({m.name}): {m.center!r} -> {m2.center!r}"
        a, a2 = m.aspect_ratio, m2.aspect_ratio
        if (a is None) != (a2 is None) or (a is not None and (a.min_wh, a.max_wh) != (a2.min_wh, a2.max_wh)):
            return f"aspect({m.name}): {a} -> {a2}"
        if len(m.rectangles) != len(m2.rectangles):
            return f"rectangle-count({m.name})"
        for r, r2 in zip(m.rectangles, m2.rectangles):
            v, v2 = r.vector_spec, r2.vector_spec
            if v != v2 or [type(x) for x in v] != [type(x) for x in v2]:
                return f"rectangle({m.name}): {v} -> {v2}"
            if (r.fixed, r.hard, r.location) != (r2.fixed, r2.hard, r2.location):
                return f"rectangle-flags/role({m.name}): {(r.fixed, r.hard, r.location.name)} -> " \
                       f"{(r2.fixed, r2.hard, r2.location.name)}"
    if len(n.edges) != len(n2.edges):
        return "net-count"
    for e, e2 in zip(n.edges, n2.edges):
        if [b.name for b in e.modules] != [b.name for b in e2.modules]:
            return "net-members"
        if e.weight != e2.weight or type(e.weight) is not type(e2.weight):
            return f"net-weight: {e.weight!r} -> {e2.weight!r}"
    return None


def spec_roundtrip(doc, eps, mode: str) -> tuple[str, dict] | None:
    """evaluate the property on the implementation for one accepted document; returns (clause, detail) of the first
    failure.  Used both by the run and by the shrinker."""
    st, n = nc.load_impl(doc, eps)
    if st != "ok":
        return None
    tree = nc.impl_tree(n)
    text = n.write_yaml()
    back = nc.safe_load(text)
    if not nc.typed_eq(nc.plain(back), nc.plain(tree)):
        return "text-layer:load(dump(tree))==tree", {"tree": repr(tree)[:600], "loaded": repr(back)[:600]}
    st2, n2 = nc.load_impl(text, eps)
    if st2 != "ok":
        return "roundtrip:reread-rejected", {"error": n2, "text": text[:800]}
    exact = mode == "Q"
    d = fieldwise(n, n2, exact)
    if d is not None:
        return "roundtrip:" + d.split("(")[0].split(":")[0], {"difference": d, "text": text[:800]}
    text2 = n2.write_yaml()
    if text2 != text:       # "writing the reloaded design gives the identical document": string identity, both streams
        return "dump_stable", {"first": text[:600], "second": text2[:600],
                               "first-difference": next((f"{a!r} / {b!r}" for a, b in zip(text.splitlines(), text2.splitlines())
                                                         if a != b), "length")}
    return None


def _trees_close(a, b) -> bool:
    if isinstance(a, dict) and isinstance(b, dict):
        return list(a) == list(b) and all(_trees_close(a[k], b[k]) for k in a)
    if isinstance(a, list) and isinstance(b, list):
        return len(a) == len(b) and all(_trees_close(x, y) for x, y in zip(a, b))
    if isinstance(a, float) and isinstance(b, float):
        return abs(a - b) <= TOL * max(1.0, abs(a), abs(b))
    return type(a) is type(b) and a == b


def one_case(ctx: Ctx, doc, eps, mode: str, reqs: list, todo: list, stream: str) -> None:
    """one document; an unexpected exception of the implementation is a failure of the case, never of the harness."""
    try:
        _one_case(ctx, doc, eps, mode, reqs, todo, stream)
    except Exception as e:
        import traceback
        ctx.spec_fail("operation-raised", nc.make_input(doc, eps, mode),
                      {"exception": repr(e)[:300], "where": traceback.format_exc()[-600:]}, nc.doc_size(doc))


def _one_case(ctx: Ctx, doc, eps, mode: str, reqs: list, todo: list, stream: str) -> None:
    inp = nc.make_input(doc, eps, mode)
    size = nc.doc_size(doc)
    et = nc.eps_tokens(eps, mode)
    st, n = nc.load_impl(doc, eps)
    impl_line = nc.render_impl(n, mode) if st == "ok" else "err:" + n
    if st != "ok" and n != "Assert":
        ctx.spec_fail("operation-raised", inp, {"exception-class": n, "note": "the reader rejects with AssertionError only"}, size)
    reqs.append(f"{mode} load {et} {nc.enc_tree(doc, mode)}")
    todo.append(("load", inp, impl_line, nc.wl_scale(n), size))
    ctx.count("verdict:" + ("accept" if st == "ok" else "reject"))
    nontrivial = st == "ok" and len(n.modules) > 0
    ctx.case(stream, inp["tree"], nontrivial,
             sample={"mode": mode, "doc": inp["doc_repr"][:300], "verdict": st})
    # text layer on the input document itself (any tree the generator can produce)
    if isinstance(doc, dict) and all(isinstance(k, str) for k in doc):
        try:
            back = nc.safe_load(write_yaml(doc))
            if not nc.typed_eq(nc.plain(back), doc):
                ctx.spec_fail("text-layer:load(dump(doc))==doc", inp, {"loaded": repr(back)[:600]}, size)
        except Exception as e:  # the dumper refusing a tree is a text-layer failure too
            ctx.spec_fail("text-layer:load(dump(doc))==doc", inp, {"exception": repr(e)[:300]}, size)
    if st != "ok":
        return
    for m in n.modules:
        kind = "terminal" if m.is_terminal else "fixed" if m.is_fixed else "hard" if m.is_hard else "soft"
        ctx.count("module:" + kind + ("+flip" if m.flip else "") + ("+rects" if m.rectangles and kind == "soft" else ""))
        if kind == "soft":
            ctx.count("area:" + ("ground" if list(m.area_regions) == ["_"] else "regions"))
    # writer's tree vs dumpNetlist
    tree = nc.impl_tree(n)
    reqs.append(f"{mode} dump {et} {nc.enc_tree(doc, mode)}")
    todo.append(("dump", inp, None, tree, size))
    # re-read of the writer's tree: implementation vs model on the same tree
    st3, n3 = nc.load_impl(tree, eps)
    reqs.append(f"{mode} load {et} {nc.enc_tree(tree, mode)}")
    todo.append(("reload-tree", nc.make_input(tree, eps, mode, origin=inp["tree"]),
                 nc.render_impl(n3, mode) if st3 == "ok" else "err:" + n3, nc.wl_scale(n3), size))
    # the property on the implementation
    f = spec_roundtrip(doc, eps, mode)
    if f is not None:
        clause, detail = f
        seen = sum(1 for x in ctx.spec_failures if x["clause"] == clause)
        if seen < 3:    # shrink only the first few failures of a clause (the smallest one is reported)
            small = nc.shrink(doc, lambda d: (spec_roundtrip(d, eps, mode) or ("", None))[0] == clause)
            f2 = spec_roundtrip(small, eps, mode) or f
            ctx.spec_fail(clause, nc.make_input(small, eps, mode), f2[1], nc.doc_size(small))
        else:
            ctx.spec_fail(clause, inp, detail, size)


def compare(ctx: Ctx, todo, replies, mode_of) -> None:
    for (op, inp, impl_line, tree, size), rep in zip(todo, replies):
        mode = inp["mode"]
        if op in ("load", "reload-tree"):
            model = rep if not rep.startswith("err:Assert") else "err:Assert"
            ok, exact, why = nc.cmp_lines(impl_line, model, mode, TOL, tree if isinstance(tree, float) else 1.0)
            if not ok:
                ctx.disagree(op, inp, impl_line[:2000], rep[:2000] + "  [" + why + "]", size)
            elif not exact:
                ctx.drift += 1
        else:
            if not rep.startswith("ok "):
                ctx.disagree("dump", inp, repr(tree)[:1500], rep[:1500], size)
                continue
            mt, _ = nc.dec_tree(rep.split()[1:], 0, mode)
            diff, exact = nc.tree_diff(tree, mt, TOL)
            if diff:
                ctx.disagree("dump", inp, repr(tree)[:1500], repr(mt)[:1500] + "  [" + diff + "]", size)
            elif not exact:
                ctx.drift += 1


def exhaustive_single_module(ctx: Ctx, reqs, todo) -> None:
    """every subset of the attributes of a one-module document (thorough tier)."""
    import itertools
    attrs = {"area": [3, {"_": 2, "dsp": 1.5}], "center": [[1, 2.5]], "aspect_ratio": [2, [0.5, 2]],
             "fixed": [True, False], "hard": [True, False], "terminal": [True, False], "flip": [True, False],
             "rectangles": [[[2, 2, 4, 2], [1, 4, 2, 2]], [1, 1, 2, 2, "dsp"]]}
    keys = list(attrs)
    cnt = 0
    for r in range(0, len(keys) + 1):
        for sub in itertools.combinations(keys, r):
            for vals in itertools.product(*[attrs[k] for k in sub]):
                for order in ([0], [0, 1])[: 1 + (len(sub) > 1)]:
                    items = list(zip(sub, vals))
                    if order == [0, 1]:
                        items.reverse()
                    doc = {"Modules": {"M": dict(items), "Z": {"area": 1}}, "Nets": [["M", "Z"]]}
                    one_case(ctx, doc, (2.0 ** -30, 2.0 ** -20), "Q", reqs, todo, "exhaustive-1-module")
                    cnt += 1
    ctx.extra["exhaustive_single_module_documents"] = cnt


def run(ctx: Ctx) -> None:
    ctx.rule = ("structured random netlist documents, ≤ 12 modules: soft (scalar / bool / ground-dict / multi-region / "
                "non-ground-only areas, ± centre, ± aspect ratio scalar or pair, ± rectangles in named regions, ± redundant "
                "false flags), hard (hard: true or terminal: false; single / trunk+branches / twin / chain / scattered "
                "rectangles; ± flip), fixed, terminal (± fixed, ± centre, ± rectangles), key order shuffled; nets of 2–5 "
                "members with repeated members and weights absent / 1 / 1.0 / true / int / float; numbers tagged int / float "
                "/ bool; 'Q' stream dyadic (exact, explicit tolerance), 'F' stream decimal / thirds / doubles (tolerance "
                "undefined or explicit); non-trivial = accepted and at least one module; distinct = distinct documents")
    ctx.assumptions = [
        "no assumption about create_stog is left in the headline theorems: StogPerm and StogStable are proved for the C06 "
        "model (stogC06), which is also what the driver executes",
        "the YAML text layer (ruamel dump / safe load) is not modelled: load(dump(tree)) == tree is tested on every sample",
        "exact-field arithmetic in the theorems; on the float stream centres / hard areas recomputed in a different order "
        "are compared with 1e-9 relative tolerance",
        "one process-wide tolerance (Rectangle epsilon) is in force for the write and the read (set or undefined identically "
        "before each load)",
    ]
    n = ctx.n(800, 20000)
    reqs, todo = [], []
    seeds = getattr(ctx, "seed_inputs", None) or []
    for inp in seeds[:50]:
        try:
            doc, eps, mode = nc.read_input(inp)
            one_case(ctx, doc, eps, mode, reqs, todo, "seed")
        except Exception:
            pass
    for i in range(n):
        mode = "Q" if i % 2 == 0 else "F"
        doc = nc.gen_doc(ctx.rng, mode)
        eps = nc.gen_eps(ctx.rng, mode)
        one_case(ctx, doc, eps, mode, reqs, todo, mode)
    if ctx.tier == "thorough" and ctx.budget <= 1.0:
        exhaustive_single_module(ctx, reqs, todo)
    replies = ctx.model(reqs)
    if replies is None:
        ctx.notes.append("model driver unavailable: correspondence not run")
        return
    compare(ctx, todo, replies, None)


def replay(ctx: Ctx, body: dict) -> None:
    doc, eps, mode = nc.read_input(body["input"])
    reqs, todo = [], []
    one_case(ctx, doc, eps, mode, reqs, todo, "replay")
    replies = ctx.model(reqs)
    if replies:
        compare(ctx, todo, replies, None)

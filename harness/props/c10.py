"""C10 — Global floorplanning returns a feasible allocation and rigid hard modules.

PARTIAL BY NATURE: the numbers come from GEKKO/IPOPT, which is not modelled.  The solver's answer is captured
(`extract_solution` is wrapped) and is an *input* of the Lean model `FV/Model/Glb.lean`.

Streams
  glb            real `glbfloor` runs on small generated dies/netlists (multiprocessing).  Runs in which GEKKO raises
                 ("Solution Not Found") or an assertion fires did not return: counted, outside the property.
                 On every returned run the property's clauses are evaluated with Fractions on the returned
                 `(die, allocation)` (spec on implementation).
                 Two instance families: mixed dies (blockages, fixed regions, soft/hard/flippable modules) and
                 "settled start" (grid of cells, one module per cell with a square of 0.9-1.25 cell sides: every cell has a
                 dominant module above the threshold although the initial allocation over-occupies cells; max_iter 1..3, None).
                 Third family "infeasible": two modules at the same initial position in a grid corner (NLP without a
                 solution): the real code raises; returning there is a failure.  Every GEKKO `solve` is wrapped: a run that
                 RETURNS although some solve did not report success (APPSTATUS != 1) fails `returned-without-solver-success`;
                 a captured answer outside SolverPost (beyond 1e-6) in a returned run fails too (no longer excused).
                 Fourth family "pulled": wide dies (8x2, 12x3), a soft module tied by a heavy net / alpha 0.9-0.99 to a fixed
                 module in a far upper corner (centre variables pushed against their bounds).
                 Sub-seeded families: "flipper" (5 fixed instances on which a flippable two-rectangle hard module comes back
                 MIRRORED from the real solver: branch slightly off the trunk's axis), "rich" (die with a blockage AND a
                 specialised region, fixed modules of 2-3 rectangles, an off-axis flippable hard module, nets with 2 and 3-4
                 pins incl. nets through / between fixed modules, any alpha in (0,1), max_iter None half of the time), "blocked"
                 (a module entirely on a blockage: glbfloor raises KeyError before optimising — did not return, counted),
                 "in-process" (two runs in the harness process so that the refine / break lines of the loop are seen by the
                 anchored-line coverage).
  loop-live      the observed sequence of must_be_refined / refine / optimize_allocation calls of each run replayed
                 through the model's loop `loopG` (driver op `loop`): loop structure, incl. "optimise before stopping".
  extract-live   every `extract_solution` call of those runs: captured answer -> Lean `extractSolution` (Float) vs what
                 Python returned, tolerance 1e-9; `SolverPost` checked (violations in runs that did not return are
                 evidence only; in returned runs they are failures).
  consts-live    which entries of `model.a` are constants / variables and `get_a`: Lean `aIsConst`/`getA` vs Python.
  extract-synth  the real `extract_solution` on synthetic answers (no solver): F stream (arbitrary doubles, boundary
                 values `a == 1 - threshold`, out-of-range ratios, overlapping cells) and Q stream (dyadic data with
                 power-of-two areas: float arithmetic exact, compared exactly with the model run at `Rat`);
                 rigidity / centroid / sub-list clauses evaluated on the implementation's outputs.
  post-live /    WHAT IS POSTED TO GEKKO: `tools.glbfloor.optimization.GEKKO` is replaced by a recording subclass
  post-synth     (`harness/glb_post.py`); FRAME's `g.Var / g.sum / g.Equation / g.Minimize` calls are parsed, variables named by
                 role, and compared node-for-node (order included; `==` rows unordered; numbers within 1e-9) with the Lean
                 generator `FV/Model/GlbOpt.lean` (driver op `post`): variable declarations with bounds, float constants of
                 `model.x/y/a`, capacity / area / centroid / centre-offset / hard-sum / rigid-offset equations with their
                 bodies; the dispersion equations of soft modules and of every rectangle of a movable hard module, the anonymous
                 centre variables and centre equations of nets with other than two pins, and every `g.Minimize` term (two-pin
                 nets, pins of larger nets, total dispersion, with the alpha weighting) — all with their full expression trees.
                 A missing or extra equation / objective term is a disagreement; a row that is not the same tree must at least
                 denote the same function of the variables (`glb_post.rows_same_meaning`, counted).  Monitor: every posted
                 equation and bound evaluated on the solver's point (coverage.posted_monitor).
  consts-synth   `optimize_allocation` up to the solve call (stubbed) on allocations whose ratios sit exactly on the
                 decision boundaries (`== threshold`, `== 1 - threshold`): the same table comparison, no solver.
  sum            Python 3.12 `sum()` of floats vs the model's Neumaier `pySum` (bit exact).
"""
from __future__ import annotations

import copy
import math
import os
import traceback
from fractions import Fraction
from types import SimpleNamespace

from vcheck import Ctx, f2hex, hex2f, q2s
import glb_post
from frame.geometry.geometry import Rectangle, Point, Shape
from frame.netlist.module import Module
from frame.netlist.netlist import Netlist
from frame.die.die import Die

LEVEL = "proof (bookkeeping, conditional on the named solver hypothesis SolverPost; solver not modelled: partial)"
DRIVERS = ["drv_glb"]
TRUSTED = [
    "Lean 4.33 kernel; Mathlib lemmas; axioms ⊆ {propext, Classical.choice, Quot.sound}",
    "GEKKO 1.0.7 / IPOPT (local apm binary): NOT modelled — its answer is an input; theorems name the hypothesis "
    "`SolverPost` (ratios ≥ 0, cell rows ≤ 1 + tol, centres inside the die), monitored on every run",
    "hand-written model FV/Model/Glb.lean of extract_solution / recenter_rectangles / flip / Allocation-constructor "
    "checks / get_a / constant-vs-variable table / refine-optimise loop — fidelity checked by the correspondence "
    "streams, not proved",
    "the loop theorems `glbfloorA_*` plug in the allocation model FV/Model/Alloc.lean (refine(thr, 1), must_be_refined, the "
    "Allocation constructor — the code with fixes/C02_*, fixes/C12_* applied; its fidelity is checked by C02/C12's "
    "correspondence runs); what remains a parameter: the solver, and the start (any ValidAlloc inside the die — "
    "`create_initial_allocation` is property C03's)",
    "theorems are over exact ordered fields; IEEE rounding is executed (F stream), never proved",
    "FV/Model/GlbOpt.lean models everything optimize_allocation posts (declarations incl. the anonymous net-centre variables, "
    "constants, capacity/area/centroid/offset/hard-sum equations, dispersion equations, net-centre equations, every objective "
    "term with its alpha weighting; default dispersion function only; Python's float power is a parameter) — tied to the real "
    "GEKKO model node-for-node by the post-live/post-synth streams; `posted_constraints_imply_solverPost` turns the solver "
    "hypothesis into: the returned point satisfies what was posted, within tolerance (monitored), and non-convergence raises",
    "harness (Python): wrapping of extract_solution / optimize_allocation, comparison, exact clause evaluation",
]

MAX_PASSES_UNBOUNDED = 6   # `max_iter=None` runs are cut by the harness after this many optimisations
SOLVER_TOL = 1e-6      # tolerance granted to the solver on cell rows (IPOPT constraint tolerance)
GEO_TOL = Fraction(1, 10 ** 9)


# ------------------------------------------------------------------------------------------------ plain data
def rect_d(r: Rectangle) -> dict:
    return {"cx": r.center.x, "cy": r.center.y, "w": r.shape.w, "h": r.shape.h, "region": r.region,
            "fixed": bool(r.fixed), "hard": bool(r.hard)}


def mod_d(m: Module) -> dict:
    c = m.center
    return {"name": m.name, "hard": bool(m.is_hard), "fixed": bool(m.is_fixed), "flip": bool(m.flip),
            "cx": None if c is None else c.x, "cy": None if c is None else c.y,
            "rects": [rect_d(r) for r in m.rectangles]}


def mk_rect(d: dict) -> Rectangle:
    kw = dict(center=Point(d["cx"], d["cy"]), shape=Shape(d["w"], d["h"]), fixed=d["fixed"], hard=d["hard"],
              region=d["region"])
    return Rectangle(**kw)


def mk_module(d: dict) -> Module:
    if d["fixed"]:
        m = Module(d["name"], fixed=True)
    elif d["hard"]:
        m = Module(d["name"], hard=True, flip=d["flip"])
    else:
        m = Module(d["name"])
    for r in d["rects"]:
        m.add_rectangle(mk_rect(r))
    if d["cx"] is not None:
        m.center = Point(d["cx"], d["cy"])
    return m


# ------------------------------------------------------------------------------------------------ wire format
def _sc(x, mode):
    return f2hex(x) if mode == "F" else q2s(Fraction(x))


def _rect_tok(d, mode):
    return f"{_sc(d['cx'], mode)} {_sc(d['cy'], mode)} {_sc(d['w'], mode)} {_sc(d['h'], mode)} {d['region']} " \
           f"{int(d['fixed'])} {int(d['hard'])}"


def _mod_tok(d, mode):
    cx = 0.0 if d["cx"] is None else d["cx"]
    cy = 0.0 if d["cy"] is None else d["cy"]
    return f"{d['name']} {int(d['hard'])} {int(d['fixed'])} {int(d['flip'])} {_sc(cx, mode)} {_sc(cy, mode)} " \
           f"{len(d['rects'])}" + "".join(" " + _rect_tok(r, mode) for r in d["rects"])


def _list_tok(xs, mode):
    return f"{len(xs)}" + "".join(" " + _sc(x, mode) for x in xs)


def extract_request(case: dict, mode: str) -> str:
    s = f"{mode} extract {_sc(case['thr'], mode)} {_sc(case['eps_a'], mode)} {len(case['cells'])}"
    s += "".join(" " + _rect_tok(c, mode) for c in case["cells"])
    s += f" {len(case['mods'])}"
    for m in case["mods"]:
        s += " " + _mod_tok(m, mode) + " " + _list_tok(m["a"], mode) + f" {_sc(m['x'], mode)} {_sc(m['y'], mode)} " + \
             _list_tok(m["subx"], mode) + " " + _list_tok(m["suby"], mode)
    return s


def consts_request(case: dict, mode: str = "F") -> str:
    s = f"{mode} consts {_sc(case['eps_d'], mode)} {_sc(case['thr'], mode)} {len(case['offered'])}"
    for rect, alloc, _depth in case["offered"]:
        s += " " + _rect_tok(rect, mode) + f" {len(alloc)}" + "".join(f" {n} {_sc(v, mode)}" for n, v in alloc)
    s += f" {len(case['mods'])}" + "".join(" " + _mod_tok(m, mode) for m in case["mods"])
    return s


def post_request(case: dict, mode: str = "F") -> str:
    s = f"{mode} post {_rect_tok(case['die_bb'], mode)} {_sc(case['eps_d'], mode)} {_sc(case['thr'], mode)} " \
        f"{_sc(case['alpha'], mode)} {len(case['offered'])}"
    for rect, alloc, _depth in case["offered"]:
        s += " " + _rect_tok(rect, mode) + f" {len(alloc)}" + "".join(f" {n} {_sc(v, mode)}" for n, v in alloc)
    s += f" {len(case['mods'])}" + "".join(" " + _mod_tok(m, mode) + " " + _sc(case["areas"][m["name"]], mode) for m in case["mods"])
    s += f" {len(case['edges'])}" + "".join(f" {_sc(w, mode)} {len(pins)}" + "".join(" " + p for p in pins)
                                           for w, pins in case["edges"])
    return s


def capture_posted(case: dict, model, die, alpha, get_value=None) -> None:
    """what was posted to GEKKO for this model, in the reply format of the driver op `post` (+ the monitor)."""
    g = model.gekko
    if not isinstance(g, glb_post.RecGEKKO):
        return
    edges = list(die.netlist.edges)
    canon = glb_post.Canon(g, [i for i, e in enumerate(edges) if len(e.modules) != 2])
    case["posted"] = canon.posted(model)
    case["areas"] = {m.name: float(m.area()) for m in die.netlist.modules}
    case["edges"] = [(float(e.weight), [m.name for m in e.modules]) for e in edges]
    case["alpha"] = float(alpha)
    if "die_bb" not in case:
        case["die_bb"] = rect_d(die.bounding_box)
    if get_value is not None:
        case["posted_res"] = canon.residuals(get_value)


def render_result(alloc_list, mods, mode: str) -> str:
    """the driver's reply format for what Python returned: alloc_list = [(rect_d, [(name, v)])], mods = [mod_d]."""
    s = f"ok {len(alloc_list)}"
    for rect, al in alloc_list:
        s += " | " + _rect_tok(rect, mode) + " X " + f"{len(al)}" + "".join(f" {n} {_sc(v, mode)}" for n, v in al)
    s += f" || {len(mods)}"
    for m in mods:
        s += f" | {m['name']} {_sc(m['cx'], mode)} {_sc(m['cy'], mode)} {len(m['rects'])}" + \
             "".join(" | " + _rect_tok(r, mode) + " X" for r in m["rects"])
    return s


def lines_close(a: str, b: str, mode: str, tol: float) -> tuple[bool, bool]:
    """(equal within tol, exactly equal) token by token."""
    if a == b:
        return True, True
    ta, tb = a.split(), b.split()
    if len(ta) != len(tb):
        return False, False
    for x, y in zip(ta, tb):
        if x == y:
            continue
        if mode == "F":
            if len(x) != 16 or len(y) != 16:
                return False, False
            try:
                fx, fy = hex2f(x), hex2f(y)
            except Exception:
                return False, False
        else:
            return False, False
        if math.isnan(fx) or math.isnan(fy):
            return False, False
        if abs(fx - fy) > tol * max(1.0, abs(fx), abs(fy)):
            return False, False
    return True, False


# ------------------------------------------------------------------------------------------------ running extract
def impl_extract(case: dict, mode: str = "F") -> tuple[str, list, list, list]:
    """the REAL `extract_solution` on a case (plain data): fake GEKKO model whose entries are floats."""
    import tools.glbfloor.optimization as opt
    Rectangle.undefine_epsilon()
    Rectangle.set_epsilon(case["eps_d"], case["eps_a"])
    try:
        mods = [mk_module(m) for m in case["mods"]]
        cells = [mk_rect(c) for c in case["cells"]]
        model = SimpleNamespace(a={}, x={}, y={}, d={})
        for m in case["mods"]:
            n = m["name"]
            model.a[n] = {c: float(v) for c, v in enumerate(m["a"])}
            model.x[n], model.y[n], model.d[n] = float(m["x"]), float(m["y"]), 0.0
            for r, (sx, sy) in enumerate(zip(m["subx"], m["suby"])):
                model.x[f"{n}_{r}"], model.y[f"{n}_{r}"], model.d[f"{n}_{r}"] = float(sx), float(sy), 0.0
        die = SimpleNamespace(netlist=SimpleNamespace(modules=mods))
        before = [mod_d(m) for m in mods]
        try:
            _die, allocation, _disp = opt.extract_solution(model, die, cells, case["thr"])
        except AssertionError:
            return "err:Assert", before, [], []
        except ZeroDivisionError:
            return "err:ZeroDiv", before, [], []
        except Exception as e:   # noqa: BLE001 — anything else is not allowed by the property
            return "raised:" + type(e).__name__, before, [], []
        al = [(rect_d(a.rect), list(a.alloc.items())) for a in allocation.allocations]
        after = [mod_d(m) for m in mods]
        return render_result(al, after, mode), before, al, after
    finally:
        Rectangle.undefine_epsilon()


# ------------------------------------------------------------------------------------------------ exact clauses
def _F(x):
    return Fraction(x)


def _bb(d):
    cx, cy, w, h = _F(d["cx"]), _F(d["cy"]), _F(d["w"]), _F(d["h"])
    return cx - w / 2, cy - h / 2, cx + w / 2, cy + h / 2


def _ov(a, b):
    ax0, ay0, ax1, ay1 = _bb(a)
    bx0, by0, bx1, by1 = _bb(b)
    dx, dy = min(ax1, bx1) - max(ax0, bx0), min(ay1, by1) - max(ay0, by0)
    return dx * dy if dx > 0 and dy > 0 else Fraction(0)


def check_rigid(before: dict, after: dict, tol: Fraction, exact: bool):
    """movable hard module: same shapes, pairwise offsets kept up to a common mirror sign, centroid = centre.
    Returns None or (clause, detail)."""
    rb, ra = before["rects"], after["rects"]
    if len(rb) != len(ra):
        return "rigid:count", {"before": len(rb), "after": len(ra)}
    for i, (p, q) in enumerate(zip(rb, ra)):
        if (p["w"], p["h"], p["region"], p["fixed"], p["hard"]) != (q["w"], q["h"], q["region"], q["fixed"], q["hard"]):
            return "rigid:shape", {"i": i, "before": p, "after": q}
    scale = max([Fraction(1)] + [abs(_F(r[k])) for r in rb + ra for k in ("cx", "cy")])
    t = Fraction(0) if exact else tol * scale
    for axis in ("cx", "cy"):
        signs = [1, -1] if before["flip"] else [1]
        ok = False
        for s in signs:
            if all(abs((_F(ra[i][axis]) - _F(ra[j][axis])) - s * (_F(rb[i][axis]) - _F(rb[j][axis]))) <= t
                   for i in range(len(rb)) for j in range(i + 1, len(rb))):
                ok = True
                break
        if not ok:
            return "rigid:offsets", {"axis": axis, "before": [r[axis] for r in rb], "after": [r[axis] for r in ra]}
    area = sum(_F(r["w"]) * _F(r["h"]) for r in ra)
    if area != 0:
        gx = sum(_F(r["cx"]) * _F(r["w"]) * _F(r["h"]) for r in ra) / area
        gy = sum(_F(r["cy"]) * _F(r["w"]) * _F(r["h"]) for r in ra) / area
        if abs(gx - _F(after["cx"])) > t or abs(gy - _F(after["cy"])) > t:
            return "rigid:centroid", {"centroid": [float(gx), float(gy)], "centre": [after["cx"], after["cy"]]}
    return None


def spec_extract(ctx: Ctx, case: dict, impl: str, before, al, after, inp, exact: bool) -> None:
    """clauses of the C10 theorems that hold for ANY answer, on the real `extract_solution`'s output."""
    if not impl.startswith("ok"):
        return
    size = len(case["cells"]) + len(case["mods"])
    thr = _F(case["thr"])
    # extract_cells_subset: returned cells are a sub-list of the offered cells
    cells = case["cells"]
    j = 0
    for rect, _al in al:
        while j < len(cells) and any(cells[j][k] != rect[k] for k in ("cx", "cy", "w", "h", "region")):
            j += 1
        if j == len(cells):
            ctx.spec_fail("extract_cells_subset", inp, {"cell": rect}, size)
            break
        j += 1
    # extract_ratio_range (no solver hypothesis)
    for rect, a in al:
        if not a:
            ctx.spec_fail("extract_ratio_range:empty-cell", inp, {"cell": rect}, size)
        for n, v in a:
            if not (0 <= _F(v) <= 1) or not (_F(1) - thr < _F(v) or not exact):
                ctx.spec_fail("extract_ratio_range", inp, {"cell": rect, "module": n, "ratio": v}, size)
    # updateModule_fields / flip_rigid / extract_hard_rigid
    if len(after) != len(before):
        ctx.spec_fail("extract_hard_rigid:length", inp, {}, size)
        return
    for b, a, row in zip(before, after, case["mods"]):
        if (a["cx"], a["cy"]) != (float(row["x"]), float(row["y"])):
            ctx.spec_fail("updateModule_fields:centre", inp, {"module": b["name"], "centre": [a["cx"], a["cy"]],
                                                             "answer": [row["x"], row["y"]]}, size)
        if b["hard"] and not b["fixed"]:
            bad = check_rigid(b, a, GEO_TOL, exact)
            if bad:
                ctx.spec_fail("flip_rigid:" + bad[0], inp, dict(bad[1], module=b["name"]), size)
        elif a["rects"] != b["rects"]:
            ctx.spec_fail("extract_hard_rigid:others-untouched", inp, {"module": b["name"]}, size)


# ------------------------------------------------------------------------------------------------ synthetic cases
def _dy(rng, lo, hi, den=4):
    return rng.randint(lo * den, hi * den) / den


def gen_synth(rng, mode: str) -> dict:
    exact = mode == "Q"
    W, H = rng.choice([4, 6, 8]), rng.choice([4, 6, 8])
    nc, nr = rng.choice([1, 2, 2, 3, 4]), rng.choice([1, 2, 2, 3])
    cells = []
    for i in range(nc):
        for j in range(nr):
            w, h = W / nc, H / nr
            if exact and (W % nc or H % nr):
                w, h = float(W // nc), float(H // nr)
            cells.append({"cx": i * w + w / 2, "cy": j * h + h / 2, "w": w, "h": h, "region": "_",
                          "fixed": False, "hard": False})
    if rng.random() < 0.04 and len(cells) > 1:       # overlapping cells: the Allocation constructor must refuse
        cells[1] = dict(cells[0], cx=cells[0]["cx"] + cells[0]["w"] / 4)
    if rng.random() < 0.03:                          # a cell outside the positive quadrant
        cells[0] = dict(cells[0], cx=-cells[0]["cx"])
    thr = rng.choice([0.5, 0.75, 0.875, 1.0, 0.0] if exact else [0.5, 0.6, 0.9, 0.95, 0.99, 1.0, 0.0, 0.3])
    nm = rng.randint(1, 5)
    mods = []
    for k in range(nm):
        kind = rng.choice(["soft", "soft", "hard", "hard", "flip", "flip", "fixed"])
        name = f"M{k}"
        rects = []
        if kind == "soft":
            if rng.random() < 0.6:
                s = rng.choice([1.0, 2.0, 0.5])
                rects = [{"cx": _dy(rng, 0, W), "cy": _dy(rng, 0, H), "w": s, "h": s, "region": "_", "fixed": False, "hard": False}]
        else:
            if exact:
                shapes = rng.choice([[(1, 1)], [(2, 1)], [(1, 1), (1, 1)], [(2, 1), (1, 2)], [(2, 2), (1, 2), (2, 1)],
                                     [(1, 1), (1, 1), (1, 1), (1, 1)], [(4, 1), (2, 1), (1, 2)], [(0.5, 1), (1, 0.5)]])
            else:
                shapes = [(rng.choice([0.5, 1, 1.3, 2, 0.7, 3]), rng.choice([0.5, 1, 1.7, 2, 0.3]))
                          for _ in range(rng.choice([1, 1, 2, 2, 3, 4]))]
            for (w, h) in shapes:
                coord = (lambda lo, hi: _dy(rng, lo, hi)) if exact or rng.random() < 0.3 else (lambda lo, hi: rng.uniform(lo, hi))
                rects.append({"cx": coord(0, W), "cy": coord(0, H), "w": float(w), "h": float(h), "region": "_",
                              "fixed": kind == "fixed", "hard": True})
            if len(rects) > 1 and rng.random() < 0.25:   # aligned rectangles: offset 0 on one axis (flip test sees 0)
                rects[1]["cx"] = rects[0]["cx"]
        m = {"name": name, "hard": kind != "soft", "fixed": kind == "fixed", "flip": kind == "flip",
             "cx": _dy(rng, 0, W), "cy": _dy(rng, 0, H), "rects": rects}
        # the answer
        row = []
        for c in range(len(cells)):
            u = rng.random()
            if u < 0.3:
                v = 0.0
            elif u < 0.45:
                v = 1.0
            elif u < 0.6:
                v = 1 - thr                      # boundary of the threshold filter (same float expression)
            elif u < 0.65 and not exact:
                v = math.nextafter(1 - thr, 2.0)
            elif u < 0.68:
                v = rng.choice([-0.25, 1.25]) if exact else rng.choice([-1e-9, 1 + 1e-9, -0.25, 1.5])
            else:
                v = _dy(rng, 0, 1, 8) if exact else rng.random()
            row.append(float(v))
        m["a"] = row
        coord = (lambda lo, hi: _dy(rng, lo, hi)) if exact else (lambda lo, hi: rng.uniform(lo, hi))
        m["x"], m["y"] = coord(0, W), coord(0, H)
        if m["hard"] and not m["fixed"]:
            base = [r["cx"] for r in rects], [r["cy"] for r in rects]
            style = rng.choice(["same", "mirrorx", "mirrory", "both", "random", "random"])
            sx = -1 if style in ("mirrorx", "both") else 1
            sy = -1 if style in ("mirrory", "both") else 1
            if style == "random":
                m["subx"] = [coord(0, W) for _ in rects]
                m["suby"] = [coord(0, H) for _ in rects]
            else:
                m["subx"] = [float(sx * (x - base[0][0]) + m["x"]) for x in base[0]]
                m["suby"] = [float(sy * (y - base[1][0]) + m["y"]) for y in base[1]]
        else:
            m["subx"], m["suby"] = [], []
        mods.append(m)
    return {"thr": thr, "eps_d": 2.0 ** -30, "eps_a": 2.0 ** -15, "cells": cells, "mods": mods}


# ------------------------------------------------------------------------------------------------ real runs
def gen_instance(rng, idx: int) -> dict:
    """a small die (blockage / fixed region) + netlist mixing soft, hard, flippable, fixed modules + parameters."""
    W, H = rng.choice([4, 5, 6, 8]), rng.choice([4, 5, 6])
    used = []   # integer-corner boxes (x0, y0, x1, y1) taken by blockages / fixed modules

    def free_box(w, h):
        for _ in range(30):
            x0, y0 = rng.randint(0, W - w), rng.randint(0, H - h)
            b = (x0, y0, x0 + w, y0 + h)
            if all(b[2] <= u[0] or u[2] <= b[0] or b[3] <= u[1] or u[3] <= b[1] for u in used):
                used.append(b)
                return b
        return None

    def covered(cx, cy, w, h):
        """fraction of the box centred at (cx, cy) that is outside the die or on blockages / fixed modules."""
        x0, y0, x1, y1 = cx - w / 2, cy - h / 2, cx + w / 2, cy + h / 2
        inside = max(0.0, min(x1, W) - max(x0, 0)) * max(0.0, min(y1, H) - max(y0, 0))
        taken = sum(max(0.0, min(x1, u[2]) - max(x0, u[0])) * max(0.0, min(y1, u[3]) - max(y0, u[1])) for u in used)
        return 1 - (inside - taken) / (w * h)

    regions = []
    if rng.random() < 0.5:
        for _ in range(rng.choice([1, 1, 2])):
            b = free_box(rng.choice([1, 1, 2]), rng.choice([1, 2]))
            if b:
                regions.append([(b[0] + b[2]) / 2, (b[1] + b[3]) / 2, b[2] - b[0], b[3] - b[1], "#"])
    modules = {}
    order = []
    nfixed = rng.choice([0, 0, 1, 1, 2])
    for k in range(nfixed):
        rs = []
        b = free_box(rng.choice([1, 2]), rng.choice([1, 1, 2]))
        if b:
            rs.append([(b[0] + b[2]) / 2, (b[1] + b[3]) / 2, b[2] - b[0], b[3] - b[1]])
            if rng.random() < 0.5:      # L-shaped fixed module: a second rectangle abutting the first (east or north)
                for b2 in rng.sample([(b[2], b[1], b[2] + 1, b[1] + 1), (b[0], b[3], b[0] + 1, b[3] + 1),
                                      (b[2], b[3] - 1, b[2] + 1, b[3])], 3):
                    if b2[2] <= W and b2[3] <= H and all(b2[2] <= u[0] or u[2] <= b2[0] or b2[3] <= u[1] or u[3] <= b2[1] for u in used):
                        used.append(b2)
                        rs.append([(b2[0] + b2[2]) / 2, (b2[1] + b2[3]) / 2, 1, 1])
                        break
        if rs:
            modules[f"F{k}"] = {"fixed": True, "rectangles": rs}
            order.append(f"F{k}")
    free_area = W * H - sum((u[2] - u[0]) * (u[3] - u[1]) for u in used)
    budget = free_area * rng.choice([0.3, 0.4, 0.5, 0.6])
    nhard = rng.choice([0, 1, 1, 2])
    for k in range(nhard):
        if len(order) >= 5:
            break
        w, h = rng.choice([1, 1.5, 2]), rng.choice([1, 1, 1.5])
        for _ in range(20):   # initial position mostly on free area (glbfloor needs every module in some free cell)
            cx, cy = rng.uniform(w / 2, W - w / 2), rng.uniform(h / 2, H - h / 2)
            if covered(cx, cy, w, h) < 0.4:
                break
        else:
            continue
        rs = [[cx, cy, w, h]]
        nb = rng.choice([0, 1, 1, 2])
        if nb >= 1:   # branch on top
            w2, h2 = rng.choice([0.5, 1]), rng.choice([0.5, 1])
            rs.append([cx + rng.choice([-1, 0, 1]) * (w - w2) / 2, cy + h / 2 + h2 / 2, w2, h2])
        if nb >= 2:   # branch on the right
            w3, h3 = rng.choice([0.5, 1]), rng.choice([0.5, 1])
            rs.append([cx + w / 2 + w3 / 2, cy + rng.choice([-1, 0, 1]) * (h - h3) / 2, w3, h3])
        area = sum(r[2] * r[3] for r in rs)
        if area > budget:
            continue
        budget -= area
        name = f"H{k}"
        modules[name] = {"hard": True, "rectangles": rs}
        if rng.random() < 0.5:
            modules[name]["flip"] = True
        order.append(name)
    nsoft = rng.randint(1, 3)
    for k in range(nsoft):
        if len(order) >= 5:
            break
        area = round(min(budget * rng.uniform(0.3, 0.7), rng.uniform(1, 6)), 2)
        if area < 0.3:
            continue
        budget -= area
        side = math.sqrt(area)
        for _ in range(20):
            cx, cy = round(rng.uniform(0.5, W - 0.5), 2), round(rng.uniform(0.5, H - 0.5), 2)
            if covered(cx, cy, side, side) < 0.4:
                break
        else:
            continue
        modules[f"S{k}"] = {"area": area, "center": [cx, cy]}
        order.append(f"S{k}")
    nets = []
    if len(order) >= 2:
        for _ in range(rng.randint(1, 4)):
            pins = rng.sample(order, rng.choice([2, 2, 3]) if len(order) >= 3 else 2)
            nets.append(pins + ([rng.choice([2, 0.5, 3])] if rng.random() < 0.4 else []))
    clean = not regions and nfixed == 0
    if clean and rng.random() < 0.5:
        grid = rng.choice([[1, 2], [2, 2], [2, 3], [3, 3], [3, 4], [2, 4]])
        refine = {"grid": grid}
    elif rng.random() < 0.85:
        refine = {"split": [rng.choice([1.5, 2.0, 3.0]), rng.randint(2, 8)]}
    else:
        refine = {}
    return {"idx": idx, "die": {"width": W, "height": H, "regions": regions}, "modules": modules, "order": order,
            "nets": nets, "refine": refine,
            "thr": rng.choice([0.5, 0.6, 0.7, 0.8, 0.8, 0.9, 0.9, 0.9, 0.9, 0.95, 0.95, 0.95, 0.95, 0.95, 0.99, 0.99, 0.99, 0.99]),
            "alpha": rng.choice([0.1, 0.3, 0.5, 0.9]), "max_iter": rng.choice([1, 2, 2, 2, 3, 3, None])}


def gen_settled(rng, idx: int) -> dict:
    """'settled start': a regular grid of cells (initial-grid path or explicit refinement), one module centred per cell
    whose initial square has a side between 0.9 and 1.25 of the cell side, so that every cell already has a dominant
    module above the threshold while neighbours leak into each other (the INITIAL allocation over-occupies cells).
    What glbfloor returns must nevertheless be feasible: the loop optimises before it may stop."""
    side = rng.choice([1, 1, 2, 1.5])
    shape = ["wide", "tall", "any", "any"][idx % 4]     # non-square cells exercise x/y mix-ups of the grid code
    if shape != "any" or rng.random() < 0.6:
        rows, cols = rng.choice([(1, 2), (2, 2), (2, 3), (2, 3), (3, 2), (1, 3), (2, 4), (2, 4), (3, 3), (3, 3), (3, 4)])
        sx, sy = {"wide": rng.choice([(1.5, 1), (2, 1), (2, 1.5)]), "tall": rng.choice([(1, 1.5), (1, 2)]),
                  "any": (side, side)}[shape]
        W, H = cols * sx, rows * sy
        refine = {"grid": [rows, cols]}
    else:
        a, b, n = rng.choice([(2, 1, 2), (2, 2, 4), (4, 2, 8), (4, 2, 8), (2, 4, 8), (4, 1, 4)])
        W, H = a * side, b * side
        refine = {"split": [rng.choice([1.5, 2.0]), n]}
    Rectangle.undefine_epsilon()
    try:
        die = Die(_yaml({"width": W, "height": H}))
        if "grid" in refine:
            die.initial_grid(*refine["grid"])
        else:
            die.split_refinable_regions(*refine["split"])
        cells = [(r.center.x, r.center.y, r.shape.w, r.shape.h) for r in die.floorplanning_rectangles()[0]]
    finally:
        Rectangle.undefine_epsilon()
    thr = rng.choice([0.85, 0.9, 0.9, 0.95])
    lo = math.sqrt(thr) + 0.005
    n = len(cells)
    leakers = set(rng.sample(range(n), min(n, rng.choice([1, 1, 2]))))
    fs = []
    for i in range(n):
        if i in leakers:
            fs.append(rng.uniform(1.04, 1.25))
        elif rng.random() < 0.1:
            fs.append(0.9)                       # not dominant for thr >= 0.85 when squared (0.81): unsettled variety
        else:
            fs.append(rng.uniform(lo, 1.0))
    total = lambda: sum((f * min(c[2], c[3])) ** 2 for f, c in zip(fs, cells))
    cap = rng.choice([0.9, 0.95, 0.98]) * W * H   # keep the instance feasible: total module area below the die area
    for i in range(n):
        if total() <= cap:
            break
        if i not in leakers and fs[i] > lo:
            fs[i] = lo
    for _ in range(12):
        if total() <= cap:
            break
        for i in leakers:
            fs[i] = 1 + (fs[i] - 1) * 0.7
    modules, order = {}, []
    for i, (f, (cx, cy, w, h)) in enumerate(zip(fs, cells)):
        s_ = f * min(w, h)
        shift = 0.0
        if i in leakers and rng.random() < 0.5:   # leak on one side only (towards the inside of the die)
            shift = (s_ - min(w, h)) / 2 * (1 if cx < W / 2 else -1)
        name = f"M{i}"
        if rng.random() < 0.3:
            modules[name] = {"hard": True, "rectangles": [[cx + shift, cy, s_, s_]]}
        else:
            modules[name] = {"area": s_ * s_, "center": [cx + shift, cy]}
        order.append(name)
    nets = []
    for _ in range(rng.randint(1, max(1, n))):
        if n >= 2:
            nets.append(rng.sample(order, 2))
    return {"idx": idx, "family": "settled", "die": {"width": W, "height": H, "regions": []}, "modules": modules,
            "order": order, "nets": nets, "refine": refine, "thr": thr, "alpha": rng.choice([0.1, 0.3, 0.5]),
            "max_iter": rng.choice([1, 2, 3, None])}


def gen_infeasible(rng, idx: int) -> dict:
    """instances whose NLP has no solution / does not converge: a g x g grid, two modules (soft/soft or soft/hard) given
    the SAME initial position in a corner, each covering the corner cell and its neighbours, so that both ratios are
    frozen to 1 there; a third module elsewhere.  On the real code the optimiser raises (did not return)."""
    g = rng.choice([3, 4, 4])
    side = rng.choice([1, 1, 2])
    W = H = g * side
    corner = rng.choice([(0, 0), (1, 0), (0, 1), (1, 1)])
    big = 2 * side
    cx = big / 2 if corner[0] == 0 else W - big / 2
    cy = big / 2 if corner[1] == 0 else H - big / 2
    modules = {"A": {"area": big * big, "center": [cx, cy]}}
    if rng.random() < 0.5:
        modules["B"] = {"area": big * big, "center": [cx, cy]}
    else:
        modules["B"] = {"hard": True, "rectangles": [[cx, cy, big, big]]}
    ox, oy = W - cx, H - cy
    modules["C"] = {"area": rng.choice([1, 2]) * side * side, "center": [ox, oy]}
    order = ["A", "B", "C"]
    return {"idx": idx, "family": "infeasible", "die": {"width": W, "height": H, "regions": []}, "modules": modules,
            "order": order, "nets": [["A", "B"], ["B", "C"]], "refine": {"grid": [g, g]},
            "thr": rng.choice([0.5, 0.6, 0.7, 0.8, 0.8, 0.9, 0.95]), "alpha": rng.choice([0.1, 0.3, 0.5]),
            "max_iter": rng.choice([1, 1, 2])}


def gen_pulled(rng, idx: int) -> dict:
    """wide die (8x2 / 12x3), a fixed module in an upper corner and a soft module at the far end of the upper half, tied
    to it by a heavy net at a high alpha: the wire-length term pulls the soft module's centre hard against its bounds —
    which must be the die's in BOTH directions (x/y mix-ups of the centre bounds show as a centre outside the die)."""
    W, H = rng.choice([(8, 2), (8, 2), (12, 3)])
    s_ = H / 2
    right = rng.random() < 0.7
    fx = W - s_ / 2 if right else s_ / 2
    modules = {"M": {"area": round(rng.choice([1, 1, 1.5]) * s_ * s_, 3), "center": [s_ if right else W - s_, 1.5 * s_]},
               "F": {"fixed": True, "rectangles": [[fx, 1.5 * s_, s_, s_]]}}
    order = ["M", "F"]
    if rng.random() < 0.5:
        alpha, wgt = 0.9, rng.choice([10, 20, 40])
    else:
        alpha, wgt = 0.99, rng.choice([1, 2])
    nets = [["M", "F", wgt]]
    if rng.random() < 0.4:
        modules["S"] = {"area": round(1.5 * s_ * s_, 3), "center": [W / 2 - s_, 0.6 * s_]}
        order.append("S")
        nets.append(["S", "F"])
    return {"idx": idx, "family": "pulled", "die": {"width": W, "height": H, "regions": []}, "modules": modules,
            "order": order, "nets": nets, "refine": {"split": [2.0, rng.choice([12, 16])]},
            "thr": rng.choice([0.9, 0.95]), "alpha": alpha, "max_iter": rng.choice([2, 2, 3])}


# instances (found by search, deterministic with the local APOPT binary) on which a FLIPPABLE multi-rectangle hard module
# comes back MIRRORED from a real glbfloor run: the branch is off the trunk's axis by a small amount, so that the squared
# offset equation `(x_0 - x_1)^2 == off^2` lets the solver cross to the other sign
KNOWN_FLIPPERS = [
    {"die": {"width": 5, "height": 5, "regions": []},
     "modules": {"H": {"hard": True, "flip": True, "rectangles": [[1.6119264524005579, 2.923704844264215, 1.5, 1], [1.6744264524005579, 3.673704844264215, 0.5, 0.5]]},
                 "S0": {"area": 2.23, "center": [3.85, 1.71]}, "S1": {"area": 2.95, "center": [1.06, 3.77]}, "S2": {"area": 1.67, "center": [0.99, 1.69]}},
     "order": ["H", "S0", "S1", "S2"], "nets": [["H", "S0", 1], ["S1", "H", 1]], "refine": {"grid": [3, 2]}, "thr": 0.8, "alpha": 0.9, "max_iter": 2},
    {"die": {"width": 4, "height": 4, "regions": []},
     "modules": {"H": {"hard": True, "flip": True, "rectangles": [[1.669220726122023, 2.1478796009105814, 2, 1], [1.679220726122023, 2.8978796009105814, 0.5, 0.5]]},
                 "S0": {"area": 1.05, "center": [1.6, 3.19]}, "S1": {"area": 1.09, "center": [3.21, 1.64]}},
     "order": ["H", "S0", "S1"], "nets": [["S0", "S1", 5], ["S1", "S0", 1]], "refine": {"split": [2.0, 3]}, "thr": 0.8, "alpha": 0.5, "max_iter": 1},
    {"die": {"width": 5, "height": 5, "regions": []},
     "modules": {"H": {"hard": True, "flip": True, "rectangles": [[1.6195855248047621, 1.7501650915648326, 2, 1.5], [1.7445855248047621, 2.7501650915648326, 1, 0.5]]},
                 "S0": {"area": 1.56, "center": [2.96, 3.46]}, "S1": {"area": 2.19, "center": [3.41, 1.4]}},
     "order": ["H", "S0", "S1"], "nets": [["H", "S0", 2], ["S0", "H", 2]], "refine": {"split": [2.0, 3]}, "thr": 0.9, "alpha": 0.5, "max_iter": 3},
    {"die": {"width": 5, "height": 5, "regions": []},
     "modules": {"H": {"hard": True, "flip": True, "rectangles": [[1.38, 1.24, 2, 1.5], [2.63, 1.27125, 0.5, 0.5]]},
                 "S0": {"area": 1.16, "center": [3.67, 4.08]}, "S1": {"area": 1.66, "center": [2.21, 3.72]}},
     "order": ["H", "S0", "S1"], "nets": [["H", "S0", 1], ["S0", "S1", 2], ["H", "S0", 5]], "refine": {"split": [2.0, 5]}, "thr": 0.95, "alpha": 0.1, "max_iter": 2},
    {"die": {"width": 4, "height": 3, "regions": []},
     "modules": {"H": {"hard": True, "flip": True, "rectangles": [[1.27, 0.89, 1, 1], [1.395, 1.8900000000000001, 0.5, 1]]},
                 "S0": {"area": 0.92, "center": [3.02, 1.63]}},
     "order": ["H", "S0"], "nets": [["S0", "H", 5]], "refine": {"grid": [2, 2]}, "thr": 0.8, "alpha": 0.9, "max_iter": 1},
]


# two soft modules that fill one cell each of a 1 x 2 grid: after the first optimisation nothing must be refined
SETTLED_PAIR = {"family": "in-process", "die": {"width": 2, "height": 1, "regions": []},
                "modules": {"M": {"area": 1.0, "center": [0.5, 0.5]}, "N": {"area": 0.96, "center": [1.5, 0.5]}},
                "order": ["M", "N"], "nets": [["M", "N"]], "refine": {"grid": [1, 2]}, "thr": 0.9, "alpha": 0.3, "max_iter": None}


def gen_rich(rng, idx: int) -> dict:
    """few but diverse instances: a die with a blockage AND a specialised region, a FIXED module made of 2-3 rectangles
    (sometimes a second one), a flippable hard module whose branch is slightly off the trunk's axis, soft modules, nets
    with 2 and with 3-4 pins (some weighted, some through the fixed module), any alpha in (0,1), `max_iter=None` half of
    the time."""
    W, H = rng.choice([(6, 4), (6, 5), (8, 4), (5, 5)])
    used = []

    def free(b):
        return 0 <= b[0] and 0 <= b[1] and b[2] <= W and b[3] <= H and \
            all(b[2] <= u[0] or u[2] <= b[0] or b[3] <= u[1] or u[3] <= b[1] for u in used)

    def place(w, h):
        for _ in range(40):
            x0, y0 = rng.randint(0, W - w), rng.randint(0, H - h)
            b = (x0, y0, x0 + w, y0 + h)
            if free(b):
                used.append(b)
                return b
        return None

    def covered(cx, cy, w, h):
        x0, y0, x1, y1 = cx - w / 2, cy - h / 2, cx + w / 2, cy + h / 2
        inside = max(0.0, min(x1, W) - max(x0, 0)) * max(0.0, min(y1, H) - max(y0, 0))
        taken = sum(max(0.0, min(x1, u[2]) - max(x0, u[0])) * max(0.0, min(y1, u[3]) - max(y0, u[1])) for u in used)
        return 1 - (inside - taken) / (w * h)

    modules, order, regions = {}, [], []
    for k in range(rng.choice([1, 1, 2])):
        b = place(rng.choice([1, 2]), rng.choice([1, 1, 2]))
        if not b:
            continue
        boxes = [b]
        for _ in range(rng.choice([1, 2, 2])):          # grow by unit boxes abutting any box of the module
            cands = []
            for (x0, y0, x1, y1) in boxes:
                cands += [(x1, y0, x1 + 1, y0 + 1), (x0 - 1, y0, x0, y0 + 1), (x0, y1, x0 + 1, y1 + 1), (x0, y0 - 1, x0 + 1, y0),
                          (x1, y1 - 1, x1 + 1, y1), (x1 - 1, y1, x1, y1 + 1)]
            rng.shuffle(cands)
            for c in cands:
                if free(c):
                    used.append(c)
                    boxes.append(c)
                    break
        modules[f"F{k}"] = {"fixed": True,
                            "rectangles": [[(x0 + x1) / 2, (y0 + y1) / 2, x1 - x0, y1 - y0] for (x0, y0, x1, y1) in boxes]}
        order.append(f"F{k}")
    b = place(1, rng.choice([1, 2]))
    if b:
        regions.append([(b[0] + b[2]) / 2, (b[1] + b[3]) / 2, b[2] - b[0], b[3] - b[1], "#"])
    nblock = len(used)
    b = place(2, rng.choice([1, 2]))
    special = None
    if b:
        special = b
        regions.append([(b[0] + b[2]) / 2, (b[1] + b[3]) / 2, b[2] - b[0], b[3] - b[1], rng.choice(["DSP", "BRAM"])])
        used.pop()                                       # a specialised region is free area for the modules
    free_area = W * H - sum((u[2] - u[0]) * (u[3] - u[1]) for u in used)
    budget = free_area * rng.choice([0.3, 0.4, 0.5])
    # a flippable hard module: trunk + a branch slightly off its axis (+ sometimes a second branch)
    w, h = rng.choice([1, 1.5, 2]), rng.choice([1, 1.5])
    for _ in range(30):
        cx, cy = round(rng.uniform(w / 2 + 0.3, W - w / 2 - 0.8), 2), round(rng.uniform(h / 2 + 0.3, H - h / 2 - 1.2), 2)
        if covered(cx, cy, w + 1, h + 1) < 0.25:
            # a single-trunk orthogon (flippable modules must be one): every branch within the trunk's extent
            off = rng.choice([2 ** -4, 2 ** -5, 2 ** -3, 0.01, 0.05]) * rng.choice([1, -1])
            if rng.random() < 0.6:      # branch on top, slightly off the vertical axis
                w2, h2 = rng.choice([0.5, w - 0.5] if w > 1 else [0.5]), rng.choice([0.5, 1])
                rs = [[cx, cy, w, h], [cx + off, cy + h / 2 + h2 / 2, w2, h2]]
                if rng.random() < 0.3:
                    rs.append([cx - off, cy - h / 2 - 0.25, 0.5, 0.5])
            else:                       # branch on the right, slightly off the horizontal axis
                w2, h2 = rng.choice([0.5, 1]), 0.5
                rs = [[cx, cy, w, h], [cx + w / 2 + w2 / 2, cy + off, w2, h2]]
                if rng.random() < 0.3:
                    rs.append([cx - w / 2 - 0.25, cy - off, 0.5, 0.5])
            modules["H0"] = {"hard": True, "rectangles": rs, "flip": True}
            order.append("H0")
            budget -= sum(r[2] * r[3] for r in rs)
            break
    for k in range(rng.randint(1, 3)):
        if len(order) >= 6:
            break
        area = round(min(max(budget, 0.5) * rng.uniform(0.3, 0.6), rng.uniform(1, 5)), 2)
        if area < 0.3:
            continue
        side = math.sqrt(area)
        for _ in range(30):
            cx, cy = round(rng.uniform(0.5, W - 0.5), 2), round(rng.uniform(0.5, H - 0.5), 2)
            if covered(cx, cy, side, side) < 0.4:
                modules[f"S{k}"] = {"area": area, "center": [cx, cy]}
                order.append(f"S{k}")
                budget -= area
                break
    nets = []
    if len(order) >= 3:
        nets.append(rng.sample(order, rng.choice([3, 3, 4]) if len(order) >= 4 else 3) + ([rng.choice([2, 0.5, 3])] if rng.random() < 0.5 else []))
    for _ in range(rng.randint(1, 3)):
        if len(order) >= 2:
            nets.append(rng.sample(order, 2) + ([rng.choice([2, 0.5, 5])] if rng.random() < 0.5 else []))
    fx = [n for n in order if n.startswith("F")]
    if len(fx) == 2 and rng.random() < 0.5:
        nets.append(fx)                                  # a net between two fixed modules: a constant objective term
    return {"idx": idx, "family": "rich", "die": {"width": W, "height": H, "regions": regions}, "modules": modules,
            "order": order, "nets": nets, "refine": {"split": [rng.choice([1.5, 2.0, 3.0]), rng.randint(3, 8)]},
            "thr": rng.choice([0.7, 0.8, 0.9, 0.9, 0.95]), "alpha": round(rng.uniform(0.03, 0.97), 3),
            "max_iter": rng.choice([None, None, 1, 1, 2, 3])}


def gen_blocked(rng, idx: int) -> dict:
    """a module (hard or soft) placed ENTIRELY on a blockage: it gets no cell in the initial allocation and `glbfloor`
    raises `KeyError` in `calculate_dispersions` before optimising — it does not return, so the property (\"whenever
    global floorplanning returns\") says nothing; counted (`blocked:raised:KeyError-no-free-cell`).  Returning is checked as usual."""
    W, H = rng.choice([(4, 4), (6, 4)])
    bx, by = rng.randint(0, W - 2), rng.randint(0, H - 2)
    regions = [[bx + 1, by + 1, 2, 2, "#"]]
    modules = {}
    if rng.random() < 0.6:
        modules["B"] = {"hard": True, "rectangles": [[bx + 1, by + 1, rng.choice([1, 1.5]), 1]]}
    else:
        modules["B"] = {"area": rng.choice([0.5, 1.0]), "center": [bx + 1, by + 1]}
    modules["S"] = {"area": 2.0, "center": [(bx + 3.5) % W, (by + 3) % H]}
    return {"idx": idx, "family": "blocked", "die": {"width": W, "height": H, "regions": regions}, "modules": modules,
            "order": ["B", "S"], "nets": [["B", "S"]], "refine": {"split": [2.0, rng.randint(3, 6)]},
            "thr": rng.choice([0.8, 0.9]), "alpha": rng.choice([0.3, 0.5]), "max_iter": rng.choice([1, 2, None])}



def _yaml(obj) -> str:
    import json
    return json.dumps(obj)   # JSON is YAML


def build_instance(inst: dict):
    Rectangle.undefine_epsilon()
    net = {"Modules": {n: inst["modules"][n] for n in inst["order"]}, "Nets": inst["nets"]}
    netlist = Netlist(_yaml(net))
    d = {"width": inst["die"]["width"], "height": inst["die"]["height"]}
    if inst["die"]["regions"]:
        d["regions"] = inst["die"]["regions"]
    die = Die(_yaml(d), netlist)
    rf = inst["refine"]
    if "grid" in rf:
        die.initial_grid(*rf["grid"])
    elif "split" in rf:
        die.split_refinable_regions(*rf["split"])
    return die


def build_table(opt, model, allocation, movable, objs, n):
    """constants / variables of the ratio table `model.a`, with `get_a` of the real code next to each entry."""
    table = []
    for key in model.a.keys():
        if key in movable:
            continue
        row = []
        for c in range(n):
            v = model.a[key][c]
            row.append(("C" if isinstance(v, float) else "V", float(opt.get_a(allocation, objs[key], c))
                        if key in objs else None, float(v) if isinstance(v, float) else None))
        table.append((key, row))
    return table


class _Stop(Exception):
    pass


def consts_synth_case(inst: dict, rng):
    """`optimize_allocation` up to (not including) the solve, on an allocation whose ratios sit on the decision
    boundaries (`== threshold`, `== 1 - threshold`): returns the captured case or a status string."""
    import tools.glbfloor.optimization as opt
    from frame.allocation.allocation import Allocation, create_initial_allocation
    try:
        die = build_instance(inst)
        alloc0 = create_initial_allocation(die)
    except AssertionError:
        return "rejected-input"
    thr = inst["thr"]
    names = [m.name for m in die.netlist.modules if not m.is_fixed]
    lst = []
    for a in alloc0.allocations:
        al = dict(a.alloc)
        if not a.rect.fixed:
            for nm in names:
                u = rng.random()
                if u < 0.2:
                    al[nm] = thr
                elif u < 0.4:
                    al[nm] = 1 - thr
                elif u < 0.5:
                    al[nm] = rng.choice([0.0, 1.0, 0.5])
                elif u < 0.6:
                    al.pop(nm, None)
        lst.append((a.rect, al, a.depth))
    captured = {}
    o_sol = opt.solve_and_extract_solution

    def stub(model, *a, **k):
        captured["model"] = model
        raise _Stop()

    opt.solve_and_extract_solution = stub
    o_gekko = opt.GEKKO
    opt.GEKKO = glb_post.RecGEKKO
    try:
        try:
            allocation = Allocation(lst)
        except (AssertionError, ZeroDivisionError):
            return "rejected-input"     # e.g. a module listed with ratio 0 everywhere: not a well-formed allocation
        try:
            opt.optimize_allocation(die, allocation, {m.name: 0.0 for m in die.netlist.modules}, thr, inst["alpha"],
                                    lambda x, y: x ** 2 + y ** 2)
            return "no-solve-call"
        except _Stop:
            pass
        except AssertionError:
            return "raised:AssertionError"
        except Exception as e:   # noqa: BLE001
            return "operation-raised:" + type(e).__name__
        model = captured["model"]
        n = allocation.num_rectangles
        case = {"thr": thr, "eps_d": Rectangle.distance_epsilon(), "eps_a": Rectangle.area_epsilon(), "mods": [],
                "cells": [rect_d(x.rect) for x in allocation.allocations],
                "offered": [(rect_d(x.rect), [(k, float(v)) for k, v in x.alloc.items()], x.depth) for x in allocation.allocations]}
        movable, objs = set(), {}
        for m in die.netlist.modules:
            case["mods"].append(mod_d(m))
            if m.is_hard and not m.is_fixed:
                movable.add(m.name)
                for r, rect in enumerate(m.rectangles):
                    fake = Module(f"{m.name}_{r}", hard=True)
                    fake.add_rectangle(rect)
                    objs[f"{m.name}_{r}"] = fake
            else:
                objs[m.name] = m
        case["table"] = build_table(opt, model, allocation, movable, objs, n)
        capture_posted(case, model, die, inst["alpha"])
        return case
    finally:
        opt.solve_and_extract_solution = o_sol
        opt.GEKKO = o_gekko
        if "model" in captured:
            try:
                captured["model"].gekko.cleanup()
            except Exception:
                pass
        Rectangle.undefine_epsilon()


def consts_expected(case: dict) -> str:
    exp = f"{len(case['table'])}"
    for key, row in case["table"]:
        exp += f" | {key}" + "".join(f" {cv} {f2hex(val if cv == 'C' else ga)}" for cv, ga, val in row)
    return exp


def consts_synth_stream(ctx: Ctx, n: int, reqs, todo) -> None:
    rich_rng = __import__("random").Random(ctx.rng.getrandbits(48))
    for i in range(n):
        # every fourth instance from the "rich" family: multi-rectangle fixed modules, specialised regions, nets with 3-4
        # pins, nets through / between fixed modules (constant pins, constant objective terms), any alpha
        inst = gen_rich(rich_rng, 100000 + i) if i % 4 == 3 else gen_instance(ctx.rng, 100000 + i)
        sub = __import__("random").Random(ctx.rng.getrandbits(48))
        seed = sub.getrandbits(48)
        one_consts(ctx, inst, seed, reqs, todo)


def one_consts(ctx: Ctx, inst: dict, seed: int, reqs, todo) -> None:
    inp = {"kind": "consts", "inst": inst, "seed": seed}
    case = consts_synth_case(inst, __import__("random").Random(seed))
    if isinstance(case, str):
        ctx.count("consts-synth:" + case)
        if case.startswith("operation-raised"):
            ctx.spec_fail("operation-raised", inp, {"exception": case}, len(inst["order"]))
        ctx.case("consts-synth", (inst["idx"], case), False)
        return
    for key, row in case["table"]:
        for cv, ga, val in row:
            if cv == "C" and ga is not None and val != ga:
                ctx.spec_fail("const-entry-is-get_a", inp, {"module": key, "get_a": ga, "const": val})
    for m in case["mods"]:
        if m["fixed"]:
            row = dict(case["table"]).get(m["name"])
            if row is None or any(cv != "C" for cv, _ga, _v in row):
                ctx.spec_fail("fixed-entries-are-constants", inp, {"module": m["name"]})
    reqs.append(consts_request(case))
    todo.append(("consts-synth", inp, consts_expected(case), "F", len(case["cells"]) + len(case["mods"])))
    if "posted" in case:
        reqs.append(post_request(case))
        todo.append(("post-synth", inp, case["posted"], "F", len(case["cells"]) + len(case["mods"])))
        ctx.case("post-synth", (str(case["offered"]), case["thr"], "post"), True)
    ctx.case("consts-synth", (str(case["offered"]), case["thr"]), True)
    ctx.count("consts-synth:ok")


def run_instance(inst: dict) -> dict:
    """worker: one real glbfloor run with `extract_solution` / `optimize_allocation` wrapped.  Plain data out."""
    import tools.glbfloor.optimization as opt
    out = {"idx": inst["idx"], "status": None, "calls": [], "exc": None}
    cur: dict = {}
    o_opt, o_ext, o_sol = opt.optimize_allocation, opt.extract_solution, opt.solve_and_extract_solution

    from frame.allocation.allocation import Allocation
    o_must, o_ref = Allocation.must_be_refined, Allocation.refine
    loop: list = []
    out["loop"] = loop

    def w_must(self, threshold):
        r = o_must(self, threshold)
        loop.append(["M", bool(r)])
        return r

    def w_ref(self, threshold, *a, **k):
        r = o_ref(self, threshold, *a, **k)
        loop.append(["R"])
        return r

    def w_opt(die, allocation, *a, **k):
        cur["allocation"] = allocation
        if inst["max_iter"] is None and sum(1 for e in loop if e[0] == "O") >= MAX_PASSES_UNBOUNDED:
            raise _Stop()       # harness budget for `max_iter=None` runs that keep refining
        try:
            r = o_opt(die, allocation, *a, **k)
        except Exception:
            loop.append(["O", False])
            raise
        loop.append(["O", True])
        return r

    def w_sol(model, *a, **k):
        g_solve = model.gekko.solve

        def solve(*sa, **sk):
            raised = True
            try:
                r = g_solve(*sa, **sk)
                raised = False
                return r
            finally:
                # GEKKO reports success of the NLP solve in options.APPSTATUS (1 = solution found); it only RAISES
                # on failure when called with debug >= 1 — FRAME may return only when the solver reported success
                try:
                    st_ = int(model.gekko.options.APPSTATUS)
                except Exception:
                    st_ = -1
                loop.append(["S", (not raised) and st_ == 1, st_, raised])

        model.gekko.solve = solve
        try:
            return o_sol(model, *a, **k)
        finally:
            try:
                model.gekko.cleanup()
            except Exception:
                pass

    def w_ext(model, die, cells, threshold):
        gv = opt.get_value
        allocation = cur["allocation"]
        n = len(cells)
        case = {"thr": threshold, "eps_d": Rectangle.distance_epsilon(), "eps_a": Rectangle.area_epsilon(),
                "cells": [rect_d(c) for c in cells], "mods": [],
                "offered": [(rect_d(x.rect), [(k, float(v)) for k, v in x.alloc.items()], x.depth) for x in allocation.allocations],
                "appstatus": int(model.gekko.options.APPSTATUS),
                "die_bb": rect_d(die.bounding_box)}
        movable = set()
        objs = {}
        for m in die.netlist.modules:
            d = mod_d(m)
            nm = m.name
            d["a"] = [gv(model.a[nm][c]) for c in range(n)]
            d["x"], d["y"] = gv(model.x[nm]), gv(model.y[nm])
            if m.is_hard and not m.is_fixed:
                movable.add(nm)
                d["subx"] = [gv(model.x[f"{nm}_{r}"]) for r in range(m.num_rectangles)]
                d["suby"] = [gv(model.y[f"{nm}_{r}"]) for r in range(m.num_rectangles)]
                for r, rect in enumerate(m.rectangles):
                    fake = Module(f"{nm}_{r}", hard=True)
                    fake.add_rectangle(rect)
                    objs[f"{nm}_{r}"] = fake
            else:
                d["subx"], d["suby"] = [], []
                objs[nm] = m
            case["mods"].append(d)
        case["table"] = build_table(opt, model, allocation, movable, objs, n)
        capture_posted(case, model, die, inst["alpha"], gv)
        try:
            res = o_ext(model, die, cells, threshold)
        except AssertionError:
            case["impl"] = "err:Assert"
            out["calls"].append(case)
            raise
        except ZeroDivisionError:
            case["impl"] = "err:ZeroDiv"
            out["calls"].append(case)
            raise
        al = [(rect_d(a.rect), list(a.alloc.items())) for a in res[1].allocations]
        case["impl"] = render_result(al, [mod_d(m) for m in res[0].netlist.modules], "F")
        out["calls"].append(case)
        return res

    opt.optimize_allocation, opt.extract_solution, opt.solve_and_extract_solution = w_opt, w_ext, w_sol
    o_gekko = opt.GEKKO
    opt.GEKKO = glb_post.RecGEKKO
    try:
        try:
            die = build_instance(inst)
            Allocation.must_be_refined, Allocation.refine = w_must, w_ref   # only while glbfloor itself runs
        except AssertionError as e:
            out["status"] = "rejected-input"
            out["exc"] = type(e).__name__
            return out
        out["initial"] = [mod_d(m) for m in die.netlist.modules]
        out["die_bb"] = rect_d(die.bounding_box)
        out["blockages"] = [rect_d(r) for r in die.blockages]
        try:
            rdie, alloc = opt.glbfloor(die, inst["thr"], inst["alpha"], max_iter=inst["max_iter"])
        except Exception as e:   # noqa: BLE001 — classify, never compare messages
            tb = traceback.extract_tb(e.__traceback__)
            in_gekko = any(os.sep + "gekko" + os.sep in f.filename for f in tb)
            if isinstance(e, _Stop):
                out["status"] = "harness-budget"         # unbounded run cut by the harness: counted, not a return
            elif in_gekko:
                out["status"] = "gekko-raised"          # "Solution Not Found": did not return
            elif isinstance(e, AssertionError):
                out["status"] = "raised:AssertionError"  # e.g. the Allocation constructor refusing a ratio 1+1e-9
            elif isinstance(e, KeyError) and len(tb) >= 2 and tb[-1].name == "allocation_module" and \
                    tb[-2].name == "calculate_dispersions" and _without_free_cell(die, e.args[0] if e.args else None):
                # a module lying entirely on blockages / fixed modules / outside the die has no cell in the initial
                # allocation; glbfloor raises before optimising: it does not return (outside "whenever it returns")
                out["status"] = "raised:KeyError-no-free-cell"
            else:
                out["status"] = "operation-raised:" + type(e).__name__
                out["trace"] = [f"{os.path.basename(f.filename)}:{f.lineno}" for f in tb[-4:]]
            out["exc"] = type(e).__name__
            return out
        out["status"] = "returned"
        out["final_mods"] = [mod_d(m) for m in rdie.netlist.modules]
        out["final_alloc"] = [(rect_d(a.rect), list(a.alloc.items()), a.depth) for a in alloc.allocations]
        out["same_die"] = rdie is die
        return out
    finally:
        opt.optimize_allocation, opt.extract_solution, opt.solve_and_extract_solution = o_opt, o_ext, o_sol
        opt.GEKKO = o_gekko
        Allocation.must_be_refined, Allocation.refine = o_must, o_ref
        Rectangle.undefine_epsilon()


def _without_free_cell(die, name) -> bool:
    """does the named module overlap no refinable rectangle of the die at all?"""
    try:
        m = die.netlist.get_module(name)
        rects = list(m.rectangles)
        if not rects:
            return False
        refinable, _fixed = die.floorplanning_rectangles()
        return sum(c.area_overlap(r) for c in refinable for r in rects) <= 1e-9 * sum(r.area for r in rects)
    except Exception:   # noqa: BLE001
        return False


def loop_check(ctx: Ctx, inst: dict, out: dict, reqs: list, todo: list) -> None:
    """loop structure: the observed sequence of must_be_refined / refine / optimize_allocation calls of the real
    `glbfloor` replayed through the model's loop (`loopG`, driver op `loop`)."""
    ev = out.get("loop")
    if ev is None or out["status"] in ("rejected-input",):
        return
    ms = [e[1] for e in ev if e[0] == "M"]
    # the model's optimise step is `solve s = none` (solver failure) or extract_solution failing: a pass counts as
    # successful for the model only if Python's pass returned AND every solve of that pass reported success —
    # "Python raised <=> the model's solve/extract = none"
    os_, ok_solves = [], True
    for e in ev:
        if e[0] == "S":
            ok_solves = ok_solves and bool(e[1])
        elif e[0] == "O":
            os_.append(bool(e[1]) and ok_solves)
            ok_solves = True
    if out["status"] == "returned":
        acts = [("R" if e[0] == "R" else "O") for e in ev if e[0] not in ("M", "S")]
        rest = "0" if ev and ev[-1] == ["M", False] else "-"
        exp = f"ret {','.join(acts) if acts else '-'} {rest} 0"
    elif ev and ev[-1] == ["O", False]:
        exp = "none"
    else:
        return          # raised outside optimize_allocation (initial allocation, refine): not a loop observation
    if out["status"] == "returned" and any(e[0] == "S" and not e[1] for e in ev):
        bad = [e for e in ev if e[0] == "S" and not e[1]]
        ctx.spec_fail("returned-without-solver-success", {"kind": "glb", "inst": inst},
                      {"solves": len([e for e in ev if e[0] == "S"]), "failed": len(bad), "appstatus": [e[2] for e in bad]},
                      len(inst["order"]))
    mi = -1 if inst["max_iter"] is None else inst["max_iter"]
    reqs.append(f"F loop {mi} {len(os_) + 3} {len(ms)}" + "".join(f" {int(b)}" for b in ms) +
                f" {len(os_)}" + "".join(f" {int(b)}" for b in os_))
    todo.append(("loop-live", {"kind": "glb", "inst": inst}, exp, "X", len(ev)))
    ctx.case("loop-live", (inst["idx"], str(ev), mi), len(ev) > 1)
    ctx.count("loop:" + "".join(e[0] + (str(int(e[1])) if len(e) > 1 else "") for e in ev if e[0] != "S")[:24])


def run_instances(insts: list[dict]) -> list[dict]:
    if len(insts) <= 1:
        return [run_instance(i) for i in insts]
    import multiprocessing as mp
    with mp.get_context("fork").Pool(min(16, os.cpu_count() or 1, len(insts))) as pool:
        return pool.map(run_instance, insts, chunksize=1)


def spec_run(ctx: Ctx, inst: dict, out: dict) -> None:
    """the property's clauses, with Fractions, on the (die, allocation) a real glbfloor run returned."""
    inp = {"kind": "glb", "inst": inst}
    size = len(inst["order"]) + len(out["final_alloc"])
    die = out["die_bb"]
    X0, Y0, X1, Y1 = _bb(die)
    t = GEO_TOL * max(X1 - X0, Y1 - Y0, 1)
    cells = [c for c, _a, _d in out["final_alloc"]]
    # cells inside the die, pairwise non-overlapping
    for c in cells:
        x0, y0, x1, y1 = _bb(c)
        if not (x0 >= X0 - t and y0 >= Y0 - t and x1 <= X1 + t and y1 <= Y1 + t):
            ctx.spec_fail("cells-inside-die", inp, {"cell": c}, size)
            break
    done = False
    for i in range(len(cells)):
        for j in range(i + 1, len(cells)):
            if _ov(cells[i], cells[j]) > t * t + t * max(X1 - X0, Y1 - Y0):
                ctx.spec_fail("cells-non-overlapping", inp, {"a": cells[i], "b": cells[j]}, size)
                done = True
                break
        if done:
            break
    # cells avoid blockages (part of "inside the die" for a die with blockages)
    for c in cells:
        if any(_ov(c, b) > t * max(X1 - X0, Y1 - Y0) for b in out["blockages"]):
            ctx.spec_fail("cells-avoid-blockages", inp, {"cell": c}, size)
            break
    # ratios in [0,1], cell totals <= 1 (solver tolerance)
    for c, al, _d in out["final_alloc"]:
        for n, v in al:
            if not (0 <= _F(v) <= 1):
                ctx.spec_fail("ratio-in-unit-interval", inp, {"cell": c, "module": n, "ratio": v}, size)
        tot = sum(_F(v) for _n, v in al)
        if tot > 1 + _F(SOLVER_TOL):
            ctx.spec_fail("cell-total-at-most-1", inp, {"cell": c, "total": float(tot)}, size)
        if not al:
            ctx.spec_fail("no-empty-cell", inp, {"cell": c}, size)
    # centres in the die
    for m in out["final_mods"]:
        if m["cx"] is None or not (X0 - t <= _F(m["cx"]) <= X1 + t and Y0 - t <= _F(m["cy"]) <= Y1 + t):
            ctx.spec_fail("centre-in-die", inp, {"module": m["name"], "centre": [m["cx"], m["cy"]]}, size)
    if [m["name"] for m in out["final_mods"]] != [m["name"] for m in out["initial"]]:
        ctx.spec_fail("same-modules", inp, {}, size)
        return
    for b, a in zip(out["initial"], out["final_mods"]):
        if b["fixed"]:
            # fixed modules keep their rectangles (and centre) ...
            if a["rects"] != b["rects"]:
                ctx.spec_fail("fixed-keeps-rectangles", inp, {"module": b["name"], "before": b["rects"], "after": a["rects"]}, size)
            if abs(_F(a["cx"]) - _F(b["cx"])) > t or abs(_F(a["cy"]) - _F(b["cy"])) > t:
                ctx.spec_fail("fixed-keeps-centre", inp, {"module": b["name"]}, size)
            # ... and fully own their cells
            covered = Fraction(0)
            for c, al, _d in out["final_alloc"]:
                o = sum(_ov(c, r) for r in b["rects"])
                listed = [v for n, v in al if n == b["name"]]
                if o > t * max(X1 - X0, Y1 - Y0):
                    covered += o
                    if not (len(al) == 1 and listed == [1.0]):
                        ctx.spec_fail("fixed-owns-its-cells", inp, {"module": b["name"], "cell": c, "alloc": al}, size)
                    carea = _F(c["w"]) * _F(c["h"])
                    if abs(o - carea) > t * max(X1 - X0, Y1 - Y0):
                        ctx.spec_fail("fixed-cell-inside-module", inp, {"module": b["name"], "cell": c}, size)
                elif listed:
                    ctx.spec_fail("fixed-listed-elsewhere", inp, {"module": b["name"], "cell": c, "alloc": al}, size)
            area = sum(_F(r["w"]) * _F(r["h"]) for r in b["rects"])
            if abs(covered - area) > t * max(X1 - X0, Y1 - Y0) * 4:
                ctx.spec_fail("fixed-cells-all-kept", inp, {"module": b["name"], "covered": float(covered), "area": float(area)}, size)
        elif b["hard"]:
            bad = check_rigid(b, a, GEO_TOL, False)
            if bad:
                ctx.spec_fail("hard-only-translated-or-mirrored:" + bad[0], inp, dict(bad[1], module=b["name"]), size)
            if len(b["rects"]) > 1:
                mx = any((p["cx"] - b["rects"][0]["cx"]) * (q["cx"] - a["rects"][0]["cx"]) < 0 for p, q in zip(b["rects"], a["rects"]))
                my = any((p["cy"] - b["rects"][0]["cy"]) * (q["cy"] - a["rects"][0]["cy"]) < 0 for p, q in zip(b["rects"], a["rects"]))
                ctx.count("live-hard-multi:" + ("mirrored" if (mx or my) else "translated"))
                if b["flip"]:
                    lm = ctx.extra.setdefault("live_flippable_multi_rectangle", {"runs": 0, "mirrored": 0})
                    lm["runs"] += 1
                    lm["mirrored"] += int(mx or my)
        if b["fixed"] and len(b["rects"]) > 1:
            ctx.count("live-fixed-multi-rectangle")
            ctx.count(f"live-fixed-rectangles:{len(b['rects'])}")


def solver_post(case: dict) -> list[str]:
    """`SolverPost` of FV/Props/C10.lean on a captured answer, each part within the solver tolerance `SOLVER_TOL`;
    returns the violated parts."""
    bad = []
    n = len(case["cells"])
    t = _F(SOLVER_TOL)
    X0, Y0, X1, Y1 = _bb(case["die_bb"])
    for m in case["mods"]:
        if any(not (-t <= _F(v) <= 1 + t) for v in m["a"]):
            bad.append("bounds")
        if not (X0 - t <= _F(m["x"]) <= X1 + t and Y0 - t <= _F(m["y"]) <= Y1 + t):
            bad.append("centres")
    for c in range(n):
        if sum(_F(m["a"][c]) for m in case["mods"]) > 1 + t:
            bad.append("rows")
    return sorted(set(bad))


def check_calls(ctx: Ctx, inst: dict, out: dict, reqs: list, todo: list) -> None:
    for k, case in enumerate(out["calls"]):
        inp = {"kind": "extract", "case": {kk: case[kk] for kk in ("thr", "eps_d", "eps_a", "cells", "mods")}}
        reqs.append(extract_request(case, "F"))
        todo.append(("extract-live", inp, case["impl"], "F", len(case["cells"]) + len(case["mods"])))
        ctx.case("extract-live", (inst["idx"], k, case["impl"]), True)
        # constants table
        movable = [m for m in case["mods"] if m["hard"] and not m["fixed"]]
        exp = consts_expected(case)
        for key, row in case["table"]:
            for cv, ga, val in row:
                if cv == "C" and ga is not None and val != ga:
                    ctx.spec_fail("const-entry-is-get_a", {"kind": "glb", "inst": inst}, {"module": key, "get_a": ga, "const": val})
        reqs.append(consts_request(case))
        todo.append(("consts-live", {"kind": "glb", "inst": inst}, exp, "F", len(case["cells"]) + len(case["mods"])))
        ctx.case("consts-live", (inst["idx"], k, "consts"), bool(case["table"]))
        # what was posted to GEKKO vs the Lean generator; the solver's point on what was posted
        if "posted" in case:
            reqs.append(post_request(case))
            todo.append(("post-live", {"kind": "glb", "inst": inst}, case["posted"], "F", len(case["cells"]) + len(case["mods"])))
            ctx.case("post-live", (inst["idx"], k, "post"), True)
            pm = ctx.extra.setdefault("posted_monitor", {"answers": 0, "within_1e-5": 0, "worst": 0.0, "worst_where": None,
                                                         "equations_evaluated": 0})
            res = case.get("posted_res")
            if res is not None and case["appstatus"] == 1:
                pm["answers"] += 1
                pm["equations_evaluated"] += res["equations"]
                if res["worst"] <= 1e-5:
                    pm["within_1e-5"] += 1
                if res["worst"] > pm["worst"]:
                    pm["worst"], pm["worst_where"] = res["worst"], res["where"]
        # SolverPost monitor
        bad = solver_post(case)
        st = ctx.extra.setdefault("solver_post", {"answers": 0, "satisfied": 0, "anomalies": [], "appstatus_not_1": 0})
        st["answers"] += 1
        if case["appstatus"] != 1:
            st["appstatus_not_1"] += 1
        if bad:
            if len(st["anomalies"]) < 10:
                st["anomalies"].append({"instance": inst["idx"], "call": k, "violated": bad, "appstatus": case["appstatus"],
                                        "run": out["status"]})
            st.setdefault("anomaly_count", 0)
            st["anomaly_count"] += 1
            if out["status"] == "returned":
                # an answer outside SolverPost (beyond the solver tolerance) was extracted in a run that RETURNED:
                # not excused — FRAME built the model and decided to go on with this answer
                ctx.spec_fail("solver-post-violated-on-returned-run", {"kind": "glb", "inst": inst},
                              {"call": k, "violated": bad, "appstatus": case["appstatus"]}, len(inst["order"]))
        else:
            st["satisfied"] += 1
        # ConstRespect / OfferedFixed hypotheses of `fixed_kept` hold on the captured data
        for m in case["mods"]:
            if m["fixed"]:
                row = dict(case["table"]).get(m["name"])
                if row is None or any(cv != "C" for cv, _ga, _v in row):
                    ctx.spec_fail("fixed-entries-are-constants", {"kind": "glb", "inst": inst}, {"module": m["name"]})
                elif any(ga not in (0.0, 1.0) for _cv, ga, _v in row):
                    ctx.count("offered-fixed-not-0/1")


def posted_close(ctx: Ctx, impl: str, model: str) -> tuple[bool, bool]:
    """the posted model against the generator's: declarations and constants token by token; rows one by one, in order —
    the same tree (numbers within 1e-9), or, failing that, the same function of the variables (`rows_same_meaning`: an
    algebraically equivalent way of writing a row is not a difference; counted in coverage.posted_rows_equivalent_form)."""
    pi, pm = impl.split(" || "), model.split(" || ")
    if len(pi) != 3 or len(pm) != 3:
        return False, False
    exact = True
    for a, b in zip(pi[:2], pm[:2]):
        ok, ex = lines_close(a, b, "F", 1e-9)
        if not ok:
            return False, False
        exact = exact and ex
    ri, rm = pi[2].split(" | "), pm[2].split(" | ")
    if len(ri) != len(rm) or ri[0] != rm[0]:
        return False, False
    sub = None
    for a, b in zip(ri[1:], rm[1:]):
        ok, ex = lines_close(a, b, "F", 1e-9)
        if not ok:
            if sub is None:
                sub = __import__("random").Random(len(impl))
            if not glb_post.rows_same_meaning(a, b, sub):
                return False, False
            ctx.extra["posted_rows_equivalent_form"] = ctx.extra.get("posted_rows_equivalent_form", 0) + 1
        exact = exact and ok and ex
    return True, exact


def compare(ctx: Ctx, todo, replies) -> None:
    for (stream, inp, impl, mode, size), model in zip(todo, replies):
        if stream.startswith("post-"):
            impl, model = glb_post.norm_posted(impl), glb_post.norm_posted(model)
        if impl == model:
            continue
        if stream.startswith("post-"):
            ok, exact = posted_close(ctx, impl, model)
        else:
            ok, exact = lines_close(impl, model, mode, 0.0 if mode == "Q" else 1e-9)
        if ok:
            ctx.drift += 0 if exact else 1
            continue
        ctx.disagree(stream, inp, impl[:4000], model[:4000], size)


def synth_stream(ctx: Ctx, n: int, reqs, todo, seeds=()) -> None:
    for i in range(n):
        mode = "Q" if i % 3 == 0 else "F"
        case = gen_synth(ctx.rng, mode)
        one_synth(ctx, case, mode, reqs, todo)


def one_synth(ctx: Ctx, case: dict, mode: str, reqs, todo) -> None:
    inp = {"kind": "extract", "case": case, "mode": mode}
    impl, before, al, after = impl_extract(case, mode)
    reqs.append(extract_request(case, mode))
    todo.append(("extract-synth-" + mode, inp, impl, mode, len(case["cells"]) + len(case["mods"])))
    if impl.startswith("raised:"):
        ctx.spec_fail("operation-raised", inp, {"exception": impl[7:]}, len(case["cells"]) + len(case["mods"]))
    spec_extract(ctx, case, impl, before, al, after, inp, exact=(mode == "Q"))
    hardmov = [m for m in case["mods"] if m["hard"] and not m["fixed"]]
    ctx.case("extract-synth-" + mode, (case["thr"], [(m["name"], m["a"], m["x"], m["y"], m["subx"]) for m in case["mods"]]),
             impl.startswith("ok") or ctx.rng.random() < 0.3)
    ctx.count("synth:" + ("ok" if impl.startswith("ok") else impl))
    if impl.startswith("ok"):
        for b, a in zip(before, after):
            if b["hard"] and not b["fixed"] and b["flip"] and len(b["rects"]) > 1:
                fx = any((p["cx"] - b["rects"][0]["cx"]) * (q["cx"] - a["rects"][0]["cx"]) < 0 for p, q in zip(b["rects"], a["rects"]))
                fy = any((p["cy"] - b["rects"][0]["cy"]) * (q["cy"] - a["rects"][0]["cy"]) < 0 for p, q in zip(b["rects"], a["rects"]))
                ctx.count("synth-flip:" + ("x" if fx else "") + ("y" if fy else "") + ("none" if not (fx or fy) else ""))


def sum_stream(ctx: Ctx, n: int, reqs, todo) -> None:
    rng = ctx.rng
    for _ in range(n):
        k = rng.choice([0, 1, 2, 3, 4, 6, 9])
        style = rng.random()
        if style < 0.3:
            xs = [rng.uniform(-10, 10) for _ in range(k)]
        elif style < 0.6:
            xs = [rng.choice([1e16, -1e16, 1.0, 1e-8, 3.3, -1.0, 0.1, 1e100, -1e100]) for _ in range(k)]
        else:
            xs = [rng.uniform(0, 8) * rng.uniform(0, 4) for _ in range(k)]
        impl = f2hex(float(sum(xs)))
        reqs.append("F sum " + _list_tok(xs, "F"))
        todo.append(("sum", {"kind": "sum", "xs": xs}, impl, "X", k))   # mode X: exact token comparison only
        ctx.case("sum", tuple(xs), k >= 2)


def run(ctx: Ctx) -> None:
    ctx.rule = ("glb: generated dies 4..8 x 4..6 (50% with 1-2 blockages, 0-2 fixed modules on integer boxes), <= 5 modules "
                "(0-2 movable hard with 1-3 rectangles, half flippable; 1-3 soft; every module initially at least 60% on free area), 1-4 nets, initial grid / split into 2-8 "
                "regions, threshold in {0.5..0.99}, alpha in {0.1,0.3,0.5,0.9}, max_iter in {1,2,3}; a run is non-trivial iff "
                "glbfloor returned.  flipper: 5 fixed instances (mirrored result).  rich: 16 sub-seeded instances, die 5..8 x 4..5 with a "
                "blockage and a DSP/BRAM region, 1-2 fixed modules of 2-3 abutting boxes, a flippable 2-3 rectangle single-trunk hard "
                "module with a branch 0.01-0.125 off the trunk's axis, 1-3 soft modules, a 3-4 pin net + 1-3 two-pin nets (weights), alpha "
                "uniform in (0.03,0.97), max_iter in {None,None,1,1,2,3}.  blocked: a module entirely on a 2x2 blockage.  settled: rows x cols grid (initial_grid or split of a power-of-two die), one soft/hard module "
                "centred per cell, square side 0.9-1.25 cell sides (1-2 leakers > 1), thr in {0.85,0.9,0.95}, max_iter in {1,2,3,None}, "
                "total module area < die area.  extract-synth: synthetic answers (ratios 0 / 1 / exactly 1-thr / out of range / random; "
                "sub-rectangle coordinates same / mirrored / random) on the real extract_solution; distinct = distinct "
                "(instance | answer).  consts-synth: initial allocations of generated instances with ratios overwritten by "
                "threshold / 1-threshold / 0 / 1 / 0.5 / removed.  sum: float lists incl. cancellation patterns")
    ctx.assumptions += [
        "the solver's answer is an input: `SolverPost` (FV/Props/C10.lean) is assumed by extract_ratios / fixed_kept and "
        "monitored on every captured answer (see coverage.solver_post)",
        "runs in which GEKKO raises or an assertion fires did not return and are outside the property (counted)",
        "a module (hard or soft) lying entirely on blockages has no cell in the initial allocation: glbfloor raises KeyError in "
        "calculate_dispersions before the first optimisation — a raise is not a return, the property quantifies over runs that "
        "return: outside the quantifier (family `blocked`, status raised:KeyError-no-free-cell; any other KeyError is a failure)",
        "loop theorems: `glbLoop_invariant`/`glbfloor_feasible` keep refine / must_be_refined abstract; `glbfloorA_*` instantiate "
        "them with the allocation model of C02/C12 (no hypothesis about refine left); the start allocation is any ValidAlloc "
        "inside the die (create_initial_allocation: C03)",
    ]
    glb_post.self_test()      # the "same meaning" device of the posted-rows comparison must not swallow a real difference
    ctx.extra["posted_rows_meaning_selftest"] = "ok (4 equivalent pairs accepted, 7 different pairs rejected)"
    reqs, todo = [], []
    seeds = getattr(ctx, "seed_inputs", [])
    for s in seeds:
        if isinstance(s, dict) and s.get("kind") == "extract":
            one_synth(ctx, s["case"], s.get("mode", "F"), reqs, todo)
        elif isinstance(s, dict) and s.get("kind") == "consts":
            one_consts(ctx, s["inst"], s["seed"], reqs, todo)
    # ---- real runs
    n_runs = ctx.n(32, 320)
    insts = [gen_instance(ctx.rng, i) for i in range(n_runs)]
    insts += [gen_settled(ctx.rng, n_runs + i) for i in range(ctx.n(16, 120))]
    insts += [gen_infeasible(ctx.rng, len(insts) + i) for i in range(ctx.n(8, 40))]
    insts += [gen_pulled(ctx.rng, len(insts) + i) for i in range(ctx.n(4, 24))]
    # sub-seeded families (their own generator state: adding / removing one does not shift the other streams)
    sub = __import__("random").Random(ctx.rng.getrandbits(48))
    insts += [dict(copy.deepcopy(k), idx=len(insts) + i, family="flipper") for i, k in enumerate(KNOWN_FLIPPERS)]
    insts += [gen_rich(sub, len(insts) + i) for i in range(ctx.n(16, 120))]
    insts += [gen_blocked(sub, len(insts) + i) for i in range(ctx.n(2, 8))]
    n_runs = len(insts)
    outs = run_instances(insts)
    # two more runs IN THIS PROCESS (the pool's children are invisible to the anchored-line coverage): one that refines
    # (max_iter 2) and one `max_iter=None` run that stops because nothing must be refined; checked like every other run
    for inproc in (dict(copy.deepcopy(KNOWN_FLIPPERS[0]), family="in-process"), copy.deepcopy(SETTLED_PAIR)):
        inproc["idx"] = len(insts)
        insts.append(inproc)
        outs.append(run_instance(inproc))
    n_runs = len(insts)
    status: dict[str, int] = {}
    for inst, out in zip(insts, outs):
        status[out["status"]] = status.get(out["status"], 0) + 1
        returned = out["status"] == "returned"
        ctx.case("glb", ("inst", inst["idx"], str(inst["modules"]), inst["thr"], inst["alpha"], inst["max_iter"]), returned,
                 sample=({"die": inst["die"], "modules": inst["modules"], "thr": inst["thr"], "alpha": inst["alpha"],
                          "max_iter": inst["max_iter"], "refine": inst["refine"], "status": out["status"],
                          "cells_returned": len(out.get("final_alloc", []))} if returned else None))
        ctx.count((inst.get("family", "glb") + ":") + out["status"])
        loop_check(ctx, inst, out, reqs, todo)
        if out["status"].startswith("operation-raised"):
            ctx.spec_fail("operation-raised", {"kind": "glb", "inst": inst}, {"exception": out["exc"], "where": out.get("trace")},
                          len(inst["order"]))
        if returned:
            kinds = "".join(sorted({("F" if m["fixed"] else "H" if m["hard"] and not m["flip"] else "P" if m["hard"] else "S")
                                    for m in out["initial"]}))
            ctx.count("mix:" + kinds)
            ctx.count(f"iterations:{len(out['calls'])}")
            ctx.count(f"thr:{inst['thr']}")
            ctx.count(f"returned:max_iter={inst['max_iter']}")
            if any(r[4] not in ("#",) for r in inst["die"]["regions"]):
                ctx.count("returned:die-with-specialised-region")
            if any(r[4] == "#" for r in inst["die"]["regions"]):
                ctx.count("returned:die-with-blockage")
            if any(len([p for p in n if isinstance(p, str)]) > 2 for n in inst["nets"]):
                ctx.count("returned:netlist-with-hyperedge")
            spec_run(ctx, inst, out)
        check_calls(ctx, inst, out, reqs, todo)
    ctx.extra["glb_runs"] = {"total": n_runs, "by_status": status}
    lm = ctx.extra.get("live_flippable_multi_rectangle")
    if not lm or lm["mirrored"] == 0:
        ctx.notes.append("no live run mirrored a flippable hard module (IPOPT is warm-started in the initial orientation and the "
                         "squared offset equations keep it there; 141 targeted probes never flipped): the mirror path of "
                         "extract_solution is exercised by the extract-synth streams only (see input_distribution synth-flip:*)")
    if status.get("returned", 0) == 0:
        ctx.notes.append("no glbfloor run returned: spec-on-implementation of the glb stream is vacuous in this run")
    # ---- synthetic answers, sum
    consts_synth_stream(ctx, ctx.n(120, 1500), reqs, todo)
    synth_stream(ctx, ctx.n(900, 12000), reqs, todo)
    sum_stream(ctx, ctx.n(300, 5000), reqs, todo)
    replies = ctx.model(reqs)
    if replies is None:
        ctx.notes.append("model driver unavailable: correspondence not run")
        return
    compare(ctx, todo, replies)


def replay(ctx: Ctx, body: dict) -> None:
    inp = body["input"]
    reqs, todo = [], []
    if inp["kind"] == "glb":
        inst = inp["inst"]
        out = run_instance(inst)
        print("replayed run:", out["status"])
        if out["status"] == "returned":
            spec_run(ctx, inst, out)
        elif out["status"].startswith("operation-raised"):
            ctx.spec_fail("operation-raised", inp, {"exception": out["exc"], "where": out.get("trace")})
        loop_check(ctx, inst, out, reqs, todo)
        check_calls(ctx, inst, out, reqs, todo)
    elif inp["kind"] == "extract":
        one_synth(ctx, inp["case"], inp.get("mode", "F"), reqs, todo)
    elif inp["kind"] == "consts":
        one_consts(ctx, inp["inst"], inp["seed"], reqs, todo)
    elif inp["kind"] == "sum":
        xs = inp["xs"]
        reqs.append("F sum " + _list_tok(xs, "F"))
        todo.append(("sum", inp, f2hex(float(sum(xs))), "X", len(xs)))
    replies = ctx.model(reqs)
    if replies:
        compare(ctx, todo, replies)

"""C12 — Refinement decisions are consistent, exact and terminate.

Same model and correspondence run as C02 (operation histories on `Allocation`, Q and F streams) with an operation mix
that stresses the decisions: `must_be_refined` queries at thresholds equal to occupancies, cells with empty occupancy
maps, cells of fixed modules, layouts with different numbers of x and y boundaries, sliver cuts.
Spec on implementation (exact, `fractions.Fraction`): `must_be_refined(t)` ⇔ `refine(t)` changes the cell list (and then
adds cells); `refine` = exactly the expected halvings in order with depth + levels; `uniform_refinement_depth` leaves
every refinable cell at the former maximum depth; after `griddify` no refinable cell is crossed by a side line of
another cell unless the cut would leave a piece thinner than 1% of the RESULT cell's other side — in both directions, with no
excepted region since fixes/C12_griddify_x_before_y.diff (the model's `griddify` is the fixpoint loop; layouts that need
several rounds are generated on purpose: `gen_cascade_input`) — and a second `griddify` of the result changes nothing.  BOUNDARY: a piece of EXACTLY
1% of the other side is refused as well (`min(...) > ratio * side` is strict; `FV.Rect.xCuttable` likewise) — checked
directly on `x_cuttable / y_cuttable` (boundary refused, one ulp inside accepted) and on Q layouts that hit it exactly.
"""
from __future__ import annotations

from vcheck import Ctx
import alloc_common as ac
from props import c02

LEVEL = "proof"
DRIVERS = ["drv_alloc"]
TRUSTED = c02.TRUSTED
FLAVOUR = "c12"


def spec_steps(ctx: Ctx, inp: dict, steps) -> None:
    ac.spec_raised(ctx, inp, steps)
    for idx, (op, before, after, error) in enumerate(steps):
        if op[0] in ("R", "U", "G", "M"):
            ac.spec_c12_step(ctx, inp, idx, op, before, after, error)
        elif op[0] in "NILK":
            ac.spec_accessor(ctx, inp, idx, op, before, after, error)


def one(ctx: Ctx, rng, mode: str, pending: list) -> None:
    if mode == "Q" and rng.random() < 0.04:
        inp = ac.gen_boundary_input(rng)          # griddify exactly on the 1 % boundary
        segs, steps, sqrt_ans = ac.run_impl(inp)
    elif rng.random() < 0.05:
        inp = ac.gen_cascade_input(rng, mode)     # griddify needs several rounds of its two sweeps
        segs, steps, sqrt_ans = ac.run_impl(inp)
    else:
        inp = ac.gen_input(rng, mode, FLAVOUR)
        nops = rng.choice([1, 2, 3, 3, 4, 5, 6])
        segs, steps, sqrt_ans = ac.run_impl(inp, rng, FLAVOUR, nops)
    pending.append((inp, segs, ac.request(inp, sqrt_ans), sqrt_ans))
    spec_steps(ctx, inp, steps)
    valid = not segs[0].startswith("err")
    decisions = sum(1 for (op, b, a, e) in steps if op[0] in "RUGM")
    ctx.case(mode, (inp["cells"], inp["ops"], inp["fixed"], inp["eps"]), nontrivial=valid and decisions > 0,
             sample={"mode": mode, "ncells": len(inp["cells"]), "ops": inp["ops"], "fixed": inp["fixed"],
                     "final": segs[-1][:120]})
    ctx.count("family:" + inp["family"])
    ctx.count("init:" + ("valid" if valid else segs[0]))
    for (op, b, a, e) in steps:
        if op[0] not in ("init", "input-mutated"):
            ctx.count("op:" + op[0] + (":err" if e else ""))
    if any(len(c["alloc"]) == 0 for c in inp["cells"]):
        ctx.count("has-empty-map")
    if inp["fixed"] or any(c.get("fixed") for c in inp["cells"]):
        ctx.count("has-fixed-cell")
    if valid:
        first = steps[0][2]["cells"]
        nx = len({v for c in first for v in (ac.cbb(c)[0], ac.cbb(c)[2])})
        ny = len({v for c in first for v in (ac.cbb(c)[1], ac.cbb(c)[3])})
        ctx.count("boundaries:" + ("nx=ny" if nx == ny else "nx<ny" if nx < ny else "nx>ny"))


def run(ctx: Ctx) -> None:
    ctx.rule = ("as C02 (guillotine layouts, 5 coordinate families, Q and F streams) with 50% of the inputs carrying cells with an "
                "empty occupancy map, thresholds drawn from the occupancies themselves (ties of `<=`), 30% must_be_refined queries, "
                "sliver cuts at 1/128 (Q) or 0.01 (F) from a side, unequal numbers of x and y boundaries; non-trivial = accepted "
                "input with at least one decision (refine / uniform / griddify / must_be_refined); distinct = distinct "
                "(cells, operations, fixed marks, tolerances)")
    ctx.assumptions.append("inputs are well-typed YAML trees (numbers, strings, dicts); type errors are outside the model")
    ctx.assumptions.append("termination is formalised as: the predicate is true exactly on non-fixpoints of refine and every guarded "
                           "iteration adds cells (children inherit ratios, so an unguarded repeat without new ratios splits for ever by design)")
    n = min(ctx.n(1000, 5000), 5000)   # the x20 extended search is capped: histories are expensive
    pending: list = []
    seeds = getattr(ctx, "seed_inputs", None) or []
    for s in seeds[:20]:
        replay_input(ctx, s, pending)
    for i in range(n):
        one(ctx, ctx.rng, "Q" if i % 2 == 0 else "F", pending)
    c02.flush(ctx, pending, selftest=True)
    ac.cuttable_boundary_stream(ctx, ctx.n(400, 4000))


def replay_input(ctx: Ctx, inp: dict, pending: list) -> None:
    inp = dict(inp)
    segs, steps, sqrt_ans = ac.run_impl(inp)
    pending.append((inp, segs, ac.request(inp, sqrt_ans), sqrt_ans))
    spec_steps(ctx, inp, steps)


def replay(ctx: Ctx, body: dict) -> None:
    pending: list = []
    if body["input"].get("op") == "cuttable-boundary":
        ac.replay_boundary(ctx, body["input"])
        return
    replay_input(ctx, body["input"], pending)
    c02.flush(ctx, pending)

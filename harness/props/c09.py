"""C09 — Legaliser constraint system admits exactly the legal floorplans.

GEKKO never solves here: the real `Model(...)` of tools/legalfloor is built (that only creates variables and
`Equation` objects), and every `Equation` that carries a legality condition is walked (under four values of the
process-wide slack: 0, the one `Model(...)` installs (0.27), 0.05, and 5e-7, which the code clamps to 0): per module `get_constraints()` (Bounds, Shapes, Attach, Intra),
then the groups Area, Inter, Fix of `ModelWrapper.constraints`.

Correspondence (model = FV/Model/Legal.lean run at Float by `drv_legal`):
  * utils   : `netlist_to_utils(netlist)` vs `netlistToUtils` (ml, al and the four fixing tables);
  * struct  : the expression trees of every equation, node for node, constants bit-equal, names, groups,
              comparison, hard flag, order;
  * eval    : `lhs.evaluate()`, `rhs.evaluate()`, `is_equation_met()` of every equation under assigned
              configurations and each slack vs the model's `eval` / `met` (eps = the slack, clamped below 1e-6; tol = 1e-6).
Spec on implementation: `Legal` (FV/Props/C09.lean) re-implemented independently with `fractions.Fraction`
decides for every configuration which legality clauses hold / are violated by a clear margin; the set of
groups with an unmet equation must be exactly the set of violated clauses (empty for legal configurations,
in particular for the input configuration of a legal floorplan).  At every slack e the relaxed clauses of the
slack theorems (`*_met_iff`, delta = e + 1e-6), evaluated exactly, must agree group by group with what
`is_equation_met()` reports; probes sit at 0.5 / 0.9 / 1.1 / 1.25 x the threshold (also across the 1e-6 clamp).

Round e additions:
  * decls   : every variable `Model(...)` declares (`_define_vars`, `define_time`): name, initial VALUE, LOWER, UPPER — three views
              (ExpressionTree.data, the attached GKVariable, the variable list of the GEKKO object) vs `decls` of the model;
  * slack   : `get_epsilon()` after `define_time` / `time_advance` / at chosen times vs `slackRaw` + `epsValue` (0.3 * 0.9^t, 0 below 1e-6);
  * step    : the hard caps of group `radius` (structure, `evaluate`, `is_equation_met` of HARD equations) vs `stepEqs`;
  * enforce : the `enforce` flag `Model.build_model` gives every no-overlap equation vs `enforceFlags` (L1 gap <= 0.2 max(W, H));
  * rid     : `turn_off_rects(0.1)` + `get_constraints` with disabled rectangles (flags, moved centres, `Rid` equations) vs the model.
Spec on the implementation, new clauses: the system "equations AND declared bounds" (bounds read from the real GKVariables):
`declared.sound-positive` (a configuration with a non-positive side never satisfies both), `declared.complete` (a legal floorplan
with sides >= 0.1 is inside the bounds); `slack-schedule`; `caps.sound / caps.complete`; `enforce.*` (a dropped pair is further
apart than the threshold); `rid.flag`.
END TO END (`live` stream): the real `tools/legalfloor` `main` — GEKKO and the local solver binary, offline — on tiny legal and
slightly illegal inputs in forked children; a floorplan returned by a run whose last solve succeeded with every rectangle
enabled must be legal (exact Fraction oracle) within the slack of that solve + the solver's relative tolerance (RTOL = 1e-2).
Failures inside the region of a finding this check proposes (findings/C09_*.json) are counted in `proposed_findings` and become
KNOWN-FINDING lines once the id is registered in known_findings.json.
"""
from __future__ import annotations

from fractions import Fraction

from vcheck import Ctx, f2hex, hex2f
import legal_common as _lc
from legal_common import Built, ser_eq, ser_utils, cleanup as _cleanup

LEVEL = "proof"
DRIVERS = ["drv_legal"]
TRUSTED = [
    "Lean 4.33 kernel; Mathlib lemmas (Real.sqrt, Real.rpow, ordered fields); axioms ⊆ {propext, Classical.choice, Quot.sound}",
    "hand-written model FV/Model/Legal.lean — fidelity to tools/legalfloor/{legalfloor,expression_tree,model}.py checked by this "
    "correspondence run (trees node for node, evaluation bit for bit), not proved",
    "theorems are over ℝ for every slack e >= 0 and constant t >= 0 (exact system: e = t = 0); `is_equation_met` is executed at "
    "slacks 0 / 0.27 (installed by Model) / 0.05 / 5e-7 with t = 1e-6 in IEEE doubles and compared with the relaxed clauses (not proved for doubles)",
    "the solver is exercised only by the `live` stream (a handful of tiny runs per check; their verdict allows the slack of the last solve "
    "plus RTOL = 1e-2 relative to the size of an equation's terms); that GEKKO enforces the declared LOWER / UPPER of its variables "
    "and solves what it is posted is assumed; the strings GEKKO is posted (`apply_equation`) are not compared",
    "STOG roles (`Rectangle.location`) are taken as the repository assigns them (C06); positive rectangle sizes follow from the declared "
    "variable bounds (`system_sound_declared`), which are compared with the real GKVariables on every run",
    "FV/Model/LegalDecl.lean (declarations, slack schedule, step caps, enforce flags, disabled rectangles) — hand-written, tied by the "
    "streams decls / slack / step / enforce / rid",
    "harness (Python, incl. the Fraction re-implementation of Legal) and compiled Lean driver: parsing, comparison",
]

GROUPS = ["Bounds", "Shapes", "Area", "Attach", "Intra", "Inter", "Fix"]
SIDES = "NSEW"

# ----------------------------------------------------------------------------- instances (integer lattice, then scaled)
def _even(rng, lo, hi):
    lo, hi = (lo + 1) // 2, hi // 2
    return 2 * rng.randint(lo, hi)


def gen_module(rng, cw, ch, nbr_max):
    """a single-trunk orthogon inside the cell [0,cw]x[0,ch]: edges on even integers.
    returns rects = [(x0, x1, y0, y1, side)] with the trunk first ('T')."""
    tx0 = _even(rng, 4, cw // 2 - 2)
    tx1 = _even(rng, cw // 2 + 2, cw - 4)
    ty0 = _even(rng, 4, ch // 2 - 2)
    ty1 = _even(rng, ch // 2 + 2, ch - 4)
    rects = [(tx0, tx1, ty0, ty1, "T")]
    for side in SIDES:
        nb = rng.choice([0, 0, 1, 1, 2]) if nbr_max >= 2 else rng.choice([0, 1])
        nb = min(nb, nbr_max)
        lo, hi = (tx0, tx1) if side in "NS" else (ty0, ty1)
        if nb == 2 and hi - lo < 8:
            nb = 1
        cuts = []
        if nb == 1:
            a = _even(rng, lo, hi - 2)
            b = _even(rng, a + 2, hi)
            cuts = [(a, b)]
        elif nb == 2:
            pts = sorted(rng.sample(range(lo // 2, hi // 2 + 1), 4))
            cuts = [(2 * pts[0], 2 * pts[1]), (2 * pts[2], 2 * pts[3])]
            if rng.random() < 0.3:  # abutting branches
                cuts = [(2 * pts[0], 2 * pts[1]), (2 * pts[1], 2 * pts[3])]
            if rng.random() < 0.5:
                cuts.reverse()  # listed right-to-left: the order along the side is by coordinate, not by index
        for (a, b) in cuts:
            t = rng.choice([2, 2, 4])
            if side == "N":
                rects.append((a, b, ty1, ty1 + t, "N"))
            elif side == "S":
                rects.append((a, b, ty0 - t, ty0, "S"))
            elif side == "E":
                rects.append((tx1, tx1 + t, a, b, "E"))
            else:
                rects.append((tx0 - t, tx0, a, b, "W"))
    return rects


def gen_instance(rng):
    fam = rng.choice(["int", "quarter", "decimal"])
    if rng.random() < 0.07:
        fam = "centi"      # a unit in which modules are narrower than the declared lower bound 0.1 of w / h
    s = {"int": Fraction(1), "quarter": Fraction(1, 4), "decimal": Fraction(1, 10), "centi": Fraction(1, 40)}[fam]
    cols, rows = rng.choice([(1, 1), (2, 1), (1, 2), (2, 2), (3, 1), (2, 2)])
    cw, ch = _even(rng, 20, 36), _even(rng, 20, 36)
    cells = [(c, r) for r in range(rows) for c in range(cols)]
    rng.shuffle(cells)
    nm = rng.randint(1, len(cells))
    mods = []
    for k in range(nm):
        c, r = cells[k]
        kind = rng.choice(["soft", "soft", "hard", "fixed"])
        rects = gen_module(rng, cw, ch, 2 if rng.random() < 0.7 else 0)
        if rng.random() < 0.25:
            rects = rects[:1]
        if kind == "soft" and rng.random() < 0.12:
            # NOT a single-trunk orthogon: an extra rectangle that touches nothing (roles NO_POLYGON; only the
            # correspondence streams use such a netlist)
            x0, x1, y0, y1, _ = rects[0]
            rects = rects + [(x1 + 4, x1 + 6, y1 + 4, y1 + 6, "X")] if x1 + 6 <= cw and y1 + 6 <= ch else rects
        rects = [(x0 + c * cw, x1 + c * cw, y0 + r * ch, y1 + r * ch, sd) for (x0, x1, y0, y1, sd) in rects]
        tot = sum((x1 - x0) * (y1 - y0) for (x0, x1, y0, y1, _) in rects)
        areaf = rng.choice([Fraction(1), Fraction(1), Fraction(9, 10), Fraction(3, 4)])
        mods.append({"kind": kind, "rects": rects, "area_lat": tot * areaf, "cell": (c * cw, r * ch, cw, ch)})
    dw, dh = cols * cw, rows * ch
    # aspect-ratio limit: at or above the largest aspect of the input
    asp = max(max(Fraction(x1 - x0, y1 - y0), Fraction(y1 - y0, x1 - x0)) for m in mods for (x0, x1, y0, y1, _) in m["rects"])
    if rng.random() < 0.2:
        r = asp
    else:
        r = asp * Fraction(rng.randint(105, 160), 100)
    r = max(r, Fraction(3, 2))
    return {"fam": fam, "s": s, "mods": mods, "dw_lat": dw, "dh_lat": dh, "r": float(r)}


def _num(fam, s, k):
    """lattice integer (or Fraction) -> the number written into the YAML document."""
    v = Fraction(k) * s
    if fam == "int" and v.denominator == 1:
        return int(v)
    if fam in ("decimal", "centi"):
        return round(float(v), 9)
    return float(v)


def yaml_of(inst) -> str:
    fam, s = inst["fam"], inst["s"]
    lines = []
    for k, m in enumerate(inst["mods"]):
        rs = []
        for (x0, x1, y0, y1, _) in m["rects"]:
            rs.append("[%r, %r, %r, %r]" % (_num(fam, s, Fraction(x0 + x1, 2)), _num(fam, s, Fraction(y0 + y1, 2)),
                                           _num(fam, s, x1 - x0), _num(fam, s, y1 - y0)))
        attr = "rectangles: [" + ", ".join(rs) + "]"
        if m["kind"] == "soft":
            a = m["area_lat"] * s * s
            attr = ("area: %r, " % (int(a) if fam == "int" and a.denominator == 1 else float(a))) + attr
        elif m["kind"] == "hard":
            attr += ", hard: true"
        else:
            attr += ", fixed: true"
        lines.append("  M%d: { %s }" % (k, attr))
    names = ["M%d" % k for k in range(len(inst["mods"]))]
    nets = "[[%s]]" % ", ".join(names) if len(names) > 1 else "[]"
    return "Modules: {\n" + ",\n".join(lines) + "\n}\nNets: " + nets + "\n"


def wire_mods(inmods) -> str:
    out = [str(len(inmods))]
    for m in inmods:
        out += [str(int(m["hard"])), str(int(m["fixed"])), f2hex(m["area"]), str(len(m["rects"]))]
        for (x, y, w, h, loc) in m["rects"]:
            out += [f2hex(x), f2hex(y), f2hex(w), f2hex(h), loc]
    return " ".join(out)


def wire_cfg(cfg) -> str:
    out = [str(len(cfg))]
    for boxes in cfg:
        out.append(str(len(boxes)))
        for b in boxes:
            out += [f2hex(v) for v in b]
    return " ".join(out)


# ----------------------------------------------------------------------------- Legal, independently, in Fractions
def model_order(inmod):
    """indices of a module's rectangles in ModelModule order (trunk, N…, S…, E…, W…) and their sides;
    None unless exactly one TRUNK and every other rectangle has a side."""
    locs = [r[4] for r in inmod["rects"]]
    if locs.count("T") != 1 or any(c == "X" for c in locs):
        return None
    order = [locs.index("T")]
    sides = ["T"]
    for sd in SIDES:
        for k, c in enumerate(locs):
            if c == sd:
                order.append(k)
                sides.append(sd)
    return order, sides


def legal_status(B: Built, orders, cfg):
    """{group: 'ok' | 'viol' | 'unsure'} — every legality clause evaluated exactly on the configuration."""
    F = Fraction
    dw, dh, r = F(B.dw), F(B.dh), F(B.r)
    n = len(cfg)
    tau = F(1, 100) * min(dw, dh) / n
    unit = min(min(F(b[2]), F(b[3])) for m in B.inmods for b in m["rects"])
    tiny, clear = unit * F(1, 10 ** 8), unit * F(1, 50)
    C = [[tuple(F(v) for v in b) for b in boxes] for boxes in cfg]
    st = {}
    if any(w <= 0 or h <= 0 for bs in C for (_, _, w, h) in bs):
        # not a configuration of boxes: the geometric clauses are not evaluated (the algebraic `eq_violations` still are)
        st = {g: "unsure" for g in GROUPS}
        st["Positive"] = "viol"
        return st
    st["Positive"] = "ok"

    def grade(v, tn=tiny, cl=clear):
        return "ok" if v <= tn else ("viol" if v >= cl else "unsure")

    def worst(grades):
        grades = list(grades)
        return "viol" if "viol" in grades else ("unsure" if "unsure" in grades else "ok")

    # inside the die
    st["Bounds"] = worst(grade(max(-(x - w / 2), -(y - h / 2), x + w / 2 - dw, y + h / 2 - dh)) for bs in C for (x, y, w, h) in bs)
    # aspect ratio
    st["Shapes"] = worst(grade(max(w / h, h / w) - r, r * F(1, 10 ** 8), r * F(1, 50)) for bs in C for (x, y, w, h) in bs)
    # area
    gs = []
    for m, bs in enumerate(C):
        need = F(B.inmods[m]["area"])
        gs.append(grade(need - sum(w * h for (_, _, w, h) in bs), need * F(1, 10 ** 8), need * F(1, 50)))
    st["Area"] = worst(gs)
    # attachment to the trunk, within its extent
    gs = []
    for m, bs in enumerate(C):
        x0, y0, w0, h0 = bs[0]
        for i, sd in enumerate(orders[m][1]):
            if sd == "T":
                continue
            x, y, w, h = bs[i]
            if sd == "N":
                v = max(abs((y - h / 2) - (y0 + h0 / 2)), (x0 - w0 / 2) - (x - w / 2), (x + w / 2) - (x0 + w0 / 2))
            elif sd == "S":
                v = max(abs((y + h / 2) - (y0 - h0 / 2)), (x0 - w0 / 2) - (x - w / 2), (x + w / 2) - (x0 + w0 / 2))
            elif sd == "E":
                v = max(abs((x - w / 2) - (x0 + w0 / 2)), (y0 - h0 / 2) - (y - h / 2), (y + h / 2) - (y0 + h0 / 2))
            else:
                v = max(abs((x + w / 2) - (x0 - w0 / 2)), (y0 - h0 / 2) - (y - h / 2), (y + h / 2) - (y0 + h0 / 2))
            gs.append(grade(v))
    st["Attach"] = worst(gs)
    # original order along each side, no overlap
    gs = []
    for m, bs in enumerate(C):
        order, sides = orders[m]
        orig = [B.inmods[m]["rects"][k] for k in order]
        for sd in SIDES:
            idx = [i for i, s_ in enumerate(sides) if s_ == sd]
            if sd in "NS":
                idx = sorted(idx, key=lambda i: F(orig[i][0]))
                span = [(bs[i][0] - bs[i][2] / 2, bs[i][0] + bs[i][2] / 2) for i in idx]
            else:
                idx = sorted(idx, key=lambda i: F(orig[i][1]))
                span = [(bs[i][1] - bs[i][3] / 2, bs[i][1] + bs[i][3] / 2) for i in idx]
            for a in range(len(span)):
                for b in range(a + 1, len(span)):
                    gs.append(grade(span[a][1] - span[b][0]))
    st["Intra"] = worst(gs)
    # different modules do not overlap (up to the smoothing tolerance tau on the overlap area)
    gs = []
    for m in range(n):
        for k in range(m + 1, n):
            for (x1, y1, w1, h1) in C[m]:
                for (x2, y2, w2, h2) in C[k]:
                    px = (w1 + w2) / 2 - abs(x1 - x2)
                    py = (h1 + h2) / 2 - abs(y1 - y2)
                    if min(px, py) <= tiny:
                        gs.append("ok")
                        continue
                    ovx = min(px, w1, w2)
                    ovy = min(py, h1, h2)
                    gs.append("viol" if (min(px, py) >= clear and ovx * ovy >= 2 * tau) else "unsure")
    st["Inter"] = worst(gs)
    # hard: congruent to the original (same sizes, same offsets from the trunk); fixed: trunk at its place
    gs = []
    for m, bs in enumerate(C):
        im = B.inmods[m]
        if not im["hard"]:
            continue
        order, _ = orders[m]
        orig = [tuple(F(v) for v in im["rects"][k][:4]) for k in order]
        for i, (x, y, w, h) in enumerate(bs):
            v = max(abs(w - orig[i][2]), abs(h - orig[i][3]))
            if i > 0:
                v = max(v, abs((x - bs[0][0]) - (orig[i][0] - orig[0][0])), abs((y - bs[0][1]) - (orig[i][1] - orig[0][1])))
            elif im["fixed"]:
                v = max(v, abs(x - orig[0][0]), abs(y - orig[0][1]))
            gs.append(grade(v))
    st["Fix"] = worst(gs)
    return st


def eq_violations(B: Built, orders, cfg):
    """per group the exact amounts by which each equation (in its own units) is missed: the equation is met with
    slack e and constant t iff amount <= e + t (`*_met_iff` of FV/Props/C09.lean).  Inter: the pairs (tX, tY)."""
    F = Fraction
    dw, dh, r = F(B.dw), F(B.dh), F(B.r)
    C = [[tuple(F(v) for v in b) for b in boxes] for boxes in cfg]
    out = {g: [] for g in GROUPS}
    thin_r = r * 1 / (r * r + 1)
    for m, bs in enumerate(C):
        for (x, y, w, h) in bs:
            out["Bounds"] += [-(x - w / 2), -(y - h / 2), x + w / 2 - dw, y + h / 2 - dh]
            out["Shapes"].append(10 * thin_r - 10 * (w * h / (w * w + h * h)) if (w or h) else F(10 ** 9))
        out["Area"].append(F(B.inmods[m]["area"]) - sum(w * h for (_, _, w, h) in bs))
        x0, y0, w0, h0 = bs[0]
        order, sides = orders[m]
        orig = [tuple(F(v) for v in B.inmods[m]["rects"][k][:4]) for k in order]
        for i, sd in enumerate(sides):
            if sd == "T":
                continue
            x, y, w, h = bs[i]
            if sd in "NS":
                T = y0 + h0 / 2 + h / 2 if sd == "N" else y0 - h0 / 2 - h / 2
                out["Attach"] += [abs(y - T), (x0 - w0 / 2 + w / 2) - x, x - (x0 + w0 / 2 - w / 2)]
            else:
                T = x0 + w0 / 2 + w / 2 if sd == "E" else x0 - w0 / 2 - w / 2
                out["Attach"] += [abs(x - T), (y0 - h0 / 2 + h / 2) - y, y - (y0 + h0 / 2 - h / 2)]
        for sd in SIDES:
            idx = [i for i, s_ in enumerate(sides) if s_ == sd]
            if sd in "NS":
                idx = sorted(idx, key=lambda i: orig[i][0])
                span = [(bs[i][0] - bs[i][2] / 2, bs[i][0] + bs[i][2] / 2) for i in idx]
            else:
                idx = sorted(idx, key=lambda i: orig[i][1])
                span = [(bs[i][1] - bs[i][3] / 2, bs[i][1] + bs[i][3] / 2) for i in idx]
            for a in range(len(span) - 1):  # the equations compare neighbours only
                out["Intra"].append(span[a][1] - span[a + 1][0])
        im = B.inmods[m]
        if im["hard"]:
            for i, (x, y, w, h) in enumerate(bs):
                out["Fix"] += [abs(w - orig[i][2]), abs(h - orig[i][3])]
                if i > 0:
                    out["Fix"] += [abs(x - (orig[i][0] - orig[0][0] + x0)), abs(y - (orig[i][1] - orig[0][1] + y0))]
                elif im["fixed"]:
                    out["Fix"] += [abs(x - orig[0][0]), abs(y - orig[0][1])]
    n = len(C)
    for m in range(n):
        for k in range(m + 1, n):
            for (x1, y1, w1, h1) in C[m]:
                for (x2, y2, w2, h2) in C[k]:
                    out["Inter"].append(((x1 - x2) ** 2 - (w1 + w2) ** 2 / 4, (y1 - y2) ** 2 - (h1 + h2) ** 2 / 4))
    return out


def met_status(B: Built, viol, delta: Fraction, mu: Fraction):
    """{group: 'ok' | 'viol' | 'unsure'}: every equation of the group met at slack+constant = delta, graded with margin mu."""
    tau = Fraction(1, 100) * min(Fraction(B.dw), Fraction(B.dh)) / len(B.inmods)

    def inter_met(tx, ty, d):
        return (tx + d) + (ty + d) >= 0 or (tx + d) * (ty + d) <= tau * tau

    st = {}
    for g in GROUPS:
        if g == "Inter":
            gs = ["ok" if inter_met(tx, ty, delta - mu) else ("viol" if not inter_met(tx, ty, delta + mu) else "unsure")
                  for (tx, ty) in viol[g]]
        else:
            gs = ["ok" if v <= delta - mu else ("viol" if v >= delta + mu else "unsure") for v in viol[g]]
        st[g] = "viol" if "viol" in gs else ("unsure" if "unsure" in gs else "ok")
    return st


# slacks every configuration is evaluated at: (label, plain value of the slack tree; None = the tree Model(...) installed)
SLACKS = [("0", 0.0), ("real", None), ("0.05", 0.05), ("5e-7(below the 1e-6 clamp)", 5e-7)]


# ----------------------------------------------------------------------------- configurations
def input_cfg(B: Built, orders):
    return [[tuple(float(v) for v in B.inmods[m]["rects"][k][:4]) for k in orders[m][0]] for m in range(len(orders))]


def variants(rng, B: Built, orders, base, count):
    """legal-looking and clause-violating variants of `base` (the oracle decides what they are)."""
    out = []
    n = len(base)
    unit = min(min(b[2], b[3]) for boxes in base for b in boxes)
    span = max(B.dw, B.dh)
    for _ in range(count):
        cfg = [list(boxes) for boxes in base]
        m = rng.randrange(n)
        kind = B.inmods[m]
        bs = cfg[m]
        sides = orders[m][1]
        op = rng.choice(["nudge", "shift", "far", "onto", "thin", "shrink", "detach", "slide", "swap", "resize", "branchmove", "grow",
                         "edge", "edge", "negate", "tiny"])
        what = op
        if op in ("negate", "tiny"):
            # sizes outside the declared variable bounds: a box with w, h < 0 (same area, same ratio), or a side below lb = 0.1
            i = rng.randrange(len(bs))
            x, y, w, h = bs[i]
            if op == "negate":
                bs[i] = (x, y, -w, -h)
            else:
                f = rng.choice([0.02, 0.05, 0.09, 0.0999])
                bs[i] = (x, y, f, h) if rng.random() < 0.5 else (x, y, w, f)
            what = op + ":" + ("soft" if not kind["hard"] else ("fixed" if kind["fixed"] else "hard"))
            out.append((what, [[tuple(float(v) for v in b) for b in boxes] for boxes in cfg]))
            continue
        if op == "edge":
            # stick out of the die by a multiple of (slack + 1e-6) for one of the slacks the equations are evaluated at:
            # just inside / just outside the acceptance threshold of is_equation_met (also across the 1e-6 clamp of the slack)
            lim = rng.choice([1e-6, 0.05 + 1e-6, B.real_eps + 1e-6])
            f = lim * rng.choice([0.5, 0.9, 1.1, 1.25])
            if rng.random() < 0.5:
                lo = min(x - w / 2 for (x, y, w, h) in bs)
                cfg[m] = [(x - lo - f, y, w, h) for (x, y, w, h) in bs]
            else:
                hi = max(y + h / 2 for (x, y, w, h) in bs)
                cfg[m] = [(x, y + (B.dh - hi) + f, w, h) for (x, y, w, h) in bs]
            what = "edge:%g" % f
        elif op in ("nudge", "shift", "far", "onto"):
            if op == "nudge":
                dx, dy = unit * rng.choice([-1, -0.5, 0, 0.5, 1]), unit * rng.choice([-1, -0.5, 0, 0.5, 1])
            elif op == "shift":
                dx, dy = unit * rng.randint(-4, 4), unit * rng.randint(-4, 4)
            elif op == "far":
                dx, dy = rng.choice([-1, 1]) * span * rng.uniform(0.3, 1.2), rng.choice([-1, 0, 1]) * span * rng.uniform(0.0, 1.2)
            else:
                k = rng.randrange(n)
                dx, dy = base[k][0][0] - bs[0][0] + unit * rng.choice([0, 0.5, 1]), base[k][0][1] - bs[0][1] + unit * rng.choice([0, 0.5])
            cfg[m] = [(x + dx, y + dy, w, h) for (x, y, w, h) in bs]
        else:
            i = rng.randrange(len(bs))
            x, y, w, h = bs[i]
            sd = sides[i]
            if op == "thin":  # exceed the aspect ratio (attachment kept for branches)
                f = B.r * rng.uniform(1.1, 1.6)
                if sd in "NS":
                    h2 = w / f
                    y = y + (h2 - h) / 2 * (1 if sd == "N" else -1)
                    h = h2
                elif sd in "EW":
                    w2 = h / f
                    x = x + (w2 - w) / 2 * (1 if sd == "E" else -1)
                    w = w2
                else:
                    g = (f / max(w / h, h / w)) ** 0.5
                    w, h = (w * g, h / g) if w >= h else (w / g, h * g)
            elif op == "shrink":  # lose area
                g = rng.uniform(0.3, 0.9)
                if sd in "NS":
                    h2 = h * g
                    y = y + (h2 - h) / 2 * (1 if sd == "N" else -1)
                    h = h2
                elif sd in "EW":
                    w2 = w * g
                    x = x + (w2 - w) / 2 * (1 if sd == "E" else -1)
                    w = w2
                else:
                    w, h = w * g, h * g
            elif op == "grow":  # thicker branch / larger trunk
                g = rng.uniform(1.05, 1.5)
                if sd in "NS":
                    h2 = h * g
                    y = y + (h2 - h) / 2 * (1 if sd == "N" else -1)
                    h = h2
                elif sd in "EW":
                    w2 = w * g
                    x = x + (w2 - w) / 2 * (1 if sd == "E" else -1)
                    w = w2
                else:
                    w, h = w * g, h * g
            elif op == "detach":
                gap = unit * rng.choice([-0.5, 0.25, 0.5, 1.0])
                if sd == "N":
                    y += gap
                elif sd == "S":
                    y -= gap
                elif sd == "E":
                    x += gap
                elif sd == "W":
                    x -= gap
                else:
                    x += gap
            elif op == "slide":
                amt = unit * rng.choice([-6, -3, -1, -0.5, 0.5, 1, 3, 6])
                if sd in "NS":
                    x += amt
                else:
                    y += amt
            elif op == "swap":
                same = [j for j, s_ in enumerate(sides) if s_ == sd and j != i and sd != "T"]
                if not same:
                    continue
                j = rng.choice(same)
                xj, yj, wj, hj = bs[j]
                if sd in "NS":
                    bs[j] = (x, yj, wj, hj)
                    x = xj
                else:
                    bs[j] = (xj, y, wj, hj)
                    y = yj
            elif op == "resize":
                g = rng.choice([0.5, 0.8, 1.25])
                if rng.random() < 0.5:
                    w *= g
                else:
                    h *= g
            elif op == "branchmove":
                x += unit * rng.choice([-1, 0, 1])
                y += unit * rng.choice([-1, 0, 1])
            bs[i] = (x, y, w, h)
            what = op + ":" + sd + ":" + ("soft" if not kind["hard"] else ("fixed" if kind["fixed"] else "hard"))
        if any(b[2] <= 0 or b[3] <= 0 for boxes in cfg for b in boxes):
            continue
        out.append((what, [[tuple(float(v) for v in b) for b in boxes] for boxes in cfg]))
    return out


# ----------------------------------------------------------------------------- one instance
def check_instance(ctx: Ctx, inp: dict, nvar: int, fixed_cfgs=None) -> None:
    yaml, dw, dh, r = inp["yaml"], inp["dw"], inp["dh"], inp["r"]
    size = len(yaml)
    try:
        B = Built(yaml, dw, dh, r)
    except Exception as ex:  # noqa: BLE001
        _cleanup()
        ctx.spec_fail("operation-raised", inp, {"operation": "Netlist / netlist_to_utils / Model(...)", "raises": type(ex).__name__,
                                                "msg": str(ex)[:200]}, size)
        return
    try:
        _check_built(ctx, inp, B, nvar, fixed_cfgs, size)
    finally:
        _cleanup()


def _check_built(ctx: Ctx, inp, B: Built, nvar, fixed_cfgs, size) -> None:
    P = "%s %s %s" % (f2hex(B.dw), f2hex(B.dh), f2hex(B.r))
    mods_w = wire_mods(B.inmods)
    orders = [model_order(m) for m in B.inmods]
    stog = all(o is not None for o in orders)
    # declarations / step caps / enforce flags as `Model(...)` leaves them (before any configuration is assigned)
    early = None
    try:
        early = {"decl": _lc.decl_views(B), "bounds": _lc.real_bounds(B), "enforce": _lc.enforce_flags(B),
                 "steps": _lc.step_eqs(B)}
    except Exception as ex:  # noqa: BLE001  (private observation points: optional)
        ctx.notes.append("declarations / caps / enforce flags not observable: %s" % type(ex).__name__)
    nrect = sum(len(m["rects"]) for m in B.inmods)
    key = (inp["yaml"], inp["dw"], inp["dh"], inp["r"])
    ctx.case("struct", key, True, {"modules": len(B.inmods), "rects": nrect, "equations": len(B.eqs), "dw": B.dw, "dh": B.dh, "r": B.r})
    ctx.count("kind:" + "+".join(sorted({("fixed" if m["fixed"] else "hard") if m["hard"] else "soft" for m in B.inmods})))
    ctx.count("family:" + inp.get("fam", "?"))
    for g, k in B.other_groups.items():
        ctx.extra.setdefault("groups_outside_property", {})[g] = ctx.extra.get("groups_outside_property", {}).get(g, 0) + k
    ctx.extra["variable_bounds_lb_on_w_h"] = B.var_bounds()

    # configurations
    cfgs = []
    if fixed_cfgs is not None:
        cfgs = [("replay", [[tuple(hex2f(v) for v in b) for b in boxes] for boxes in c]) for c in fixed_cfgs]
    elif stog:
        base = input_cfg(B, orders)
        cfgs = [("input", base)] + variants(ctx.rng, B, orders, base, nvar)
        # second generation: variants of a legal variant
        legal2 = [c for (w_, c) in cfgs[1:] if all(v == "ok" for v in legal_status(B, orders, c).values())]
        if legal2:
            cfgs += variants(ctx.rng, B, orders, ctx.rng.choice(legal2), max(1, nvar // 3))
    else:
        ctx.count("roles:not-a-single-trunk-labelling")
    if fixed_cfgs is None and stog and inp.get("extra_cfgs"):
        cfgs += [("corpus", [[tuple(float(v) for v in b) for b in boxes] for boxes in c]) for c in inp["extra_cfgs"]]

    reqs = ["F utils " + mods_w, "F gen " + P + " " + mods_w]
    tol = f2hex(1e-6)
    raws = []
    obs = {lab: [] for (lab, _) in SLACKS}
    for (lab, raw) in SLACKS:
        try:
            rawv = B.set_slack(raw)
        except Exception as ex:  # noqa: BLE001
            ctx.spec_fail("operation-raised", inp, {"operation": "set_epsilon", "raises": type(ex).__name__}, size)
            return
        raws.append(rawv)
        for (_, c) in cfgs:
            reqs.append("F eval %s %s %s %s %s" % (P, f2hex(rawv), tol, mods_w, wire_cfg(c)))
    # implementation observations: per configuration the two sides of every equation once (they do not depend on the
    # slack), then `is_equation_met()` under each slack
    for (what, c) in cfgs:
        try:
            B.assign(c)
        except Exception as ex:  # noqa: BLE001
            ctx.spec_fail("operation-raised", dict(inp, what=what), {"operation": "ExpressionTree.assign", "raises": type(ex).__name__}, size)
            return
        sides = []
        for g, e in B.eqs:
            try:
                sides.append((float(e.lhs.evaluate()), float(e.rhs.evaluate())))
            except Exception as ex:  # noqa: BLE001
                sides.append(("err:" + type(ex).__name__,))
        for (lab, raw) in SLACKS:
            B.set_slack(raw)
            row = []
            for (g, e), sd in zip(B.eqs, sides):
                if len(sd) == 1:
                    row.append(sd)
                    continue
                try:
                    row.append((sd[0], sd[1], bool(e.is_equation_met())))
                except Exception as ex:  # noqa: BLE001
                    row.append(("err:" + type(ex).__name__,))
            obs[lab].append(row)
    B.set_slack(0.0)
    replies = ctx.model(reqs)
    ctx.extra["slack_installed_by_Model"] = B.real_eps

    if replies is not None:
        iu = ser_utils(B.utils)
        if iu != replies[0]:
            ctx.disagree("utils", inp, iu[:600], replies[0][:600], size)
        impl_eqs = [ser_eq(g, e) for g, e in B.eqs]
        mrep = replies[1].split(" ; ")
        if mrep[0] != str(len(impl_eqs)) or mrep[1:] != impl_eqs:
            first = next((k for k, (a, b) in enumerate(zip(impl_eqs, mrep[1:])) if a != b), min(len(impl_eqs), len(mrep) - 1))
            ctx.disagree("struct", inp, {"count": len(impl_eqs), "first_diff": impl_eqs[first][:500] if first < len(impl_eqs) else None},
                         {"count": mrep[0], "first_diff": mrep[1 + first][:500] if 1 + first < len(mrep) else None}, size)
        for si, (lab, _) in enumerate(SLACKS):
            eff = 0.0 if raws[si] < 1e-6 else raws[si]
            for k, (what, c) in enumerate(cfgs):
                rep = replies[2 + si * len(cfgs) + k].split(" ; ")
                ob = obs[lab][k]
                inp_c = dict(inp, cfg=[[[f2hex(v) for v in b] for b in boxes] for boxes in c], what=what, slack=lab)
                ctx.case("eval", (key, lab, tuple(tuple(b) for boxes in c for b in boxes)), True, None)
                if rep[0] != str(len(ob)):
                    ctx.disagree("eval", inp_c, len(ob), rep[0][:100], size)
                    continue
                for j, (o, mline) in enumerate(zip(ob, rep[1:])):
                    mt = mline.split()
                    if len(o) == 1:
                        if "none" not in mt:
                            ctx.disagree("eval", inp_c, {"eq": B.eqs[j][1].name, "impl": o[0]}, mline, size)
                        continue
                    if "none" in mt:
                        ctx.disagree("eval", inp_c, {"eq": B.eqs[j][1].name, "impl": [f2hex(o[0]), f2hex(o[1]), o[2]]}, mline, size)
                        continue
                    ml_, mr_, mm_ = hex2f(mt[0]), hex2f(mt[1]), mt[2] == "1"
                    exact = f2hex(o[0]) == mt[0] and f2hex(o[1]) == mt[1]
                    sc_ = max(1.0, abs(o[0]), abs(o[1]))
                    if not exact:
                        if abs(o[0] - ml_) <= 1e-9 * sc_ and abs(o[1] - mr_) <= 1e-9 * sc_:
                            ctx.drift += 1
                        else:
                            ctx.disagree("eval", inp_c, {"eq": B.eqs[j][1].name, "impl": [f2hex(o[0]), f2hex(o[1])]}, mline, size)
                            continue
                    if o[2] != mm_:
                        # only meaningful away from the acceptance threshold slack + 1e-6
                        if exact or abs(abs(o[0] - o[1]) - (eff + 1e-6)) > 1e-9 * sc_:
                            ctx.disagree("met", inp_c, {"eq": B.eqs[j][1].name, "impl": o[2], "slack": lab}, mline, size)
                        else:
                            ctx.ties += 1

    # spec on the implementation
    if not stog:
        return
    groups = [g for g, _ in B.eqs]
    mu = Fraction(1, 10 ** 9)  # far above the rounding error of evaluate() (~1e-12), far below the probes (2.5e-7)
    for k, (what, c) in enumerate(cfgs):
        inp_c = dict(inp, cfg=[[[f2hex(v) for v in b] for b in boxes] for boxes in c], what=what)
        st = legal_status(B, orders, c)
        ev = eq_violations(B, orders, c)
        if any(b[2] < 0.1 or b[3] < 0.1 for boxes in c for b in boxes):
            ctx.count("cfg-with-a-side-below-variable-bound-0.1")
        for si, (lab, _) in enumerate(SLACKS):
            ob = obs[lab][k]
            eff = Fraction(0) if raws[si] < 1e-6 else Fraction(raws[si])
            inp_s = dict(inp_c, slack=lab)
            errs = [j for j, o in enumerate(ob) if len(o) == 1]
            if errs:
                ctx.spec_fail("evaluate-raises", inp_s, {"eq": B.eqs[errs[0]][1].name, "error": ob[errs[0]][0]}, size)
                continue
            unmet = {}
            for j, o in enumerate(ob):
                if not o[2]:
                    unmet.setdefault(groups[j], []).append(B.eqs[j][1].name)
            # (a) the relaxed clauses of the slack theorems, exactly, at delta = slack + 1e-6
            ms = met_status(B, ev, eff + Fraction(1, 10 ** 6), mu)
            mviol = {g for g, s_ in ms.items() if s_ == "viol"}
            munsure = {g for g, s_ in ms.items() if s_ == "unsure"}
            mlabel = "all-met" if not mviol and not munsure else ("unsure" if munsure and not mviol else "unmet:" + "+".join(sorted(mviol)))
            ctx.case("spec-slack", (key, lab, tuple(tuple(b) for boxes in c for b in boxes)), mlabel != "unsure", None)
            ctx.count("slack %s: %s" % (lab, "all-met" if mlabel == "all-met" else ("unsure" if mlabel == "unsure" else "some-unmet")))
            for g in GROUPS:
                if ms[g] == "ok" and g in unmet:
                    ctx.spec_fail("slack-complete." + g, inp_s, {"relaxed_clause_holds_but_unmet": unmet[g][:4], "status": ms, "what": what}, size)
                elif ms[g] == "viol" and g not in unmet:
                    ctx.spec_fail("slack-sound." + g, inp_s, {"relaxed_clause_violated_but_all_equations_met": g, "status": ms, "what": what}, size)
            if lab != "0":
                continue
            # (b) slack 0: the geometric legality clauses
            viol = {g for g, s_ in st.items() if s_ == "viol"}
            unsure = {g for g, s_ in st.items() if s_ == "unsure"}
            label = "legal" if not viol and not unsure else ("unsure" if unsure and not viol else "violates:" + "+".join(sorted(viol)))
            ctx.case("spec", (key, tuple(tuple(b) for boxes in c for b in boxes)), label != "unsure", None)
            ctx.count("cfg:" + label)
            if what == "input":
                ctx.count("input:" + label)
            if early is not None:
                _spec_declared(ctx, B, early["bounds"], c, st, label, unmet, inp_c, what, size)
            for g in GROUPS:
                if st[g] == "ok" and g in unmet:
                    clause = "input_satisfies" if what == "input" and not viol and not unsure else "complete." + g
                    ctx.spec_fail(clause, inp_c, {"clause_holds_but_unmet": unmet[g][:4], "status": st, "what": what}, size)
                elif st[g] == "viol" and g not in unmet:
                    ctx.spec_fail("sound." + g, inp_c, {"clause_violated_but_all_equations_met": g, "status": st, "what": what}, size)
    if early is not None:
        _check_round_e(ctx, inp, B, P, mods_w, orders, cfgs, early, size)


# ----------------------------------------------------------------------------- declarations, step caps, enforce flags, Rid (round e)
MIN_SIDE = 0.1   # lb of w / h in `_define_vars`


def _spec_declared(ctx: Ctx, B: Built, bounds, c, st, label, unmet, inp_c, what, size) -> None:
    """the system "equations AND declared variable bounds" against legality (`system_sound_declared`,
    `system_complete_declared_partial`): bounds read from the real GKVariables."""
    kidx = {"x": 0, "y": 1, "w": 2, "h": 3}
    oob = [(m, i, k, lo, up) for (m, i, k, lo, up) in bounds if not (lo <= c[m][i][kidx[k]] <= up)]
    all_met = not unmet
    if st.get("Positive") == "viol":
        ctx.count("declared: non-positive size" + (", every equation met, excluded by the bounds only" if all_met and oob else ""))
        if all_met and not oob:
            ctx.spec_fail("declared.sound-positive", inp_c, {"nonpositive_size_satisfies_equations_and_declared_bounds": True,
                                                            "what": what}, size)
        return
    mins = min(min(b[2], b[3]) for boxes in c for b in boxes)
    if label == "legal":
        if mins >= MIN_SIDE * (1 + 1e-9):
            if oob:
                ctx.spec_fail("declared.complete", inp_c, {"legal_floorplan_with_sides_at_least_0.1_outside_declared_bounds": oob[:3],
                                                          "what": what}, size)
        elif mins < MIN_SIDE * (1 - 1e-9):
            ctx.count("declared: legal floorplan with a side below 0.1 " + ("excluded by the bounds (C09-min-side)" if oob else "NOT excluded"))
            if oob:
                _proposed(ctx, "C09-min-side", "declared.complete-below-min-side", inp_c,
                          {"legal_floorplan_outside_declared_bounds": oob[:3], "smallest_side": mins, "what": what}, size)
    elif all_met and not oob and st.get("Positive") == "ok":
        ctx.count("declared: not graded legal, equations met, inside bounds")


def _observe_eqs(eqs):
    out = []
    for g, e in eqs:
        try:
            out.append((float(e.lhs.evaluate()), float(e.rhs.evaluate()), bool(e.is_equation_met())))
        except Exception as ex:  # noqa: BLE001
            out.append(("err:" + type(ex).__name__,))
    return out


def _check_round_e(ctx: Ctx, inp, B: Built, P, mods_w, orders, cfgs, early, size) -> None:
    key = (inp["yaml"], inp["dw"], inp["dh"], inp["r"])
    tree, gkvar, gek, aux = early["decl"]
    steps = early["steps"]
    tol = f2hex(1e-6)
    F = Fraction
    # ---- implementation observations
    step_obs = {}
    use_cfgs = cfgs[: 1 + 4]
    for (lab, raw) in SLACKS[:2]:
        try:
            B.set_slack(raw)
            step_obs[lab] = []
            for (_, c) in use_cfgs:
                B.assign(c)
                step_obs[lab].append(_observe_eqs(steps))
        except Exception as ex:  # noqa: BLE001
            ctx.spec_fail("operation-raised", inp, {"operation": "step caps", "raises": type(ex).__name__}, size)
            return
    B.set_slack(0.0)
    rid_cfgs = [c for (_, c) in cfgs[:1]] + [c for (w_, c) in cfgs[1:] if w_.split(":")[0] in ("shrink", "resize", "grow", "tiny", "thin")][:2]
    rid_cfgs = [c for c in rid_cfgs if all(b[2] > 0 and b[3] > 0 for boxes in c for b in boxes)]
    rid_obs = []
    for c in rid_cfgs:
        try:
            rid_obs.append(_lc.rid_view(B, c, 0.1))
        except ZeroDivisionError:
            rid_obs.append("err:ZeroDivisionError")
        except Exception as ex:  # noqa: BLE001
            ctx.notes.append("turn_off_rects / get_constraints not observable: %s" % type(ex).__name__)
            rid_cfgs = rid_cfgs[:len(rid_obs)]
            break
    # slack schedule (last: it moves the `time` variable)
    slack_obs = []
    M = B.model
    try:
        from tools.legalfloor import expression_tree as et
        et.set_epsilon(B.real_eps_tree)
        t_now = float(M.time.evaluate())
        slack_obs.append((t_now, float(et.get_epsilon())))
        for _ in range(2):
            M.time_advance(1)
            slack_obs.append((float(M.time.evaluate()), float(et.get_epsilon())))
        for t in (7.5, 50.0, 110.0, 114.0, 115.0, 131.0, 400.0):
            M.time.assign(t)
            slack_obs.append((t, float(et.get_epsilon())))
        M.time.assign(t_now)
        B.set_slack(0.0)
        # the HARD equality `time == <value at the last time_advance>` (group `Exact Value`, made by ModelWrapper.fix)
        hard_obs = []
        for ev_eq in M.gekko.constraints.get("Exact Value", []):
            for off in (0.0, 5e-7, -9e-7, 2e-6, -1.0, 3.0):
                M.time.assign(t_now + 2 + off)      # two time_advance(1) calls above: the equation pins t_now + 2
                for (lab, raw) in SLACKS[:2]:
                    rawv = B.set_slack(raw)
                    hard_obs.append((ev_eq.cmp.name, bool(ev_eq.hard), float(ev_eq.lhs.evaluate()), float(ev_eq.rhs.evaluate()), rawv,
                                     bool(ev_eq.is_equation_met())))
        M.time.assign(t_now)
        B.set_slack(0.0)
    except Exception as ex:  # noqa: BLE001
        ctx.spec_fail("operation-raised", inp, {"operation": "time_advance / get_epsilon", "raises": type(ex).__name__, "msg": str(ex)[:100]}, size)
        return

    reqs = ["F decls %s %s" % (P, mods_w), "F step %s %s" % (P, mods_w), "F enforce %s %s" % (P, mods_w)]
    reqs += ["F slack %s %s %s" % (f2hex(0.9), f2hex(0.3), f2hex(t)) for (t, _) in slack_obs]
    nh = len(reqs)
    reqs += ["F met %s %d %s %s %s %s" % (c_, int(h_), f2hex(l_), f2hex(r_), f2hex(e_), tol) for (c_, h_, l_, r_, e_, _) in hard_obs]
    n0 = len(reqs)
    for (lab, raw) in SLACKS[:2]:
        rawv = 0.0 if raw == 0.0 else B.real_eps
        for (_, c) in use_cfgs:
            reqs.append("F stepeval %s %s %s %s %s" % (P, f2hex(rawv), tol, mods_w, wire_cfg(c)))
    n1 = len(reqs)
    for c in rid_cfgs:
        reqs.append("F rid %s %s %s %s" % (P, f2hex(0.1), mods_w, wire_cfg(c)))
    replies = ctx.model(reqs)
    if replies is not None:
        # declarations: tree view, GKVariable view, GEKKO container
        ctx.case("decls", key, True, None)
        mdecl = replies[0].split(" ; ")
        it = [_lc.ser_decl(*d) for d in tree]
        ig = [_lc.ser_decl(*d) for d in gkvar]
        if mdecl[0] != str(len(it)) or mdecl[1:] != it:
            k = next((j for j, (a, b) in enumerate(zip(it, mdecl[1:])) if a != b), min(len(it), len(mdecl) - 1))
            ctx.disagree("decls", inp, {"view": "ExpressionTree.data", "count": len(it), "first_diff": it[k] if k < len(it) else None},
                         {"count": mdecl[0], "first_diff": mdecl[1 + k] if 1 + k < len(mdecl) else None}, size)
        if mdecl[1:] != ig:
            k = next((j for j, (a, b) in enumerate(zip(ig, mdecl[1:])) if a != b), min(len(ig), len(mdecl) - 1))
            ctx.disagree("decls", inp, {"view": "GKVariable LOWER/UPPER/VALUE", "first_diff": ig[k] if k < len(ig) else None},
                         {"first_diff": mdecl[1 + k] if 1 + k < len(mdecl) else None}, size)
        mg = {}
        for d in mdecl[1:]:
            nm, va, lo, up = d.split("|")
            mg[nm] = (hex2f(va), hex2f(lo), hex2f(up))
        if mg != gek:
            bad = sorted(set(mg) ^ set(gek)) or [n for n in mg if mg[n] != gek.get(n)]
            ctx.disagree("decls", inp, {"view": "GEKKO._variables", "differs": bad[:4], "impl": [gek.get(n) for n in bad[:4]]},
                         {"model": [mg.get(n) for n in bad[:4]]}, size)
        ctx.extra["gekko_aux_variables_seen"] = ctx.extra.get("gekko_aux_variables_seen", 0) + aux
        # step caps: structure
        ctx.case("step-struct", key, True, None)
        isteps = [ser_eq(g, e) for g, e in steps]
        mst = replies[1].split(" ; ")
        if mst[0] != str(len(isteps)) or mst[1:] != isteps:
            k = next((j for j, (a, b) in enumerate(zip(isteps, mst[1:])) if a != b), min(len(isteps), len(mst) - 1))
            ctx.disagree("step-struct", inp, {"count": len(isteps), "first_diff": isteps[k] if k < len(isteps) else None},
                         {"count": mst[0], "first_diff": mst[1 + k] if 1 + k < len(mst) else None}, size)
        # enforce flags
        ctx.case("enforce", key, True, None)
        men = replies[2].split(" ;")
        mflags = [t_ == "1" for t_ in men[1].split()] if len(men) > 1 else []
        if mflags != early["enforce"]:
            # a pair whose L1 gap sits on the threshold is a rounding tie
            if len(mflags) == len(early["enforce"]) and _enforce_ties(B, orders, mflags, early["enforce"]):
                ctx.ties += 1
            else:
                ctx.disagree("enforce", inp, early["enforce"], replies[2][:300], size)
        # slack schedule
        for j, (t, v) in enumerate(slack_obs):
            ctx.case("slack", (t,), True, None)
            mr = replies[3 + j].split()
            if len(mr) != 2:
                ctx.disagree("slack", dict(inp, time=t), v, replies[3 + j], size)
                continue
            mraw, mv = hex2f(mr[0]), hex2f(mr[1])
            if f2hex(v) != mr[1]:
                if abs(v - mv) <= 1e-9 * max(abs(v), 1e-300) and (v == 0.0) == (mv == 0.0):
                    ctx.drift += 1
                elif abs(mraw - 1e-6) <= 1e-15:
                    ctx.ties += 1
                else:
                    ctx.disagree("slack", dict(inp, time=t), f2hex(v), replies[3 + j], size)
        # the hard equality of `Exact Value`
        for j, ho in enumerate(hard_obs):
            ctx.case("hard-eq", (ho[2], ho[3], ho[4]), True, None)
            if replies[nh + j] != ("1" if ho[5] else "0"):
                if abs(abs(ho[2] - ho[3]) - 1e-6) <= 1e-12:
                    ctx.ties += 1
                else:
                    ctx.disagree("hard-eq", dict(inp, equation="exact_value", lhs=ho[2], rhs=ho[3], slack=ho[4]), ho[5], replies[nh + j], size)
        # step caps: evaluation
        for si, (lab, raw) in enumerate(SLACKS[:2]):
            for k, (what, c) in enumerate(use_cfgs):
                rep = replies[n0 + si * len(use_cfgs) + k].split(" ; ")
                ob = step_obs[lab][k]
                inp_c = dict(inp, cfg=[[[f2hex(v) for v in b] for b in boxes] for boxes in c], what=what, slack=lab)
                ctx.case("step-eval", (key, lab, tuple(tuple(b) for boxes in c for b in boxes)), True, None)
                if rep[0] != str(len(ob)):
                    ctx.disagree("step-eval", inp_c, len(ob), rep[0][:100], size)
                    continue
                for j, (o, mline) in enumerate(zip(ob, rep[1:])):
                    mt = mline.split()
                    if len(o) == 1 or "none" in mt:
                        ctx.disagree("step-eval", inp_c, {"eq": steps[j][1].name, "impl": o}, mline, size)
                        continue
                    if f2hex(o[0]) != mt[0] or f2hex(o[1]) != mt[1]:
                        if abs(o[0] - hex2f(mt[0])) <= 1e-9 * max(1.0, abs(o[0])) and abs(o[1] - hex2f(mt[1])) <= 1e-9 * max(1.0, abs(o[1])):
                            ctx.drift += 1
                        else:
                            ctx.disagree("step-eval", inp_c, {"eq": steps[j][1].name, "impl": [f2hex(o[0]), f2hex(o[1])]}, mline, size)
                            continue
                    if o[2] != (mt[2] == "1"):
                        if abs(abs(o[0] - o[1]) - 1e-6) > 1e-9 * max(1.0, abs(o[0])):
                            ctx.disagree("step-met", inp_c, {"eq": steps[j][1].name, "impl": o[2], "slack": lab}, mline, size)
                        else:
                            ctx.ties += 1
        # disabled rectangles
        for k, c in enumerate(rid_cfgs):
            rep = replies[n1 + k]
            ob = rid_obs[k]
            inp_c = dict(inp, cfg=[[[f2hex(v) for v in b] for b in boxes] for boxes in c], what="turn_off_rects(0.1)+get_constraints")
            ctx.case("rid", (key, tuple(tuple(b) for boxes in c for b in boxes)), True, None)
            if isinstance(ob, str) or rep.startswith("err:"):
                if ob != rep:
                    ctx.disagree("rid", inp_c, ob if isinstance(ob, str) else "returned", rep[:100], size)
                continue
            flags, back, eqs = ob
            parts = rep.split(" ; ")
            mfl = [[t_ == "1" for t_ in seg.split()] for seg in parts[0][3:].split(" | ")]
            if mfl != flags:
                if _turnoff_tie(c, 0.1):
                    ctx.ties += 1
                else:
                    ctx.disagree("rid-flags", inp_c, flags, parts[0][:300], size)
                continue
            if any(not all(f) for f in flags):
                ctx.count("rid: some rectangle turned off")
            mback = [[tuple(hex2f(t_) for t_ in seg.split()[4 * q:4 * q + 4]) for q in range(len(seg.split()) // 4)]
                     for seg in parts[1][4:].split(" | ")]
            if mback != [[tuple(b) for b in boxes] for boxes in back]:
                ctx.disagree("rid-assign", inp_c, back, parts[1][:300], size)
            if parts[2] != str(len(eqs)) or parts[3:] != eqs:
                j = next((q for q, (a, b) in enumerate(zip(eqs, parts[3:])) if a != b), min(len(eqs), len(parts) - 3))
                ctx.disagree("rid-struct", inp_c, {"count": len(eqs), "first_diff": eqs[j][:300] if j < len(eqs) else None},
                             {"count": parts[2], "first_diff": parts[3 + j][:300] if 3 + j < len(parts) else None}, size)

    # ---- spec on the implementation
    # (1) the slack schedule: 0.3 * 0.9^t, reported as 0 below 1e-6  (Fractions for integer t)
    for (t, v) in slack_obs:
        if t != int(t):
            continue
        raw = F(3, 10) * F(9, 10) ** int(t)
        want = 0.0 if raw < F(1, 10 ** 6) * (1 - F(1, 10 ** 9)) else (float(raw) if raw > F(1, 10 ** 6) * (1 + F(1, 10 ** 9)) else None)
        if want is not None and abs(v - want) > 1e-9 * max(want, 1e-300):
            ctx.spec_fail("slack-schedule", dict(inp, time=t), {"get_epsilon": v, "expected": want}, size)
    for ho in hard_obs:
        gap = abs(F(ho[2]) - F(ho[3]))
        if not ho[1]:
            ctx.spec_fail("exact-value-not-hard", inp, {"equation": "exact_value"}, size)
        elif gap <= F(1, 10 ** 6) * (1 - F(1, 10 ** 6)) and not ho[5]:
            ctx.spec_fail("hard-eq.complete", dict(inp, lhs=ho[2], rhs=ho[3]), {"gap": float(gap)}, size)
        elif gap >= F(1, 10 ** 6) * (1 + F(1, 10 ** 6)) and ho[5]:
            ctx.spec_fail("hard-eq.sound", dict(inp, lhs=ho[2], rhs=ho[3], slack=ho[4]), {"gap": float(gap), "met_although_apart": True}, size)
    # (2) step caps: `stepEqs_met_iff` — a cap is met iff the coordinate is within rad + 1e-6 of the value it had when
    #     Model(...) was built (w, h: upper cap only); rad = 0.06 * max(dw, dh) from the document
    if not all(o is not None for o in orders):
        return
    rad = F(6, 100) * max(F(B.dw), F(B.dh))
    base = input_cfg(B, orders)
    mu = F(1, 10 ** 9) * max(F(B.dw), F(B.dh))
    names = [e.name for _, e in steps]
    for si, (lab, raw) in enumerate(SLACKS[:2]):
        for k, (what, c) in enumerate(use_cfgs):
            ob = step_obs[lab][k]
            inp_c = dict(inp, cfg=[[[f2hex(v) for v in b] for b in boxes] for boxes in c], what=what, slack=lab)
            want = []
            for m, boxes in enumerate(c):
                for i, b in enumerate(boxes):
                    b0 = base[m][i]
                    want += [F(b[0]) - F(b0[0]) - rad, F(b0[0]) - rad - F(b[0]), F(b[1]) - F(b0[1]) - rad, F(b0[1]) - rad - F(b[1]),
                             F(b[2]) - F(b0[2]) - rad, F(b[3]) - F(b0[3]) - rad]
            if len(want) != len(ob):
                ctx.spec_fail("caps.count", inp_c, {"caps": len(ob), "expected": len(want)}, size)
                continue
            ctx.case("spec-caps", (key, lab, tuple(tuple(b) for boxes in c for b in boxes)), True, None)
            outside = False
            for j, (o, amt) in enumerate(zip(ob, want)):
                if len(o) == 1:
                    ctx.spec_fail("evaluate-raises", inp_c, {"eq": names[j], "error": o[0]}, size)
                    break
                if amt <= F(1, 10 ** 6) - mu and not o[2]:
                    ctx.spec_fail("caps.complete", inp_c, {"eq": names[j], "within_cap_but_unmet": float(amt)}, size)
                    break
                if amt >= F(1, 10 ** 6) + mu:
                    outside = True
                    if o[2]:
                        ctx.spec_fail("caps.sound", inp_c, {"eq": names[j], "outside_cap_but_met": float(amt)}, size)
                        break
            if lab == "0" and outside and all(v == "ok" for v in legal_status(B, orders, c).values()):
                ctx.count("caps: LEGAL floorplan outside the step caps kept from construction (C09-stale-step-caps)")
                _proposed(ctx, "C09-stale-step-caps", "caps.legal-outside-stale-caps", inp_c, {"what": what}, size)
    # (3) not enforced => disjoint at the construction point (`unenforced_holds`)
    inter = [e for e in B.model.gekko.constraints.get("Inter", [])]
    pairs_ = []
    for m in range(len(base)):
        for n in range(m + 1, len(base)):
            for p in base[m]:
                for q in base[n]:
                    pairs_.append((p, q))
    thr = F(2, 10) * max(F(B.dw), F(B.dh))
    if len(pairs_) == len(early["enforce"]):
        for (p, q), en in zip(pairs_, early["enforce"]):
            gx = max(F(0), abs(F(p[0]) - F(q[0])) - (F(p[2]) + F(q[2])) / 2)
            gy = max(F(0), abs(F(p[1]) - F(q[1])) - (F(p[3]) + F(q[3])) / 2)
            ctx.count("enforce:" + ("on" if en else "off"))
            if not en and gx + gy <= thr * (1 - F(1, 10 ** 9)):
                ctx.spec_fail("enforce.near-pair-dropped", inp, {"pair": [list(p), list(q)], "l1_gap": float(gx + gy), "threshold": float(thr)}, size)
            if en and gx + gy >= thr * (1 + F(1, 10 ** 9)):
                ctx.spec_fail("enforce.far-pair-kept", inp, {"pair": [list(p), list(q)], "l1_gap": float(gx + gy), "threshold": float(thr)}, size)
    else:
        ctx.spec_fail("enforce.count", inp, {"flags": len(early["enforce"]), "pairs": len(pairs_)}, size)
    # (4) a disabled rectangle: Rid demands w = h = 0 while the declared lower bound is 0.1
    for c, ob in zip(rid_cfgs, rid_obs):
        if isinstance(ob, str):
            continue
        flags, back, eqs = ob
        for m, fl in enumerate(flags):
            a = sum(F(b[2]) * F(b[3]) for b in c[m])
            for i, f_ in enumerate(fl):
                share = F(c[m][i][2]) * F(c[m][i][3]) / a
                if i == 0 or abs(share - F(1, 10)) <= F(1, 10 ** 9):
                    if i == 0 and not f_:
                        ctx.spec_fail("rid.trunk-disabled", inp, {"module": m}, size)
                    continue
                if f_ != (share > F(1, 10)):
                    ctx.spec_fail("rid.flag", inp, {"module": m, "rect": i, "share": float(share), "enabled": f_}, size)
                if not f_:
                    lbw = [lo for (mm, ii, kk, lo, up) in early["bounds"] if (mm, ii) == (m, i) and kk in "wh"]
                    if lbw and min(lbw) > 1e-6:
                        ctx.count("rid: disabled rectangle must have w = h = 0 but its declared lower bound is %g (C09-disabled-rect)" % min(lbw))


def _enforce_ties(B, orders, mflags, iflags) -> bool:
    if not all(o is not None for o in orders):
        return False
    base = input_cfg(B, orders)
    thr = 0.2 * max(B.dw, B.dh)
    k = 0
    for m in range(len(base)):
        for n in range(m + 1, len(base)):
            for p in base[m]:
                for q in base[n]:
                    if mflags[k] != iflags[k]:
                        d = max(0.0, abs(p[0] - q[0]) - 0.5 * (p[2] + q[2])) + max(0.0, abs(p[1] - q[1]) - 0.5 * (p[3] + q[3]))
                        if abs(d - thr) > 1e-9 * max(1.0, thr):
                            return False
                    k += 1
    return True


def _turnoff_tie(c, perc) -> bool:
    for boxes in c:
        a = sum(b[2] * b[3] for b in boxes)
        if a and any(abs(b[2] * b[3] / a - perc) <= 1e-9 for b in boxes[1:]):
            return True
    return False


# ----------------------------------------------------------------------------- end to end: the real legaliser, solver included
class _Shim:
    """what the Fraction oracle needs of a `Built`."""

    def __init__(self, inmods, dw, dh, r):
        self.inmods, self.dw, self.dh, self.r = inmods, dw, dh, r


def _live_worker(job: dict) -> dict:
    """one real `legalfloor.main` run (forked child): netlist + die files in, the floorplan of the captured Model out."""
    import contextlib
    import io
    import os
    import shutil
    import tempfile
    import time as _t
    out: dict = {}
    d = tempfile.mkdtemp(prefix="c09live_")
    t0 = _t.time()
    try:
        from tools.legalfloor import legalfloor as lf, expression_tree as et
        from frame.geometry.geometry import Rectangle
        from frame.netlist.netlist import Netlist
        Rectangle.undefine_epsilon()
        cap = []

        class Capturing(lf.Model):
            def __init__(self, *a, **k):
                cap.append(self)
                super().__init__(*a, **k)

            def solve(self, *a, **k):
                self._c09_eps_last = float(et.get_epsilon())   # the slack of the system this solve is given
                return super().solve(*a, **k)

        lf.Model = Capturing
        with open(d + "/n.yaml", "w") as f:
            f.write(job["yaml"])
        with open(d + "/d.yaml", "w") as f:
            f.write("width: %r\nheight: %r\n" % (job["dw"], job["dh"]))
        buf = io.StringIO()
        with contextlib.redirect_stdout(buf), contextlib.redirect_stderr(buf):
            nl = Netlist(job["yaml"])
            inmods = []
            for m in nl.modules:
                inmods.append({"hard": bool(m.is_hard), "fixed": bool(m.is_fixed), "area": m.area(),
                               "rects": [(r_.center.x, r_.center.y, r_.shape.w, r_.shape.h, _lc.LOC[r_.location.name]) for r_ in m.rectangles]})
            out["inmods"] = inmods
            Rectangle.undefine_epsilon()
            rc = lf.main("legalfloor", [d + "/n.yaml", d + "/d.yaml", "--num_iter", str(job["iters"]), "--max_ratio", repr(job["r"]),
                                        "--outfile", d + "/o.yaml"] + list(job.get("extra", [])))
        m = cap[0]
        out.update(rc=rc, solved=bool(m.is_solved()), eps_last=getattr(m, "_c09_eps_last", None), outfile=os.path.exists(d + "/o.yaml"),
                   cfg=[[(float(m.x[i][j].evaluate()), float(m.y[i][j].evaluate()), float(m.w[i][j].evaluate()), float(m.h[i][j].evaluate()))
                         for j in range(len(m.x[i]))] for i in range(len(m.M))],
                   enable=[[bool(e) for e in mm.enable] for mm in m.M])
    except BaseException as ex:  # noqa: BLE001  (SystemExit of argparse included)
        out.update(raised=type(ex).__name__, msg=str(ex)[:160])
    finally:
        shutil.rmtree(d, ignore_errors=True)
        try:
            _cleanup()
        except Exception:  # noqa: BLE001
            pass
    out["time"] = _t.time() - t0
    return out


def gen_live_instance(rng, allow_small: bool):
    """a tiny legal floorplan for a real run: 2-3 modules in 20 x 20 lattice cells, compact trunks (6..10 units), at most one
    thick branch per side whose area is at least 18 % of the module (so that `turn_off_rects(0.1)` leaves it alone) unless
    `allow_small`."""
    fam = rng.choice(["int", "quarter"])
    s = {"int": Fraction(1), "quarter": Fraction(1, 4)}[fam]
    cols, rows = rng.choice([(2, 1), (1, 2), (2, 2), (3, 1)])
    cw = ch = 20
    cells = [(c, r) for r in range(rows) for c in range(cols)]
    rng.shuffle(cells)
    nm = rng.randint(2, min(3, len(cells)))
    mods = []
    for k in range(nm):
        c, r = cells[k]
        kind = rng.choice(["soft", "soft", "hard", "fixed"])
        tx0, ty0 = rng.choice([4, 6]), rng.choice([4, 6])
        tw, th = rng.choice([6, 8, 10]), rng.choice([6, 8, 10])
        tx1, ty1 = tx0 + tw, ty0 + th
        rects = [(tx0, tx1, ty0, ty1, "T")]
        # quick tier: only rigid (hard / fixed) modules get branches — a soft module with a branch can reach a shape that
        # `fuse_rects` / `turn_off_rects` disable in mid-run, after which every solve fails slowly (C09-disabled-rect)
        nbr = rng.choice([0, 1, 1, 2]) if (allow_small or kind != "soft") else 0
        for side in rng.sample(list(SIDES), nbr):
            t = rng.choice([2, 4]) if allow_small else 4
            lo, hi = (tx0, tx1) if side in "NS" else (ty0, ty1)
            ln = rng.choice([4, 6]) if not allow_small else rng.choice([2, 4, 6])
            a = lo + 2 * rng.randint(0, (hi - lo - ln) // 2)
            b = a + ln
            if side == "N":
                rects.append((a, b, ty1, ty1 + t, "N"))
            elif side == "S":
                rects.append((a, b, ty0 - t, ty0, "S"))
            elif side == "E":
                rects.append((tx1, tx1 + t, a, b, "E"))
            else:
                rects.append((tx0 - t, tx0, a, b, "W"))
        if not allow_small:
            # `fuse_rects(0.05)` merges a branch into the trunk when the two nearly fill their bounding box: keep them apart (<= 90 %)
            def fusable(rc):
                bx = (max(rc[1], tx1) - min(rc[0], tx0)) * (max(rc[3], ty1) - min(rc[2], ty0))
                return ((rc[1] - rc[0]) * (rc[3] - rc[2]) + tw * th) * 10 > 9 * bx
            rects = [rc for n_, rc in enumerate(rects) if n_ == 0 or not fusable(rc)]
        tot = sum((x1 - x0) * (y1 - y0) for (x0, x1, y0, y1, _) in rects)
        if not allow_small:
            rects = [rc for n_, rc in enumerate(rects) if n_ == 0 or (rc[1] - rc[0]) * (rc[3] - rc[2]) * 100 >= 18 * tot]
            tot = sum((x1 - x0) * (y1 - y0) for (x0, x1, y0, y1, _) in rects)
            rects = [rc for n_, rc in enumerate(rects) if n_ == 0 or (rc[1] - rc[0]) * (rc[3] - rc[2]) * 100 >= 18 * tot]
            tot = sum((x1 - x0) * (y1 - y0) for (x0, x1, y0, y1, _) in rects)
        rects = [(x0 + c * cw, x1 + c * cw, y0 + r * ch, y1 + r * ch, sd) for (x0, x1, y0, y1, sd) in rects]
        mods.append({"kind": kind, "rects": rects, "area_lat": tot * rng.choice([Fraction(1), Fraction(9, 10)]), "cell": (c * cw, r * ch, cw, ch)})
    asp = max(max(Fraction(x1 - x0, y1 - y0), Fraction(y1 - y0, x1 - x0)) for m in mods for (x0, x1, y0, y1, _) in m["rects"])
    r = max(asp * Fraction(rng.randint(110, 160), 100), Fraction(2))
    return {"fam": fam, "s": s, "mods": mods, "dw_lat": cols * cw, "dh_lat": rows * ch, "r": float(r)}


def _live_instances(ctx: Ctx, n: int, max_rects: int):
    """tiny legal floorplans (>= 2 modules on one net) and slightly illegal ones (one movable module shifted onto its neighbour /
    partly out of the die); two thirds of them contain a module with a branch."""
    jobs = []
    tries = 0
    while len(jobs) < n and tries < 4000:
        tries += 1
        allow_small = ctx.tier != "quick" and ctx.rng.random() < 0.35
        inst = gen_live_instance(ctx.rng, allow_small)
        nrect = sum(len(m["rects"]) for m in inst["mods"])
        if nrect > max_rects or (len(jobs) % 3 != 2 and nrect == len(inst["mods"])):
            continue
        small = False
        for m in inst["mods"]:
            tot = sum((x1 - x0) * (y1 - y0) for (x0, x1, y0, y1, _) in m["rects"])
            if any((x1 - x0) * (y1 - y0) * 100 < 18 * tot for (x0, x1, y0, y1, _) in m["rects"][1:]):
                small = True
        kind = "legal"
        movable = [k for k, m in enumerate(inst["mods"]) if m["kind"] != "fixed"]
        if movable and ctx.rng.random() < 0.5:
            k = ctx.rng.choice(movable)
            dx, dy = ctx.rng.choice([(-6, 0), (6, 0), (0, -6), (0, 6), (-4, -4), (4, 4), (8, 0), (0, 8)])
            inst["mods"][k]["rects"] = [(x0 + dx, x1 + dx, y0 + dy, y1 + dy, sd) for (x0, x1, y0, y1, sd) in inst["mods"][k]["rects"]]
            kind = "shifted"
        jobs.append({"yaml": yaml_of(inst), "dw": float(inst["dw_lat"] * inst["s"]), "dh": float(inst["dh_lat"] * inst["s"]), "r": inst["r"],
                     "fam": inst["fam"], "kind": kind, "small_branch": small})
    return jobs


def run_live(ctx: Ctx) -> None:
    """END TO END: `tools/legalfloor` `main` (GEKKO + the local solver binary, offline) on tiny inputs; a floorplan returned by a
    run whose last solve succeeded, with every rectangle enabled, must be legal within the slack of that solve."""
    import multiprocessing as mp
    import os
    quick = ctx.tier == "quick"
    n = 6 if quick else 36
    if ctx.budget > 1.0:
        n = n * 2            # extended search: a few more, not x20 (seconds per run)
    iters = 14 if quick else 45
    jobs = _live_instances(ctx, n, 6 if quick else 9)
    for j in jobs:
        j["iters"] = iters
    stats = ctx.extra.setdefault("live_legaliser_runs", {"launched": 0, "returned": 0, "last_solve_succeeded": 0, "judged": 0,
                                                         "with_disabled_rectangle": 0, "raised": {}, "iterations": iters})
    if not jobs:
        return
    try:
        with mp.get_context("fork").Pool(min(len(jobs), os.cpu_count() or 1, 12)) as pool:
            res = pool.map_async(_live_worker, jobs).get(timeout=900 if not quick else 150)
    except Exception as ex:  # noqa: BLE001
        ctx.notes.append("live legaliser runs could not be collected: %s" % type(ex).__name__)
        return
    stats["run_seconds"] = [round(r.get("time", 0.0), 1) for r in res]
    for job, r in zip(jobs, res):
        _judge_live(ctx, job, r, stats)
    if stats["judged"] == 0:
        ctx.notes.append("no live legaliser run was judged in this run (returned: %d of %d)" % (stats["returned"], stats["launched"]))


def _live_verdict(B, orders, cfg, job, r):
    """(groups violated beyond the allowance, rectangles of non-positive size, allowance for the linear groups)."""
    F = Fraction
    nonpos = [(m, i) for m, boxes in enumerate(cfg) for i, b in enumerate(boxes) if b[2] <= 0 or b[3] <= 0]
    # allowance: the slack of the last solve + the constant of is_equation_met + the solver's own tolerance.  `ModelWrapper.solve`
    # sets RTOL = OTOL = 1e-2, which the solver applies RELATIVE to the size of an equation's terms (observed: a no-overlap
    # equation with terms ~169 left violated by 1.9): 3e-2 x the largest term of the group's equations.
    base = F(r["eps_last"]) + F(1, 10 ** 6)
    die = max(F(job["dw"]), F(job["dh"]))
    rtol = F(3, 100)
    ev = eq_violations(B, orders, cfg)
    amax = max([F(m_["area"]) for m_ in B.inmods] + [F(1)])
    scale = {"Bounds": die, "Attach": die, "Intra": die, "Fix": die, "Shapes": F(5), "Area": amax}
    ms = {}
    for g in GROUPS:
        if g == "Inter":
            continue
        ms[g] = met_status(B, {h: (ev[h] if h == g else []) for h in GROUPS}, base + rtol * scale[g], F(1, 10 ** 9))[g]
    tau = F(1, 100) * min(F(job["dw"]), F(job["dh"])) / len(B.inmods)
    worst_inter = "ok"
    flat = [b for boxes in cfg for b in boxes]
    big2 = max([(F(b[2]) + F(b[3])) ** 2 for b in flat] + [F(1)])
    for (tx, ty) in ev["Inter"]:
        d = base + rtol * max(abs(tx), abs(ty), big2)
        if not ((tx + d) + (ty + d) >= 0 or (tx + d) * (ty + d) <= tau * tau):
            worst_inter = "viol"
    ms["Inter"] = worst_inter
    delta = base + rtol * die
    return sorted(g for g, s_ in ms.items() if s_ == "viol"), nonpos, delta


def _judge_live(ctx: Ctx, job: dict, r: dict, stats: dict) -> None:
    F = Fraction
    stats["launched"] += 1
    inp = {"live": True, "yaml": job["yaml"], "dw": job["dw"], "dh": job["dh"], "r": job["r"], "iters": job["iters"], "fam": job["fam"],
           "kind": job["kind"]}
    size = len(job["yaml"])
    ctx.case("live", (job["yaml"], job["dw"], job["dh"], job["r"], job["iters"]), True, None)
    if "cfg" not in r:
        cls = r.get("raised", "?")
        stats["raised"][cls] = stats["raised"].get(cls, 0) + 1
        ctx.count("live: raised " + cls)
        return
    stats["returned"] += 1
    cfg = [[tuple(b) for b in boxes] for boxes in r["cfg"]]
    disabled = any(not all(e) for e in r["enable"])
    if disabled:
        stats["with_disabled_rectangle"] += 1
    if r["solved"]:
        stats["last_solve_succeeded"] += 1
    ctx.count("live: %s input, %s%s" % (job["kind"], "last solve succeeded" if r["solved"] else "last solve FAILED",
                                      ", a rectangle was turned off" if disabled else ""))
    B = _Shim(r["inmods"], job["dw"], job["dh"], job["r"])
    orders = [model_order(m) for m in B.inmods]
    if not all(o is not None for o in orders) or r.get("eps_last") is None:
        return
    # rectangles in ModelModule order = order of the captured model's variables
    if any(len(boxes) != len(o[0]) for boxes, o in zip(cfg, orders)):
        ctx.spec_fail("live.shape", inp, {"rects_per_module": [len(b) for b in cfg]}, size)
        return
    bad, nonpos, delta = _live_verdict(B, orders, cfg, job, r)
    detail = {"violated_beyond_slack": bad, "nonpositive": nonpos[:3], "slack_of_last_solve": r["eps_last"], "allowance": float(delta),
              "floorplan": [[list(b) for b in boxes] for boxes in cfg], "enable": r["enable"], "last_solve_succeeded": r["solved"]}
    if not (bad or nonpos):
        if r["solved"] and not disabled:
            stats["judged"] += 1
        ctx.count("live: returned floorplan legal within the slack of the last solve")
        return
    # the branches of a movable hard module put back at their INPUT place after the solve (`fixed_vars` reset): judged on the
    # floorplan with those branches re-attached at their original offsets; if that one is legal the failure is exactly this defect
    reset = False
    cfg2 = [list(boxes) for boxes in cfg]
    for m_, im in enumerate(B.inmods):
        if not im["hard"] or im["fixed"] or len(cfg[m_]) < 2:
            continue
        orig = [tuple(float(v) for v in im["rects"][k_][:4]) for k_ in orders[m_][0]]
        moved = abs(cfg[m_][0][0] - orig[0][0]) + abs(cfg[m_][0][1] - orig[0][1]) > 1e-3
        back = all(abs(cfg[m_][i_][0] - orig[i_][0]) <= 1e-6 and abs(cfg[m_][i_][1] - orig[i_][1]) <= 1e-6 for i_ in range(1, len(orig)))
        if moved and back:
            reset = True
            for i_ in range(1, len(orig)):
                cfg2[m_][i_] = (cfg[m_][0][0] + orig[i_][0] - orig[0][0], cfg[m_][0][1] + orig[i_][1] - orig[0][1], cfg[m_][i_][2], cfg[m_][i_][3])
    if reset and not disabled and r["solved"]:
        bad2, nonpos2, _ = _live_verdict(B, orders, cfg2, job, r)
        if not (bad2 or nonpos2):
            stats["judged"] += 1
            ctx.count("live: hard module returned with its branches back at the input place (C09-fixed-vars-reset)")
            _proposed(ctx, "C09-fixed-vars-reset", "live." + "+".join(bad or ["Positive"]), inp, detail, size)
            return
    if disabled:
        ctx.count("live: ILLEGAL floorplan returned after a rectangle was turned off (C09-disabled-rect)")
        _proposed(ctx, "C09-disabled-rect", "live." + "+".join(bad or ["Positive"]), inp, detail, size)
        return
    if not r["solved"]:
        ctx.count("live: illegal floorplan, but the last solve reported failure (not judged)")
        return
    stats["judged"] += 1
    ctx.spec_fail("live." + "+".join(bad or ["Positive"]), inp, detail, size)


def _proposed(ctx: Ctx, fid: str, clause: str, inp, detail, size) -> None:
    """a failure inside the region of a finding this check knows: a spec failure carrying the finding id once the
    coordinator has registered it in known_findings.json; until then only counted (evidence key `proposed_findings`)."""
    import json
    import os
    reg = ctx.extra.setdefault("proposed_findings", {})
    reg[fid] = reg.get(fid, 0) + 1
    try:
        known = json.load(open(os.path.join(os.path.dirname(os.path.dirname(os.path.dirname(os.path.abspath(__file__)))), "known_findings.json")))
    except Exception:  # noqa: BLE001
        known = []
    if any(k.get("id") == fid and k.get("status") == "open" for k in known):
        ctx.spec_fail(clause, inp, detail, size, finding=fid)
    elif any(k.get("id") in (fid, fid.replace("-", "_")) and k.get("status") == "fixed" for k in known):
        ctx.spec_fail(clause, inp, detail, size)          # a repaired defect that shows again


CORPUS_YAML = """
Modules: {
  A: { rectangles: [[5, 5, 6, 4], [7, 8, 2, 2], [9, 5, 2, 2]], hard: true },
  B: { rectangles: [[15.5, 5.0, 5.0, 4.0], [15.5, 8.5, 3.0, 3.0]], fixed: true },
  C: { area: 12, rectangles: [[3.0, 12.0, 4.0, 3.0]] },
  D: { rectangles: [[10, 14, 4, 2], [10, 16, 2, 2]], fixed: true }
}
Nets: [[A, B, C]]
"""


# the witness of the former NOT CLAIMED block: soft A with w = h = -2 exactly on top of soft B meets every equation
NEG_YAML = """
Modules: {
  A: { area: 4, rectangles: [[7, 7, 2, 2]] },
  B: { area: 4, rectangles: [[3, 3, 2, 2]] }
}
Nets: [[A, B]]
"""


def run(ctx: Ctx) -> None:
    ctx.rule = ("legal floorplans built on an integer lattice (1–4 modules in disjoint cells of the die; trunk with 0–2 branches per "
                "side, branches possibly abutting and listed in either order; soft / hard / fixed; required area 100%/90%/75% of the "
                "drawn area; ratio limit at or above the largest aspect), written as YAML with int, quarter (dyadic) or decimal "
                "coordinates and read by the repository's Netlist (roles = the STOG locations it assigns). Configurations: the input, "
                "~14 variants (nudges, shifts, moves far away / onto another module, thinning, shrinking, growing, detaching, sliding, "
                "swapping branches, resizing, moving a branch) and variants of a legal variant. A configuration is classified by the "
                "Fraction oracle; 'unsure' ones (a clause between 1e-8 and 2% of the smallest side) are not judged. "
                "Also: variants with negated / tiny (< 0.1) sizes, a 'centi' unit (modules narrower than 0.1), 12 % of the soft modules "
                "with a detached extra rectangle (roles NO_POLYGON; correspondence streams only), a fixed corpus configuration with a "
                "negative-size box that meets every equation; live: 6 (thorough 36) tiny netlists (>= 2 modules on a net, int / quarter "
                "lattice, branches >= 18 % of their module in quick), half of them with one movable module shifted by 4..8 lattice units. "
                "distinct = distinct (netlist, die, ratio[, configuration])")
    seeds = getattr(ctx, "seed_inputs", None) or []
    for inp in seeds[:20]:
        base = {k: inp[k] for k in ("yaml", "dw", "dh", "r", "fam") if k in inp}
        check_instance(ctx, base, 10)
    if ctx.budget <= 1.0:
        check_instance(ctx, {"yaml": CORPUS_YAML, "dw": 20.0, "dh": 20.0, "r": 3.0, "fam": "corpus"}, 30)
        check_instance(ctx, {"yaml": NEG_YAML, "dw": 10.0, "dh": 10.0, "r": 3.0, "fam": "corpus",
                             "extra_cfgs": [[[(3.0, 3.0, -2.0, -2.0)], [(3.0, 3.0, 2.0, 2.0)]]]}, 6)
    for _ in range(ctx.n(60, 2000)):
        inst = gen_instance(ctx.rng)
        inp = {"yaml": yaml_of(inst), "dw": float(inst["dw_lat"] * inst["s"]), "dh": float(inst["dh_lat"] * inst["s"]),
               "r": inst["r"], "fam": inst["fam"]}
        check_instance(ctx, inp, 12)
    try:
        import time as _t
        t_live = _t.time()
        run_live(ctx)
        ctx.extra["live_wall_s"] = round(_t.time() - t_live, 1)
    except Exception as ex:  # noqa: BLE001
        ctx.notes.append("live legaliser stream failed: %s %s" % (type(ex).__name__, str(ex)[:100]))
    ctx.assumptions.append("GEKKO enforces the declared variable bounds (lb = 0.1 on w, h: positive sizes); the bounds themselves are "
                           "compared with the model on every run (stream decls) and are part of the judged system")
    ctx.assumptions.append("max_ratio >= 1; die and ratio are floats; at least one module")


def replay(ctx: Ctx, body: dict) -> None:
    inp = body["input"]
    if inp.get("live"):
        job = {k: inp[k] for k in ("yaml", "dw", "dh", "r", "iters", "fam", "kind")}
        import multiprocessing as mp
        with mp.get_context("fork").Pool(1) as pool:
            r = pool.apply(_live_worker, (job,))
        _judge_live(ctx, job, r, ctx.extra.setdefault("live_legaliser_runs", {"launched": 0, "returned": 0, "last_solve_succeeded": 0,
                                                                             "judged": 0, "with_disabled_rectangle": 0, "raised": {}}))
        return
    base = {k: inp[k] for k in ("yaml", "dw", "dh", "r", "fam") if k in inp}
    check_instance(ctx, base, 14, fixed_cfgs=[inp["cfg"]] if "cfg" in inp else None)

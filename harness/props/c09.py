"""C09 — Legaliser constraint system admits exactly the legal floorplans.

GEKKO never solves here: the real `Model(...)` of tools/legalfloor is built (that only creates variables and
`Equation` objects), and every `Equation` that carries a legality condition is walked (under four values of the
process-wide slack: 0, the one `Model(...)` installs (0.27), 0.05, and 5e-7, which the code clamps to 0): per module `get_constraints()` (Bounds, Shapes, Attach, Intra),
then the groups Area, Inter, Fix of `ModelWrapper.constraints`.

Correspondence (model = FV/Model/Legal.lean run at Float by `drv_legal`):
  * utils   : `netlist_to_utils(netlist)` vs `netlistToUtils` (ml, al and the four fixing tables);
  * struct  : the expression trees of every equation, node for node, constants bit-equal, names, groups,
              comparison, hard flag, order;
  * eval    : `lhs.evaluate()`, `rhs.evaluate()`, `is_equation_met()` of every equation under assigned
              configurations and each slack vs the model's `eval` / `met` (eps = the slack, clamped below 1e-6; tol = 1e-6).
Spec on implementation: `Legal` (FV/Props/C09.lean) re-implemented independently with `fractions.Fraction`
decides for every configuration which legality clauses hold / are violated by a clear margin; the set of
groups with an unmet equation must be exactly the set of violated clauses (empty for legal configurations,
in particular for the input configuration of a legal floorplan).  At every slack e the relaxed clauses of the
slack theorems (`*_met_iff`, delta = e + 1e-6), evaluated exactly, must agree group by group with what
`is_equation_met()` reports; probes sit at 0.5 / 0.9 / 1.1 / 1.25 x the threshold (also across the 1e-6 clamp).
"""
from __future__ import annotations

from fractions import Fraction

from vcheck import Ctx, f2hex, hex2f
from legal_common import Built, ser_eq, ser_utils, cleanup as _cleanup

LEVEL = "proof"
DRIVERS = ["drv_legal"]
TRUSTED = [
    "Lean 4.33 kernel; Mathlib lemmas (Real.sqrt, Real.rpow, ordered fields); axioms ⊆ {propext, Classical.choice, Quot.sound}",
    "hand-written model FV/Model/Legal.lean — fidelity to tools/legalfloor/{legalfloor,expression_tree,model}.py checked by this "
    "correspondence run (trees node for node, evaluation bit for bit), not proved",
    "theorems are over ℝ for every slack e >= 0 and constant t >= 0 (exact system: e = t = 0); `is_equation_met` is executed at "
    "slacks 0 / 0.27 (installed by Model) / 0.05 / 5e-7 with t = 1e-6 in IEEE doubles and compared with the relaxed clauses (not proved for doubles)",
    "GEKKO is not exercised: what the solver does with the equations (and its variable bounds lb/ub) is outside this check",
    "STOG roles (`Rectangle.location`) are taken as the repository assigns them (C06); positive rectangle sizes are a hypothesis "
    "(GEKKO variable bound lb = 0.1 on w/h)",
    "harness (Python, incl. the Fraction re-implementation of Legal) and compiled Lean driver: parsing, comparison",
]

GROUPS = ["Bounds", "Shapes", "Area", "Attach", "Intra", "Inter", "Fix"]
SIDES = "NSEW"

# ----------------------------------------------------------------------------- instances (integer lattice, then scaled)
def _even(rng, lo, hi):
    lo, hi = (lo + 1) // 2, hi // 2
    return 2 * rng.randint(lo, hi)


def gen_module(rng, cw, ch, nbr_max):
    """a single-trunk orthogon inside the cell [0,cw]x[0,ch]: edges on even integers.
    returns rects = [(x0, x1, y0, y1, side)] with the trunk first ('T')."""
    tx0 = _even(rng, 4, cw // 2 - 2)
    tx1 = _even(rng, cw // 2 + 2, cw - 4)
    ty0 = _even(rng, 4, ch // 2 - 2)
    ty1 = _even(rng, ch // 2 + 2, ch - 4)
    rects = [(tx0, tx1, ty0, ty1, "T")]
    for side in SIDES:
        nb = rng.choice([0, 0, 1, 1, 2]) if nbr_max >= 2 else rng.choice([0, 1])
        nb = min(nb, nbr_max)
        lo, hi = (tx0, tx1) if side in "NS" else (ty0, ty1)
        if nb == 2 and hi - lo < 8:
            nb = 1
        cuts = []
        if nb == 1:
            a = _even(rng, lo, hi - 2)
            b = _even(rng, a + 2, hi)
            cuts = [(a, b)]
        elif nb == 2:
            pts = sorted(rng.sample(range(lo // 2, hi // 2 + 1), 4))
            cuts = [(2 * pts[0], 2 * pts[1]), (2 * pts[2], 2 * pts[3])]
            if rng.random() < 0.3:  # abutting branches
                cuts = [(2 * pts[0], 2 * pts[1]), (2 * pts[1], 2 * pts[3])]
            if rng.random() < 0.5:
                cuts.reverse()  # listed right-to-left: the order along the side is by coordinate, not by index
        for (a, b) in cuts:
            t = rng.choice([2, 2, 4])
            if side == "N":
                rects.append((a, b, ty1, ty1 + t, "N"))
            elif side == "S":
                rects.append((a, b, ty0 - t, ty0, "S"))
            elif side == "E":
                rects.append((tx1, tx1 + t, a, b, "E"))
            else:
                rects.append((tx0 - t, tx0, a, b, "W"))
    return rects


def gen_instance(rng):
    fam = rng.choice(["int", "quarter", "decimal"])
    s = {"int": Fraction(1), "quarter": Fraction(1, 4), "decimal": Fraction(1, 10)}[fam]
    cols, rows = rng.choice([(1, 1), (2, 1), (1, 2), (2, 2), (3, 1), (2, 2)])
    cw, ch = _even(rng, 20, 36), _even(rng, 20, 36)
    cells = [(c, r) for r in range(rows) for c in range(cols)]
    rng.shuffle(cells)
    nm = rng.randint(1, len(cells))
    mods = []
    for k in range(nm):
        c, r = cells[k]
        kind = rng.choice(["soft", "soft", "hard", "fixed"])
        rects = gen_module(rng, cw, ch, 2 if rng.random() < 0.7 else 0)
        if rng.random() < 0.25:
            rects = rects[:1]
        rects = [(x0 + c * cw, x1 + c * cw, y0 + r * ch, y1 + r * ch, sd) for (x0, x1, y0, y1, sd) in rects]
        tot = sum((x1 - x0) * (y1 - y0) for (x0, x1, y0, y1, _) in rects)
        areaf = rng.choice([Fraction(1), Fraction(1), Fraction(9, 10), Fraction(3, 4)])
        mods.append({"kind": kind, "rects": rects, "area_lat": tot * areaf, "cell": (c * cw, r * ch, cw, ch)})
    dw, dh = cols * cw, rows * ch
    # aspect-ratio limit: at or above the largest aspect of the input
    asp = max(max(Fraction(x1 - x0, y1 - y0), Fraction(y1 - y0, x1 - x0)) for m in mods for (x0, x1, y0, y1, _) in m["rects"])
    if rng.random() < 0.2:
        r = asp
    else:
        r = asp * Fraction(rng.randint(105, 160), 100)
    r = max(r, Fraction(3, 2))
    return {"fam": fam, "s": s, "mods": mods, "dw_lat": dw, "dh_lat": dh, "r": float(r)}


def _num(fam, s, k):
    """lattice integer (or Fraction) -> the number written into the YAML document."""
    v = Fraction(k) * s
    if fam == "int" and v.denominator == 1:
        return int(v)
    if fam == "decimal":
        return round(float(v), 9)
    return float(v)


def yaml_of(inst) -> str:
    fam, s = inst["fam"], inst["s"]
    lines = []
    for k, m in enumerate(inst["mods"]):
        rs = []
        for (x0, x1, y0, y1, _) in m["rects"]:
            rs.append("[%r, %r, %r, %r]" % (_num(fam, s, Fraction(x0 + x1, 2)), _num(fam, s, Fraction(y0 + y1, 2)),
                                           _num(fam, s, x1 - x0), _num(fam, s, y1 - y0)))
        attr = "rectangles: [" + ", ".join(rs) + "]"
        if m["kind"] == "soft":
            a = m["area_lat"] * s * s
            attr = ("area: %r, " % (int(a) if fam == "int" and a.denominator == 1 else float(a))) + attr
        elif m["kind"] == "hard":
            attr += ", hard: true"
        else:
            attr += ", fixed: true"
        lines.append("  M%d: { %s }" % (k, attr))
    names = ["M%d" % k for k in range(len(inst["mods"]))]
    nets = "[[%s]]" % ", ".join(names) if len(names) > 1 else "[]"
    return "Modules: {\n" + ",\n".join(lines) + "\n}\nNets: " + nets + "\n"


def wire_mods(inmods) -> str:
    out = [str(len(inmods))]
    for m in inmods:
        out += [str(int(m["hard"])), str(int(m["fixed"])), f2hex(m["area"]), str(len(m["rects"]))]
        for (x, y, w, h, loc) in m["rects"]:
            out += [f2hex(x), f2hex(y), f2hex(w), f2hex(h), loc]
    return " ".join(out)


def wire_cfg(cfg) -> str:
    out = [str(len(cfg))]
    for boxes in cfg:
        out.append(str(len(boxes)))
        for b in boxes:
            out += [f2hex(v) for v in b]
    return " ".join(out)


# ----------------------------------------------------------------------------- Legal, independently, in Fractions
def model_order(inmod):
    """indices of a module's rectangles in ModelModule order (trunk, N…, S…, E…, W…) and their sides;
    None unless exactly one TRUNK and every other rectangle has a side."""
    locs = [r[4] for r in inmod["rects"]]
    if locs.count("T") != 1 or any(c == "X" for c in locs):
        return None
    order = [locs.index("T")]
    sides = ["T"]
    for sd in SIDES:
        for k, c in enumerate(locs):
            if c == sd:
                order.append(k)
                sides.append(sd)
    return order, sides


def legal_status(B: Built, orders, cfg):
    """{group: 'ok' | 'viol' | 'unsure'} — every legality clause evaluated exactly on the configuration."""
    F = Fraction
    dw, dh, r = F(B.dw), F(B.dh), F(B.r)
    n = len(cfg)
    tau = F(1, 100) * min(dw, dh) / n
    unit = min(min(F(b[2]), F(b[3])) for m in B.inmods for b in m["rects"])
    tiny, clear = unit * F(1, 10 ** 8), unit * F(1, 50)
    C = [[tuple(F(v) for v in b) for b in boxes] for boxes in cfg]
    st = {}

    def grade(v, tn=tiny, cl=clear):
        return "ok" if v <= tn else ("viol" if v >= cl else "unsure")

    def worst(grades):
        grades = list(grades)
        return "viol" if "viol" in grades else ("unsure" if "unsure" in grades else "ok")

    # inside the die
    st["Bounds"] = worst(grade(max(-(x - w / 2), -(y - h / 2), x + w / 2 - dw, y + h / 2 - dh)) for bs in C for (x, y, w, h) in bs)
    # aspect ratio
    st["Shapes"] = worst(grade(max(w / h, h / w) - r, r * F(1, 10 ** 8), r * F(1, 50)) for bs in C for (x, y, w, h) in bs)
    # area
    gs = []
    for m, bs in enumerate(C):
        need = F(B.inmods[m]["area"])
        gs.append(grade(need - sum(w * h for (_, _, w, h) in bs), need * F(1, 10 ** 8), need * F(1, 50)))
    st["Area"] = worst(gs)
    # attachment to the trunk, within its extent
    gs = []
    for m, bs in enumerate(C):
        x0, y0, w0, h0 = bs[0]
        for i, sd in enumerate(orders[m][1]):
            if sd == "T":
                continue
            x, y, w, h = bs[i]
            if sd == "N":
                v = max(abs((y - h / 2) - (y0 + h0 / 2)), (x0 - w0 / 2) - (x - w / 2), (x + w / 2) - (x0 + w0 / 2))
            elif sd == "S":
                v = max(abs((y + h / 2) - (y0 - h0 / 2)), (x0 - w0 / 2) - (x - w / 2), (x + w / 2) - (x0 + w0 / 2))
            elif sd == "E":
                v = max(abs((x - w / 2) - (x0 + w0 / 2)), (y0 - h0 / 2) - (y - h / 2), (y + h / 2) - (y0 + h0 / 2))
            else:
                v = max(abs((x + w / 2) - (x0 - w0 / 2)), (y0 - h0 / 2) - (y - h / 2), (y + h / 2) - (y0 + h0 / 2))
            gs.append(grade(v))
    st["Attach"] = worst(gs)
    # original order along each side, no overlap
    gs = []
    for m, bs in enumerate(C):
        order, sides = orders[m]
        orig = [B.inmods[m]["rects"][k] for k in order]
        for sd in SIDES:
            idx = [i for i, s_ in enumerate(sides) if s_ == sd]
            if sd in "NS":
                idx = sorted(idx, key=lambda i: F(orig[i][0]))
                span = [(bs[i][0] - bs[i][2] / 2, bs[i][0] + bs[i][2] / 2) for i in idx]
            else:
                idx = sorted(idx, key=lambda i: F(orig[i][1]))
                span = [(bs[i][1] - bs[i][3] / 2, bs[i][1] + bs[i][3] / 2) for i in idx]
            for a in range(len(span)):
                for b in range(a + 1, len(span)):
                    gs.append(grade(span[a][1] - span[b][0]))
    st["Intra"] = worst(gs)
    # different modules do not overlap (up to the smoothing tolerance tau on the overlap area)
    gs = []
    for m in range(n):
        for k in range(m + 1, n):
            for (x1, y1, w1, h1) in C[m]:
                for (x2, y2, w2, h2) in C[k]:
                    px = (w1 + w2) / 2 - abs(x1 - x2)
                    py = (h1 + h2) / 2 - abs(y1 - y2)
                    if min(px, py) <= tiny:
                        gs.append("ok")
                        continue
                    ovx = min(px, w1, w2)
                    ovy = min(py, h1, h2)
                    gs.append("viol" if (min(px, py) >= clear and ovx * ovy >= 2 * tau) else "unsure")
    st["Inter"] = worst(gs)
    # hard: congruent to the original (same sizes, same offsets from the trunk); fixed: trunk at its place
    gs = []
    for m, bs in enumerate(C):
        im = B.inmods[m]
        if not im["hard"]:
            continue
        order, _ = orders[m]
        orig = [tuple(F(v) for v in im["rects"][k][:4]) for k in order]
        for i, (x, y, w, h) in enumerate(bs):
            v = max(abs(w - orig[i][2]), abs(h - orig[i][3]))
            if i > 0:
                v = max(v, abs((x - bs[0][0]) - (orig[i][0] - orig[0][0])), abs((y - bs[0][1]) - (orig[i][1] - orig[0][1])))
            elif im["fixed"]:
                v = max(v, abs(x - orig[0][0]), abs(y - orig[0][1]))
            gs.append(grade(v))
    st["Fix"] = worst(gs)
    return st


def eq_violations(B: Built, orders, cfg):
    """per group the exact amounts by which each equation (in its own units) is missed: the equation is met with
    slack e and constant t iff amount <= e + t (`*_met_iff` of FV/Props/C09.lean).  Inter: the pairs (tX, tY)."""
    F = Fraction
    dw, dh, r = F(B.dw), F(B.dh), F(B.r)
    C = [[tuple(F(v) for v in b) for b in boxes] for boxes in cfg]
    out = {g: [] for g in GROUPS}
    thin_r = r * 1 / (r * r + 1)
    for m, bs in enumerate(C):
        for (x, y, w, h) in bs:
            out["Bounds"] += [-(x - w / 2), -(y - h / 2), x + w / 2 - dw, y + h / 2 - dh]
            out["Shapes"].append(10 * thin_r - 10 * (w * h / (w * w + h * h)))
        out["Area"].append(F(B.inmods[m]["area"]) - sum(w * h for (_, _, w, h) in bs))
        x0, y0, w0, h0 = bs[0]
        order, sides = orders[m]
        orig = [tuple(F(v) for v in B.inmods[m]["rects"][k][:4]) for k in order]
        for i, sd in enumerate(sides):
            if sd == "T":
                continue
            x, y, w, h = bs[i]
            if sd in "NS":
                T = y0 + h0 / 2 + h / 2 if sd == "N" else y0 - h0 / 2 - h / 2
                out["Attach"] += [abs(y - T), (x0 - w0 / 2 + w / 2) - x, x - (x0 + w0 / 2 - w / 2)]
            else:
                T = x0 + w0 / 2 + w / 2 if sd == "E" else x0 - w0 / 2 - w / 2
                out["Attach"] += [abs(x - T), (y0 - h0 / 2 + h / 2) - y, y - (y0 + h0 / 2 - h / 2)]
        for sd in SIDES:
            idx = [i for i, s_ in enumerate(sides) if s_ == sd]
            if sd in "NS":
                idx = sorted(idx, key=lambda i: orig[i][0])
                span = [(bs[i][0] - bs[i][2] / 2, bs[i][0] + bs[i][2] / 2) for i in idx]
            else:
                idx = sorted(idx, key=lambda i: orig[i][1])
                span = [(bs[i][1] - bs[i][3] / 2, bs[i][1] + bs[i][3] / 2) for i in idx]
            for a in range(len(span) - 1):  # the equations compare neighbours only
                out["Intra"].append(span[a][1] - span[a + 1][0])
        im = B.inmods[m]
        if im["hard"]:
            for i, (x, y, w, h) in enumerate(bs):
                out["Fix"] += [abs(w - orig[i][2]), abs(h - orig[i][3])]
                if i > 0:
                    out["Fix"] += [abs(x - (orig[i][0] - orig[0][0] + x0)), abs(y - (orig[i][1] - orig[0][1] + y0))]
                elif im["fixed"]:
                    out["Fix"] += [abs(x - orig[0][0]), abs(y - orig[0][1])]
    n = len(C)
    for m in range(n):
        for k in range(m + 1, n):
            for (x1, y1, w1, h1) in C[m]:
                for (x2, y2, w2, h2) in C[k]:
                    out["Inter"].append(((x1 - x2) ** 2 - (w1 + w2) ** 2 / 4, (y1 - y2) ** 2 - (h1 + h2) ** 2 / 4))
    return out


def met_status(B: Built, viol, delta: Fraction, mu: Fraction):
    """{group: 'ok' | 'viol' | 'unsure'}: every equation of the group met at slack+constant = delta, graded with margin mu."""
    tau = Fraction(1, 100) * min(Fraction(B.dw), Fraction(B.dh)) / len(B.inmods)

    def inter_met(tx, ty, d):
        return (tx + d) + (ty + d) >= 0 or (tx + d) * (ty + d) <= tau * tau

    st = {}
    for g in GROUPS:
        if g == "Inter":
            gs = ["ok" if inter_met(tx, ty, delta - mu) else ("viol" if not inter_met(tx, ty, delta + mu) else "unsure")
                  for (tx, ty) in viol[g]]
        else:
            gs = ["ok" if v <= delta - mu else ("viol" if v >= delta + mu else "unsure") for v in viol[g]]
        st[g] = "viol" if "viol" in gs else ("unsure" if "unsure" in gs else "ok")
    return st


# slacks every configuration is evaluated at: (label, plain value of the slack tree; None = the tree Model(...) installed)
SLACKS = [("0", 0.0), ("real", None), ("0.05", 0.05), ("5e-7(below the 1e-6 clamp)", 5e-7)]


# ----------------------------------------------------------------------------- configurations
def input_cfg(B: Built, orders):
    return [[tuple(float(v) for v in B.inmods[m]["rects"][k][:4]) for k in orders[m][0]] for m in range(len(orders))]


def variants(rng, B: Built, orders, base, count):
    """legal-looking and clause-violating variants of `base` (the oracle decides what they are)."""
    out = []
    n = len(base)
    unit = min(min(b[2], b[3]) for boxes in base for b in boxes)
    span = max(B.dw, B.dh)
    for _ in range(count):
        cfg = [list(boxes) for boxes in base]
        m = rng.randrange(n)
        kind = B.inmods[m]
        bs = cfg[m]
        sides = orders[m][1]
        op = rng.choice(["nudge", "shift", "far", "onto", "thin", "shrink", "detach", "slide", "swap", "resize", "branchmove", "grow",
                         "edge", "edge"])
        what = op
        if op == "edge":
            # stick out of the die by a multiple of (slack + 1e-6) for one of the slacks the equations are evaluated at:
            # just inside / just outside the acceptance threshold of is_equation_met (also across the 1e-6 clamp of the slack)
            lim = rng.choice([1e-6, 0.05 + 1e-6, B.real_eps + 1e-6])
            f = lim * rng.choice([0.5, 0.9, 1.1, 1.25])
            if rng.random() < 0.5:
                lo = min(x - w / 2 for (x, y, w, h) in bs)
                cfg[m] = [(x - lo - f, y, w, h) for (x, y, w, h) in bs]
            else:
                hi = max(y + h / 2 for (x, y, w, h) in bs)
                cfg[m] = [(x, y + (B.dh - hi) + f, w, h) for (x, y, w, h) in bs]
            what = "edge:%g" % f
        elif op in ("nudge", "shift", "far", "onto"):
            if op == "nudge":
                dx, dy = unit * rng.choice([-1, -0.5, 0, 0.5, 1]), unit * rng.choice([-1, -0.5, 0, 0.5, 1])
            elif op == "shift":
                dx, dy = unit * rng.randint(-4, 4), unit * rng.randint(-4, 4)
            elif op == "far":
                dx, dy = rng.choice([-1, 1]) * span * rng.uniform(0.3, 1.2), rng.choice([-1, 0, 1]) * span * rng.uniform(0.0, 1.2)
            else:
                k = rng.randrange(n)
                dx, dy = base[k][0][0] - bs[0][0] + unit * rng.choice([0, 0.5, 1]), base[k][0][1] - bs[0][1] + unit * rng.choice([0, 0.5])
            cfg[m] = [(x + dx, y + dy, w, h) for (x, y, w, h) in bs]
        else:
            i = rng.randrange(len(bs))
            x, y, w, h = bs[i]
            sd = sides[i]
            if op == "thin":  # exceed the aspect ratio (attachment kept for branches)
                f = B.r * rng.uniform(1.1, 1.6)
                if sd in "NS":
                    h2 = w / f
                    y = y + (h2 - h) / 2 * (1 if sd == "N" else -1)
                    h = h2
                elif sd in "EW":
                    w2 = h / f
                    x = x + (w2 - w) / 2 * (1 if sd == "E" else -1)
                    w = w2
                else:
                    g = (f / max(w / h, h / w)) ** 0.5
                    w, h = (w * g, h / g) if w >= h else (w / g, h * g)
            elif op == "shrink":  # lose area
                g = rng.uniform(0.3, 0.9)
                if sd in "NS":
                    h2 = h * g
                    y = y + (h2 - h) / 2 * (1 if sd == "N" else -1)
                    h = h2
                elif sd in "EW":
                    w2 = w * g
                    x = x + (w2 - w) / 2 * (1 if sd == "E" else -1)
                    w = w2
                else:
                    w, h = w * g, h * g
            elif op == "grow":  # thicker branch / larger trunk
                g = rng.uniform(1.05, 1.5)
                if sd in "NS":
                    h2 = h * g
                    y = y + (h2 - h) / 2 * (1 if sd == "N" else -1)
                    h = h2
                elif sd in "EW":
                    w2 = w * g
                    x = x + (w2 - w) / 2 * (1 if sd == "E" else -1)
                    w = w2
                else:
                    w, h = w * g, h * g
            elif op == "detach":
                gap = unit * rng.choice([-0.5, 0.25, 0.5, 1.0])
                if sd == "N":
                    y += gap
                elif sd == "S":
                    y -= gap
                elif sd == "E":
                    x += gap
                elif sd == "W":
                    x -= gap
                else:
                    x += gap
            elif op == "slide":
                amt = unit * rng.choice([-6, -3, -1, -0.5, 0.5, 1, 3, 6])
                if sd in "NS":
                    x += amt
                else:
                    y += amt
            elif op == "swap":
                same = [j for j, s_ in enumerate(sides) if s_ == sd and j != i and sd != "T"]
                if not same:
                    continue
                j = rng.choice(same)
                xj, yj, wj, hj = bs[j]
                if sd in "NS":
                    bs[j] = (x, yj, wj, hj)
                    x = xj
                else:
                    bs[j] = (xj, y, wj, hj)
                    y = yj
            elif op == "resize":
                g = rng.choice([0.5, 0.8, 1.25])
                if rng.random() < 0.5:
                    w *= g
                else:
                    h *= g
            elif op == "branchmove":
                x += unit * rng.choice([-1, 0, 1])
                y += unit * rng.choice([-1, 0, 1])
            bs[i] = (x, y, w, h)
            what = op + ":" + sd + ":" + ("soft" if not kind["hard"] else ("fixed" if kind["fixed"] else "hard"))
        if any(b[2] <= 0 or b[3] <= 0 for boxes in cfg for b in boxes):
            continue
        out.append((what, [[tuple(float(v) for v in b) for b in boxes] for boxes in cfg]))
    return out


# ----------------------------------------------------------------------------- one instance
def check_instance(ctx: Ctx, inp: dict, nvar: int, fixed_cfgs=None) -> None:
    yaml, dw, dh, r = inp["yaml"], inp["dw"], inp["dh"], inp["r"]
    size = len(yaml)
    try:
        B = Built(yaml, dw, dh, r)
    except Exception as ex:  # noqa: BLE001
        _cleanup()
        ctx.spec_fail("operation-raised", inp, {"operation": "Netlist / netlist_to_utils / Model(...)", "raises": type(ex).__name__,
                                                "msg": str(ex)[:200]}, size)
        return
    try:
        _check_built(ctx, inp, B, nvar, fixed_cfgs, size)
    finally:
        _cleanup()


def _check_built(ctx: Ctx, inp, B: Built, nvar, fixed_cfgs, size) -> None:
    P = "%s %s %s" % (f2hex(B.dw), f2hex(B.dh), f2hex(B.r))
    mods_w = wire_mods(B.inmods)
    orders = [model_order(m) for m in B.inmods]
    stog = all(o is not None for o in orders)
    nrect = sum(len(m["rects"]) for m in B.inmods)
    key = (inp["yaml"], inp["dw"], inp["dh"], inp["r"])
    ctx.case("struct", key, True, {"modules": len(B.inmods), "rects": nrect, "equations": len(B.eqs), "dw": B.dw, "dh": B.dh, "r": B.r})
    ctx.count("kind:" + "+".join(sorted({("fixed" if m["fixed"] else "hard") if m["hard"] else "soft" for m in B.inmods})))
    ctx.count("family:" + inp.get("fam", "?"))
    for g, k in B.other_groups.items():
        ctx.extra.setdefault("groups_outside_property", {})[g] = ctx.extra.get("groups_outside_property", {}).get(g, 0) + k
    ctx.extra["variable_bounds_lb_on_w_h"] = B.var_bounds()

    # configurations
    cfgs = []
    if fixed_cfgs is not None:
        cfgs = [("replay", [[tuple(hex2f(v) for v in b) for b in boxes] for boxes in c]) for c in fixed_cfgs]
    elif stog:
        base = input_cfg(B, orders)
        cfgs = [("input", base)] + variants(ctx.rng, B, orders, base, nvar)
        # second generation: variants of a legal variant
        legal2 = [c for (w_, c) in cfgs[1:] if all(v == "ok" for v in legal_status(B, orders, c).values())]
        if legal2:
            cfgs += variants(ctx.rng, B, orders, ctx.rng.choice(legal2), max(1, nvar // 3))
    else:
        ctx.count("roles:not-a-single-trunk-labelling")

    reqs = ["F utils " + mods_w, "F gen " + P + " " + mods_w]
    tol = f2hex(1e-6)
    raws = []
    obs = {}
    for (lab, raw) in SLACKS:
        try:
            rawv = B.set_slack(raw)
        except Exception as ex:  # noqa: BLE001
            ctx.spec_fail("operation-raised", inp, {"operation": "set_epsilon", "raises": type(ex).__name__}, size)
            return
        raws.append(rawv)
        for (_, c) in cfgs:
            reqs.append("F eval %s %s %s %s %s" % (P, f2hex(rawv), tol, mods_w, wire_cfg(c)))
        # implementation observations at this slack
        obs[lab] = []
        for (what, c) in cfgs:
            try:
                B.assign(c)
            except Exception as ex:  # noqa: BLE001
                ctx.spec_fail("operation-raised", dict(inp, what=what), {"operation": "ExpressionTree.assign", "raises": type(ex).__name__}, size)
                return
            obs[lab].append(B.observe())
    B.set_slack(0.0)
    replies = ctx.model(reqs)
    ctx.extra["slack_installed_by_Model"] = B.real_eps

    if replies is not None:
        iu = ser_utils(B.utils)
        if iu != replies[0]:
            ctx.disagree("utils", inp, iu[:600], replies[0][:600], size)
        impl_eqs = [ser_eq(g, e) for g, e in B.eqs]
        mrep = replies[1].split(" ; ")
        if mrep[0] != str(len(impl_eqs)) or mrep[1:] != impl_eqs:
            first = next((k for k, (a, b) in enumerate(zip(impl_eqs, mrep[1:])) if a != b), min(len(impl_eqs), len(mrep) - 1))
            ctx.disagree("struct", inp, {"count": len(impl_eqs), "first_diff": impl_eqs[first][:500] if first < len(impl_eqs) else None},
                         {"count": mrep[0], "first_diff": mrep[1 + first][:500] if 1 + first < len(mrep) else None}, size)
        for si, (lab, _) in enumerate(SLACKS):
            eff = 0.0 if raws[si] < 1e-6 else raws[si]
            for k, (what, c) in enumerate(cfgs):
                rep = replies[2 + si * len(cfgs) + k].split(" ; ")
                ob = obs[lab][k]
                inp_c = dict(inp, cfg=[[[f2hex(v) for v in b] for b in boxes] for boxes in c], what=what, slack=lab)
                ctx.case("eval", (key, lab, tuple(tuple(b) for boxes in c for b in boxes)), True, None)
                if rep[0] != str(len(ob)):
                    ctx.disagree("eval", inp_c, len(ob), rep[0][:100], size)
                    continue
                for j, (o, mline) in enumerate(zip(ob, rep[1:])):
                    mt = mline.split()
                    if len(o) == 1:
                        if "none" not in mt:
                            ctx.disagree("eval", inp_c, {"eq": B.eqs[j][1].name, "impl": o[0]}, mline, size)
                        continue
                    if "none" in mt:
                        ctx.disagree("eval", inp_c, {"eq": B.eqs[j][1].name, "impl": [f2hex(o[0]), f2hex(o[1]), o[2]]}, mline, size)
                        continue
                    ml_, mr_, mm_ = hex2f(mt[0]), hex2f(mt[1]), mt[2] == "1"
                    exact = f2hex(o[0]) == mt[0] and f2hex(o[1]) == mt[1]
                    sc_ = max(1.0, abs(o[0]), abs(o[1]))
                    if not exact:
                        if abs(o[0] - ml_) <= 1e-9 * sc_ and abs(o[1] - mr_) <= 1e-9 * sc_:
                            ctx.drift += 1
                        else:
                            ctx.disagree("eval", inp_c, {"eq": B.eqs[j][1].name, "impl": [f2hex(o[0]), f2hex(o[1])]}, mline, size)
                            continue
                    if o[2] != mm_:
                        # only meaningful away from the acceptance threshold slack + 1e-6
                        if exact or abs(abs(o[0] - o[1]) - (eff + 1e-6)) > 1e-9 * sc_:
                            ctx.disagree("met", inp_c, {"eq": B.eqs[j][1].name, "impl": o[2], "slack": lab}, mline, size)
                        else:
                            ctx.ties += 1

    # spec on the implementation
    if not stog:
        return
    groups = [g for g, _ in B.eqs]
    mu = Fraction(1, 10 ** 9)  # far above the rounding error of evaluate() (~1e-12), far below the probes (2.5e-7)
    for k, (what, c) in enumerate(cfgs):
        inp_c = dict(inp, cfg=[[[f2hex(v) for v in b] for b in boxes] for boxes in c], what=what)
        st = legal_status(B, orders, c)
        ev = eq_violations(B, orders, c)
        if any(b[2] < 0.1 or b[3] < 0.1 for boxes in c for b in boxes):
            ctx.count("cfg-with-a-side-below-variable-bound-0.1")
        for si, (lab, _) in enumerate(SLACKS):
            ob = obs[lab][k]
            eff = Fraction(0) if raws[si] < 1e-6 else Fraction(raws[si])
            inp_s = dict(inp_c, slack=lab)
            errs = [j for j, o in enumerate(ob) if len(o) == 1]
            if errs:
                ctx.spec_fail("evaluate-raises", inp_s, {"eq": B.eqs[errs[0]][1].name, "error": ob[errs[0]][0]}, size)
                continue
            unmet = {}
            for j, o in enumerate(ob):
                if not o[2]:
                    unmet.setdefault(groups[j], []).append(B.eqs[j][1].name)
            # (a) the relaxed clauses of the slack theorems, exactly, at delta = slack + 1e-6
            ms = met_status(B, ev, eff + Fraction(1, 10 ** 6), mu)
            mviol = {g for g, s_ in ms.items() if s_ == "viol"}
            munsure = {g for g, s_ in ms.items() if s_ == "unsure"}
            mlabel = "all-met" if not mviol and not munsure else ("unsure" if munsure and not mviol else "unmet:" + "+".join(sorted(mviol)))
            ctx.case("spec-slack", (key, lab, tuple(tuple(b) for boxes in c for b in boxes)), mlabel != "unsure", None)
            ctx.count("slack %s: %s" % (lab, "all-met" if mlabel == "all-met" else ("unsure" if mlabel == "unsure" else "some-unmet")))
            for g in GROUPS:
                if ms[g] == "ok" and g in unmet:
                    ctx.spec_fail("slack-complete." + g, inp_s, {"relaxed_clause_holds_but_unmet": unmet[g][:4], "status": ms, "what": what}, size)
                elif ms[g] == "viol" and g not in unmet:
                    ctx.spec_fail("slack-sound." + g, inp_s, {"relaxed_clause_violated_but_all_equations_met": g, "status": ms, "what": what}, size)
            if lab != "0":
                continue
            # (b) slack 0: the geometric legality clauses
            viol = {g for g, s_ in st.items() if s_ == "viol"}
            unsure = {g for g, s_ in st.items() if s_ == "unsure"}
            label = "legal" if not viol and not unsure else ("unsure" if unsure and not viol else "violates:" + "+".join(sorted(viol)))
            ctx.case("spec", (key, tuple(tuple(b) for boxes in c for b in boxes)), label != "unsure", None)
            ctx.count("cfg:" + label)
            if what == "input":
                ctx.count("input:" + label)
            for g in GROUPS:
                if st[g] == "ok" and g in unmet:
                    clause = "input_satisfies" if what == "input" and not viol and not unsure else "complete." + g
                    ctx.spec_fail(clause, inp_c, {"clause_holds_but_unmet": unmet[g][:4], "status": st, "what": what}, size)
                elif st[g] == "viol" and g not in unmet:
                    ctx.spec_fail("sound." + g, inp_c, {"clause_violated_but_all_equations_met": g, "status": st, "what": what}, size)


CORPUS_YAML = """
Modules: {
  A: { rectangles: [[5, 5, 6, 4], [7, 8, 2, 2], [9, 5, 2, 2]], hard: true },
  B: { rectangles: [[15.5, 5.0, 5.0, 4.0], [15.5, 8.5, 3.0, 3.0]], fixed: true },
  C: { area: 12, rectangles: [[3.0, 12.0, 4.0, 3.0]] },
  D: { rectangles: [[10, 14, 4, 2], [10, 16, 2, 2]], fixed: true }
}
Nets: [[A, B, C]]
"""


def run(ctx: Ctx) -> None:
    ctx.rule = ("legal floorplans built on an integer lattice (1–4 modules in disjoint cells of the die; trunk with 0–2 branches per "
                "side, branches possibly abutting and listed in either order; soft / hard / fixed; required area 100%/90%/75% of the "
                "drawn area; ratio limit at or above the largest aspect), written as YAML with int, quarter (dyadic) or decimal "
                "coordinates and read by the repository's Netlist (roles = the STOG locations it assigns). Configurations: the input, "
                "~14 variants (nudges, shifts, moves far away / onto another module, thinning, shrinking, growing, detaching, sliding, "
                "swapping branches, resizing, moving a branch) and variants of a legal variant. A configuration is classified by the "
                "Fraction oracle; 'unsure' ones (a clause between 1e-8 and 2% of the smallest side) are not judged. "
                "distinct = distinct (netlist, die, ratio[, configuration])")
    seeds = getattr(ctx, "seed_inputs", None) or []
    for inp in seeds[:20]:
        base = {k: inp[k] for k in ("yaml", "dw", "dh", "r", "fam") if k in inp}
        check_instance(ctx, base, 10)
    if ctx.budget <= 1.0:
        check_instance(ctx, {"yaml": CORPUS_YAML, "dw": 20.0, "dh": 20.0, "r": 3.0, "fam": "corpus"}, 30)
    for _ in range(ctx.n(60, 2000)):
        inst = gen_instance(ctx.rng)
        inp = {"yaml": yaml_of(inst), "dw": float(inst["dw_lat"] * inst["s"]), "dh": float(inst["dh_lat"] * inst["s"]),
               "r": inst["r"], "fam": inst["fam"]}
        check_instance(ctx, inp, 12)
    ctx.assumptions.append("rectangle sizes of a configuration are positive (GEKKO variable bounds lb = 0.1 on w, h; reported in "
                           "coverage.variable_bounds_lb_on_w_h, not part of the property)")
    ctx.assumptions.append("max_ratio >= 1; die and ratio are floats; at least one module")


def replay(ctx: Ctx, body: dict) -> None:
    inp = body["input"]
    base = {k: inp[k] for k in ("yaml", "dw", "dh", "r", "fam") if k in inp}
    check_instance(ctx, base, 14, fixed_cfgs=[inp["cfg"]] if "cfg" in inp else None)

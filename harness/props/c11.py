"""C11 — Die refinement keeps the tiling, reaches the count and bounds the aspect ratio.

Correspondence: `split_rectangles` (directly and through `Die.split_refinable_regions`), `Die.initial_grid`,
`Die.floorplanning_rectangles` vs the Lean model `FV/Model/SplitRects.lean` (ops `splitrects`, `diesplit`, `initgrid`
of `drv_stog`), including the ORDER of the returned regions (the model mirrors `deque` and `heapq` statement by
statement; op `heap` compares random `heapq` scripts with many equal keys).  'Q' stream: dyadic dies / regions / aspect
limits (float arithmetic exact, compared with the model at `Rat`); 'F' stream: decimal dies, model at `Float`, compared
as sorted multisets with tolerance.

Spec on the implementation (exact `Fraction` arithmetic on what the implementation returned), clauses named after the
theorems of `FV/Props/C11.lean`: count ≥ n; every region inside exactly one region it was cut from, with its tag, the
pieces of each former region pairwise disjoint and adding up to its area (tiling); aspect ratio ≤ r; blockages, fixed
regions and the die untouched (same objects, same values); grid count and tiling; the observers are pure (reading
`floorplanning_rectangles()` / the region lists 0, 1 or 2 times before the refinement and twice after it never changes the
die, and the tiling clauses refer to the snapshot taken before any call).

SESSIONS (ops `cgrid` / `session` of `drv_die`): the model is given only the DOCUMENTS (die source, netlist document) and a list of
method calls; it constructs the die itself (`FV/Model/DieNet.lean`: netlist reader, fixed rectangles, tolerance; the observed
ground-region order is the pick trace) and then performs the calls on the constructed object (`FV/Model/DieObj.lean`: `step`,
`run`; a raised exception leaves the object unchanged and the session continues).  Every intermediate object is compared; in the
exact stream the model runs `split_rectangles` with the fuel `fuelQ` that `FV.C11.splitQ_returns` proves sufficient.  Dies
without any refinable region are included (`IndexError`, as the code does: `FV.C11.dieSplit_no_refinable`).
"""
from __future__ import annotations

import heapq
from dataclasses import dataclass, field
from fractions import Fraction

from vcheck import Ctx, hex2f
import geo
from geo import sc, bb, rect_dict
from frame.geometry.geometry import Rectangle, split_rectangles
from frame.die.die import Die
from frame.netlist.netlist import Netlist
from props import c01 as c01h

LEVEL = "proof"
DRIVERS = ["drv_stog", "drv_die"]
TRUSTED = [
    "Lean 4.33 kernel; Mathlib lemmas; axioms ⊆ {propext, Classical.choice, Quot.sound}",
    "hand-written model FV/Model/SplitRects.lean (+ FV/Model/Geom.lean), including the transcription of CPython's heapq "
    "(_siftdown/_siftup/heapify/heappush/heappop) and of deque.pop/popleft/extend — fidelity checked by this "
    "correspondence run (exact output order on dyadic inputs), not proved",
    "the while loops are modelled with fuel; FV.C11.split_terminates proves a finite fuel suffices (given a bound 2^K·r on "
    "the aspect ratios of the inputs — automatic in Archimedean fields, FV.C11.exists_aspect_bound) and FV.C11.fuel_irrelevant "
    "that the result does not depend on it",
    "single-call streams: the die state is read from the implementation just before the refinement call; session stream: the "
    "die is constructed by the model from the die / netlist documents (C01 model; the observed ground-region order is the pick trace)",
    "at ℚ (exact stream of the sessions) the fuel is computed (`fuelQ`) and proved sufficient; at Float a fixed fuel of 4e6 is used",
    "theorems are over exact ordered fields; IEEE rounding is executed (F stream), never proved",
    "harness (Python) and compiled Lean driver: parsing, canonicalisation, comparison",
]

Q_RATIOS = [1.4375, 1.4375, 1.5, 1.5, 1.625, 1.75, 1.875, 2.0, 2.0, 2.5, 3.0, 4.0]
F_RATIOS = [1.42, 1.45, 1.5, 1.7, 1.9, 1.99, 2.0, 2.2, 3.0]


# ------------------------------------------------------------------ wire
def rin(d, mode) -> str:
    return f"{sc(d['cx'], mode)} {sc(d['cy'], mode)} {sc(d['w'], mode)} {sc(d['h'], mode)} {d['region']} {int(d['fixed'])} {int(d['hard'])}"


def rlist_in(ds, mode) -> str:
    return (str(len(ds)) + " " + " ".join(rin(d, mode) for d in ds)).rstrip()


def rlist_out(ds, mode) -> str:
    return str(len(ds)) + "".join(" | " + rin(d, mode) + " X" for d in ds)


def parse_rlist(s: str, mode: str):
    parts = s.split(" | ")
    return [geo.parse_rect_out(p.split(), mode) for p in parts[1:]]


def die_in(st, mode) -> str:
    return " ".join([rin(st["die"], mode)] + [rlist_in(st[k], mode) for k in ("specialized", "ground", "blockages", "fixed")])


def die_out(st, mode) -> str:
    return " || ".join(rlist_out(st[k], mode) for k in ("specialized", "ground", "blockages", "fixed"))


def die_state(d: Die):
    return {"die": rect_dict(d.bounding_box), "specialized": [rect_dict(r) for r in d.specialized_regions],
            "ground": [rect_dict(r) for r in d.ground_regions], "blockages": [rect_dict(r) for r in d.blockages],
            "fixed": [rect_dict(r) for r in d.fixed_regions]}


# ------------------------------------------------------------------ exact specification
def aspect(d) -> Fraction:
    w, h = Fraction(d["w"]), Fraction(d["h"])
    return max(w / h, h / w)


def inside(p, a, t) -> bool:
    return p[0] >= a[0] - t and p[1] >= a[1] - t and p[2] <= a[2] + t and p[3] <= a[3] + t


def spec_split(ctx: Ctx, inp, mode, ins, outs, ratio, n, clause_prefix="") -> None:
    """`ins` / `outs`: rect dicts before / after."""
    size = len(ins) + n
    r = Fraction(ratio)
    exact = mode == "Q"
    ib = [bb(d) for d in ins]
    ob = [bb(d) for d in outs]
    scale = max([Fraction(1)] + [abs(v) for b in ib for v in b])
    t = Fraction(0) if exact else scale / 10 ** 9
    ta = t * scale * 4
    # split_count
    if len(outs) < n:
        ctx.spec_fail(clause_prefix + "split_count", inp, {"returned": len(outs), "n": n}, size)
    # split_aspect
    for d in outs:
        a = aspect(d)
        if a > r * (1 if exact else 1 + Fraction(1, 10 ** 9)):
            ctx.spec_fail(clause_prefix + "split_aspect", inp, {"piece": d, "aspect": float(a), "r": ratio}, size)
            break
    # split_tiles: ancestor of every piece
    disjoint_in = all(geo.exact_overlap(ins[i], ins[j]) <= ta for i in range(len(ins)) for j in range(i + 1, len(ins)))
    groups = [[] for _ in ins]
    for k, (d, b) in enumerate(zip(outs, ob)):
        if not (b[2] - b[0] > 0 and b[3] - b[1] > 0):
            ctx.spec_fail(clause_prefix + "split_tiles:piece-positive", inp, {"piece": d}, size)
            return
        cands = [i for i, (s, a) in enumerate(zip(ins, ib)) if inside(b, a, t) and
                 (s["region"], s["fixed"], s["hard"]) == (d["region"], d["fixed"], d["hard"])]
        if not cands:
            ctx.spec_fail(clause_prefix + "split_tiles:inside-ancestor-same-tag", inp, {"piece": d}, size)
            return
        if len(cands) > 1:
            if disjoint_in:
                ctx.spec_fail(clause_prefix + "split_tiles:inside-ancestor-same-tag", inp, {"piece": d, "ancestors": cands}, size)
                return
            ctx.count("spec:overlapping-inputs-flat-check")
            tot_i = sum((a[2] - a[0]) * (a[3] - a[1]) for a in ib)
            tot_o = sum((b[2] - b[0]) * (b[3] - b[1]) for b in ob)
            if abs(tot_i - tot_o) > ta * max(1, len(outs)):
                ctx.spec_fail(clause_prefix + "split_tiles:area-sum", inp, {"in": float(tot_i), "out": float(tot_o)}, size)
            return
        groups[cands[0]].append(k)
    for i, g in enumerate(groups):
        a = ib[i]
        tot = sum((ob[k][2] - ob[k][0]) * (ob[k][3] - ob[k][1]) for k in g)
        if abs(tot - (a[2] - a[0]) * (a[3] - a[1])) > ta * max(1, len(g)):
            ctx.spec_fail(clause_prefix + "split_tiles:area-sum", inp, {"ancestor": ins[i], "pieces": len(g), "sum": float(tot)}, size)
            return
        for x in range(len(g)):
            bx = ob[g[x]]
            for y in range(x + 1, len(g)):
                by = ob[g[y]]
                dx = min(bx[2], by[2]) - max(bx[0], by[0])
                dy = min(bx[3], by[3]) - max(bx[1], by[1])
                if dx > t and dy > t and dx * dy > ta:
                    ctx.spec_fail(clause_prefix + "split_tiles:disjoint", inp, {"p": outs[g[x]], "q": outs[g[y]]}, size)
                    return


def same_objects(ctx, inp, clause, before_objs, before_vals, after_objs, size) -> None:
    if [id(o) for o in before_objs] != [id(o) for o in after_objs]:
        ctx.spec_fail(clause + ":same-objects", inp, {"before": len(before_objs), "after": len(after_objs)}, size)
        return
    for o, v in zip(after_objs, before_vals):
        if rect_dict(o) != v:
            ctx.spec_fail(clause + ":unaltered", inp, {"before": v, "after": rect_dict(o)}, size)
            return


# ------------------------------------------------------------------ comparing
def close_lists(impl: str, model: str, mode: str, ordered: bool = False) -> bool:
    """same multiset of rectangles up to 1e-9 (F stream: order may depend on rounding of equal areas)."""
    if impl.startswith("err") or model.startswith("err") or model == "bad-op":
        return impl == model
    pi, pm = impl.split(" || "), model.split(" || ")
    if len(pi) != len(pm):
        return False
    for a, b in zip(pi, pm):
        la, lb = parse_rlist(a, mode), parse_rlist(b, mode)
        if len(la) != len(lb):
            return False
        key = lambda d: (d["region"], round(float(d["cx"]), 6), round(float(d["cy"]), 6))
        if not ordered:
            la, lb = sorted(la, key=key), sorted(lb, key=key)
        for x, y in zip(la, lb):
            if (x["region"], x["fixed"], x["hard"]) != (y["region"], y["fixed"], y["hard"]):
                return False
            if any(abs(float(x[f]) - float(y[f])) > 1e-9 * max(1.0, abs(float(x[f]))) for f in ("cx", "cy", "w", "h")):
                return False
    return True


def _is_tie(ctx: Ctx, req: str, model: str) -> bool:
    """F stream: is the model's own answer unstable under ±4 ulp nudges of every scalar of the request?"""
    import random
    from vcheck import ulp_nudge, f2hex
    rnd = random.Random(req)
    variants = []
    for _ in range(6):
        toks = req.split(" ")
        for i, t in enumerate(toks):
            if i >= 2 and len(t) == 16 and all(c in "0123456789abcdef" for c in t):
                x = hex2f(t)
                if x != 0.0:
                    toks[i] = f2hex(ulp_nudge(x, rnd.choice([-4, -2, -1, 1, 2, 4])))
        variants.append(" ".join(toks))
    out = ctx.model(variants)
    return out is None or any(not close_lists(o, model, "F") for o in out)


def compare(ctx: Ctx, todo, replies, reqs) -> None:
    for (op, inp, impl), model, req in zip(todo, replies, reqs):
        if impl == model:
            continue
        if op == "initgrid" and close_lists(impl, model, inp["mode"], ordered=True):
            ctx.drift += 1          # w / ncols is inexact even on dyadic dies
            continue
        if inp.get("mode") == "F" and op != "heap" and close_lists(impl, model, "F"):
            ctx.drift += 1
            continue
        if inp.get("mode") == "F" and op in ("splitrects", "diesplit") and _is_tie(ctx, req, model):
            ctx.ties += 1       # which of several (nearly) equal rectangles is split depends on rounding: not binding
            continue
        ctx.disagree(op, inp, impl[:2000], model[:2000], size=inp.get("size", 0))


# ------------------------------------------------------------------ heapq scripts
@dataclass(order=True)
class Item:
    key: int
    ident: int = field(compare=False)


def heap_case(ctx: Ctx, script, reqs, todo) -> None:
    h: list[Item] = []
    out = []
    for s in script:
        if s[0] == "U":
            heapq.heappush(h, Item(s[1], s[2]))
        elif s[0] == "A":
            h.append(Item(s[1], s[2]))
        elif s[0] == "H":
            heapq.heapify(h)
        else:
            try:
                out.append(str(heapq.heappop(h).ident))
            except IndexError:
                out.append("E")
    impl = " ".join(out) + " | " + " ".join(str(x.ident) for x in h)
    reqs.append("Q heap " + " ".join(" ".join(str(v) for v in s) for s in script))
    inp = {"op": "heap", "script": script, "size": len(script)}
    todo.append(("heap", inp, impl))
    ctx.case("heap", script, True)


def gen_heap_script(rng):
    script, ident = [], 0
    for _ in range(rng.randint(0, 12)):
        script.append(["A", rng.randint(-3, 3), ident]); ident += 1
    script.append(["H"])
    for _ in range(rng.randint(1, 30)):
        c = rng.random()
        if c < 0.55:
            script.append(["U", rng.randint(-4, 4), ident]); ident += 1
        else:
            script.append(["O"])
    return script


# ------------------------------------------------------------------ split_rectangles directly
def split_case(ctx: Ctx, mode, ins, ratio, n, reqs, todo) -> None:
    inp = {"op": "splitrects", "mode": mode, "rects": ins, "ratio": ratio, "n": n, "size": len(ins) + n}
    objs = [geo.mk_rect(d["cx"], d["cy"], d["w"], d["h"], d["region"], d["fixed"], d["hard"]) for d in ins]
    lst = list(objs)
    try:
        res = split_rectangles(lst, ratio, n)
        outs = [rect_dict(r) for r in res]
        impl = rlist_out(outs, mode)
    except AssertionError:
        impl, outs = "err:Assert", None
    except IndexError:
        impl, outs = "err:IndexError", None
    except Exception as ex:
        impl, outs = "err:" + type(ex).__name__, None
    admissible = n >= 1 and ratio > 1.415 and len(ins) >= 1
    if outs is None:
        if admissible or impl not in ("err:Assert", "err:IndexError"):
            ctx.spec_fail("operation-raised", inp, {"raised": impl}, inp["size"])
    else:
        if admissible:
            spec_split(ctx, inp, mode, ins, outs, ratio, n)
        # the argument list and its rectangles are left alone
        same_objects(ctx, inp, "split_rectangles:arguments", objs, ins, lst, inp["size"])
    reqs.append(f"{mode} splitrects {sc(ratio, mode)} {n} {rlist_in(ins, mode)}")
    todo.append(("splitrects", inp, impl))
    ctx.case(mode, ("split", ratio, n, [tuple(sorted(d.items())) for d in ins]), admissible,
             sample={"op": "splitrects", "mode": mode, "ratio": ratio, "n": n, "rects": ins[:4], "returned": None if outs is None else len(outs)})
    ctx.count("op:splitrects")
    ctx.count("ratio<2" if ratio < 2 else "ratio>=2")
    ctx.count("result:" + ("err" if outs is None else "ok"))


def gen_rect_list(rng, mode):
    """pairwise disjoint rectangles (cells of a random guillotine-free lattice), mixed tags; sometimes a repeat."""
    u = 0.25 if mode == "Q" else 0.1
    k = rng.choice([1, 1, 1, 2, 2, 3, 4, 6])
    out, x = [], 0.0
    for _ in range(k):
        w = rng.choice([1, 1, 2, 3, 4, 5, 8, 16, 37]) * u * rng.choice([1, 1, 2, 4])
        h = rng.choice([1, 1, 2, 3, 4, 5, 8, 16, 37]) * u * rng.choice([1, 1, 2, 4])
        y = rng.randint(0, 8) * u
        reg = rng.choice(["_", "_", "_", "dsp", "bram"])
        out.append({"cx": x + w / 2, "cy": y + h / 2, "w": w, "h": h, "region": reg, "fixed": False, "hard": False, "loc": "X"})
        x += w + rng.choice([0, 0, 1, 2]) * u
    if rng.random() < 0.08:
        out.append(dict(rng.choice(out)))
    if rng.random() < 0.03:
        out = []
    return out


# ------------------------------------------------------------------ through the Die
def gen_die_yaml(rng, mode):
    u = 0.25 if mode == "Q" else 0.1
    nx, ny = rng.randint(1, 4), rng.randint(1, 4)
    xs = [0.0]
    for _ in range(nx):
        xs.append(xs[-1] + rng.choice([1, 2, 3, 4, 6, 8, 12]) * u * rng.choice([1, 2, 4]))
    ys = [0.0]
    for _ in range(ny):
        ys.append(ys[-1] + rng.choice([1, 2, 3, 4, 6, 8, 12]) * u * rng.choice([1, 2, 4]))
    regions, fixed = [], []
    empty = rng.random() < 0.25
    for i in range(nx):
        for j in range(ny):
            c = rng.random()
            if empty or c < 0.55:
                continue
            cx, cy, w, h = (xs[i] + xs[i + 1]) / 2, (ys[j] + ys[j + 1]) / 2, xs[i + 1] - xs[i], ys[j + 1] - ys[j]
            if c < 0.7:
                regions.append([cx, cy, w, h, "#"])
            elif c < 0.9:
                regions.append([cx, cy, w, h, rng.choice(["dsp", "bram"])])
            else:
                fixed.append([cx, cy, w, h])
    y = f"width: {xs[-1]!r}\nheight: {ys[-1]!r}\n"
    if regions:
        y += "regions: [" + ", ".join(f"[{r[0]!r}, {r[1]!r}, {r[2]!r}, {r[3]!r}, '{r[4]}']" for r in regions) + "]\n"
    net = None
    if fixed:
        net = "Modules:\n" + "".join(
            f"  F{k}:\n    fixed: true\n    rectangles: [[{r[0]!r}, {r[1]!r}, {r[2]!r}, {r[3]!r}]]\n" for k, r in enumerate(fixed)) + "Nets: []\n"
    return y, net


def make_die(dy, ny):
    Rectangle.undefine_epsilon()
    net = Netlist(ny) if ny else None
    return Die(dy, net)


def observe(ctx: Ctx, inp, d: Die, times: int, where: str, size: int):
    """Read the die through its public observers `times` times.  Purity clause: an observation must not change the die
    (deep snapshot of every region list before / after), `floorplanning_rectangles()` is specialised + ground regions and
    the fixed regions, and a second call gives an equal answer.  Returns the last answer (None if nothing was read)."""
    last = None
    for k in range(times):
        before = die_state(d)
        try:
            refinable, fixed = d.floorplanning_rectangles()
            got = {"refinable": [rect_dict(r) for r in refinable], "fixed": [rect_dict(r) for r in fixed]}
            _ = (len(d.ground_regions), len(d.specialized_regions), len(d.blockages), len(d.fixed_regions), d.bounding_box)
        except Exception as ex:
            ctx.spec_fail("operation-raised", inp, {"raised": type(ex).__name__, "where": "observers " + where}, size)
            return last
        after = die_state(d)
        if after != before:
            ctx.spec_fail("observers_pure:die-unchanged", inp,
                          {"where": where, "call": k + 1,
                           "before": {key: len(v) for key, v in before.items() if key != "die"},
                           "after": {key: len(v) for key, v in after.items() if key != "die"}}, size)
            return got
        if got["refinable"] != before["specialized"] + before["ground"] or got["fixed"] != before["fixed"]:
            ctx.spec_fail("floorplanningRectangles:specialized+ground", inp,
                          {"where": where, "returned": len(got["refinable"]),
                           "specialized": len(before["specialized"]), "ground": len(before["ground"])}, size)
            return got
        if last is not None and got != last:
            ctx.spec_fail("observers_pure:same-answer-twice", inp, {"where": where}, size)
            return got
        last = got
    return last


def die_case(ctx: Ctx, mode, dy, ny, ratio, n, reqs, todo, obs: int = 0) -> None:
    inp = {"op": "diesplit", "mode": mode, "die": dy, "netlist": ny, "ratio": ratio, "n": n, "size": n, "obs_before": obs}
    try:
        d = make_die(dy, ny)
    except Exception as ex:   # construction of the die belongs to C01: not judged here
        ctx.count("die:rejected-by-constructor:" + type(ex).__name__)
        Rectangle.undefine_epsilon()
        return
    try:
        st0 = die_state(d)
        inp["size"] = n + len(st0["specialized"]) + len(st0["ground"])
        blk, fx, box = list(d.blockages), list(d.fixed_regions), d.bounding_box
        ins = st0["specialized"] + st0["ground"]      # the snapshot taken before any call: what the tiling refers to
        observe(ctx, inp, d, obs, "before split_refinable_regions", inp["size"])
        try:
            d.split_refinable_regions(ratio, n)
            st1 = die_state(d)
            impl = die_out(st1, mode)
        except AssertionError:
            impl, st1 = "err:Assert", None
        except IndexError:
            impl, st1 = "err:IndexError", None
        except Exception as ex:
            impl, st1 = "err:" + type(ex).__name__, None
        admissible = n >= 1 and ratio > 1.415 and len(ins) >= 1
        if st1 is None:
            if admissible or impl not in ("err:Assert", "err:IndexError"):
                ctx.spec_fail("operation-raised", inp, {"raised": impl}, inp["size"])
        else:
            seen = observe(ctx, inp, d, 2, "after split_refinable_regions", inp["size"])
            outs = seen["refinable"] if seen else st1["specialized"] + st1["ground"]
            fixed_after = d.floorplanning_rectangles()[1]
            if die_state(d) != st1:
                ctx.spec_fail("observers_pure:die-unchanged", inp, {"where": "after split_refinable_regions"}, inp["size"])
            if outs != st1["specialized"] + st1["ground"] or any(r["region"] == "_" for r in st1["specialized"]) \
                    or any(r["region"] != "_" for r in st1["ground"]):
                ctx.spec_fail("dieSplit_partition", inp, {"specialized": len(st1["specialized"]), "ground": len(st1["ground"])}, inp["size"])
            if admissible:
                spec_split(ctx, inp, mode, ins, outs, ratio, n)
            same_objects(ctx, inp, "dieSplit_untouched:blockages", blk, st0["blockages"], d.blockages, inp["size"])
            same_objects(ctx, inp, "dieSplit_untouched:fixed", fx, st0["fixed"], d.fixed_regions, inp["size"])
            same_objects(ctx, inp, "dieSplit_untouched:fixed", fx, st0["fixed"], fixed_after, inp["size"])
            same_objects(ctx, inp, "dieSplit_untouched:die", [box], [st0["die"]], [d.bounding_box], inp["size"])
    finally:
        Rectangle.undefine_epsilon()
    reqs.append(f"{mode} diesplit {sc(ratio, mode)} {n} {die_in(st0, mode)}")
    todo.append(("diesplit", inp, impl))
    ctx.case(mode, ("die", dy, ny, ratio, n, obs), admissible,
             sample={"op": "diesplit", "mode": mode, "die": dy, "ratio": ratio, "n": n, "impl": impl[:120]})
    ctx.count("op:diesplit")
    ctx.count("history:observed-%d-times-before" % obs)
    ctx.count("ratio<2" if ratio < 2 else "ratio>=2")
    ctx.count("die:blockages" if st0["blockages"] else "die:no-blockage")
    ctx.count("die:fixed" if st0["fixed"] else "die:no-fixed")


def grid_case(ctx: Ctx, mode, dy, ny, nr, nc, reqs, todo, obs: int = 0) -> None:
    inp = {"op": "initgrid", "mode": mode, "die": dy, "netlist": ny, "nrows": nr, "ncols": nc, "size": nr * nc, "obs_before": obs}
    try:
        d = make_die(dy, ny)
    except Exception:
        Rectangle.undefine_epsilon()
        return
    try:
        st0 = die_state(d)
        blk, fx = list(d.blockages), list(d.fixed_regions)
        observe(ctx, inp, d, obs, "before initial_grid", inp["size"])
        try:
            d.initial_grid(nr, nc)
            st1 = die_state(d)
            impl = die_out(st1, mode)
        except AssertionError:
            impl, st1 = "err:Assert", None
        except Exception as ex:
            impl, st1 = "err:" + type(ex).__name__, None
        clean = not st0["specialized"] and not st0["blockages"] and not st0["fixed"] and len(st0["ground"]) == 1
        ok_args = nr > 0 and nc > 0 and nr + nc > 1
        if st1 is None:
            if (clean and ok_args) or impl != "err:Assert":
                ctx.spec_fail("operation-raised", inp, {"raised": impl, "where": "initial_grid"}, inp["size"])
        else:
            seen = observe(ctx, inp, d, 2, "after initial_grid", inp["size"])
            outs = seen["refinable"] if seen else st1["specialized"] + st1["ground"]
            if len(outs) != nr * nc:
                ctx.spec_fail("initialGrid_count", inp, {"returned": len(outs)}, inp["size"])
            elif not clean or not ok_args:
                ctx.spec_fail("initialGrid_requires-clean-die", inp, {"clean": clean}, inp["size"])
            else:
                # w / ncols is inexact even on dyadic input: tolerance mode for the tiling
                spec_split(ctx, inp, "F", st0["ground"], outs, 10 ** 9, nr * nc, clause_prefix="initialGrid_tiles:")
                ws = {(d_["w"], d_["h"]) for d_ in outs}
                if len(ws) != 1:
                    ctx.spec_fail("initialGrid_tiles:equal-cells", inp, {"shapes": len(ws)}, inp["size"])
            same_objects(ctx, inp, "initialGrid_untouched", blk + fx, st0["blockages"] + st0["fixed"], d.blockages + d.fixed_regions, inp["size"])
    finally:
        Rectangle.undefine_epsilon()
    reqs.append(f"{mode} initgrid {nr} {nc} {die_in(st0, mode)}")
    todo.append(("initgrid", inp, impl))
    ctx.case(mode, ("grid", dy, ny, nr, nc, obs), True)
    ctx.count("history:observed-%d-times-before" % obs)
    ctx.count("op:initgrid")


# ------------------------------------------------------------------ sessions on a die constructed from its documents
def gen_calls(rng, mode, nmax=24):
    calls = []
    for _ in range(rng.choice([1, 2, 2, 3])):
        if rng.random() < 0.7:
            ratio = rng.choice(Q_RATIOS if mode == "Q" else F_RATIOS)
            n = rng.choice([1, 2, 3, 4, 5, 7, 8, 13, nmax, rng.randint(1, nmax)])
            if rng.random() < 0.05:
                ratio, n = rng.choice([(1.25, n), (ratio, 0)])
            calls.append(["s", ratio, n])
        else:
            # exact stream: powers of two only (w / 3 is not a dyadic number: the float run and the exact model then order
            # equal areas differently)
            dims = [0, 1, 1, 2, 2, 4] if mode == "Q" else [0, 1, 1, 2, 2, 3]
            calls.append(["g", rng.choice(dims), rng.choice(dims[1:])])
    return calls


BLOCKED_DIES = [
    ("width: 4.0\nheight: 2.0\nregions: [2.0, 1.0, 4.0, 2.0, '#']\n", None),
    ("width: 4.0\nheight: 2.0\nregions: [[1.0, 1.0, 2.0, 2.0, '#'], [3.0, 1.0, 2.0, 2.0, '#']]\n", None),
    ("width: 4.0\nheight: 2.0\nregions: [[1.0, 1.0, 2.0, 2.0, '#']]\n",
     "Modules: {F0: {fixed: true, rectangles: [[3.0, 1.0, 2.0, 2.0]]}}\nNets: []\n"),
    ("4.0x2.0", "Modules: {F0: {fixed: true, rectangles: [[1.0, 1.0, 2.0, 2.0], [3.0, 1.0, 2.0, 2.0]]}, S: {area: 3}}\nNets: [[F0, S]]\n"),
]


def session_run(ctx: Ctx, mode, dy, ny, calls, kind="str"):
    """construct the die (implementation), perform the calls, judge every call exactly; returns what is needed for the model."""
    case = {"mode": mode, "doc": dy, "netlist": ny, "pre": None, "family": "session", "shape": "session", "kind": "valid",
            "size": 0, "exact": None, "as": kind}
    try:
        run = c01h.Run(case)
    except (c01h.Unserialisable, c01h.InfiniteTolerance):
        return None
    if run.die is None:
        ctx.count("die:rejected-by-constructor:" + str(run.impl))
        return None
    d = run.die
    inp = {"op": "session", "mode": mode, "die": dy, "netlist": ny, "calls": calls, "as": kind, "size": len(calls)}
    c01h.set_state(list(run.st1) if run.st1 else None)
    results = []
    try:
        st0 = die_state(d)
        run.head_line0, run.ground0 = run.impl_line(), list(d.ground_regions)     # the object as constructed
        size = inp["size"] = len(calls) + len(st0["specialized"]) + len(st0["ground"])
        blk, fx, box = list(d.blockages), list(d.fixed_regions), d.bounding_box
        orig = st0["specialized"] + st0["ground"]
        any_grid = False
        for k, call in enumerate(calls):
            pre = die_state(d)
            ins = pre["specialized"] + pre["ground"]
            where = f"call {k + 1} of the session"
            try:
                if call[0] == "s":
                    d.split_refinable_regions(call[1], call[2])
                else:
                    d.initial_grid(call[1], call[2])
                post = die_state(d)
                res = "ok " + die_out(post, mode)
            except AssertionError:
                res, post = "err:Assert", None
            except IndexError:
                res, post = "err:IndexError", None
            except Exception as ex:
                res, post = "err:" + type(ex).__name__, None
            results.append(res)
            if post is None:
                if die_state(d) != pre:
                    ctx.spec_fail("session:exception-leaves-die-unchanged", inp, {"where": where, "raised": res}, size)
                if call[0] == "s":
                    admissible = call[2] >= 1 and call[1] > 1.415
                    # IndexError is what the code does on a die without refinable region — and only there
                    expected = "err:IndexError" if (admissible and not ins) else "err:Assert" if not admissible else None
                else:
                    clean = not pre["specialized"] and not pre["blockages"] and not pre["fixed"] and len(pre["ground"]) == 1
                    ok_args = call[1] > 0 and call[2] > 0 and call[1] + call[2] > 1
                    expected = None if (clean and ok_args) else "err:Assert"
                if res != expected:
                    ctx.spec_fail("operation-raised", inp, {"raised": res, "where": where}, size)
                continue
            outs = post["specialized"] + post["ground"]
            if any(r["region"] == "_" for r in post["specialized"]) or any(r["region"] != "_" for r in post["ground"]):
                ctx.spec_fail("dieSplit_partition", inp, {"where": where}, size)
            if call[0] == "s":
                if not (call[2] >= 1 and call[1] > 1.415 and ins):
                    ctx.spec_fail("session:inadmissible-call-returned", inp, {"where": where}, size)
                else:
                    spec_split(ctx, inp, mode if not any_grid else "F", ins, outs, call[1], call[2], clause_prefix="session:")
            else:
                any_grid = True
                clean = not pre["specialized"] and not pre["blockages"] and not pre["fixed"] and len(pre["ground"]) == 1
                if not clean or not (call[1] > 0 and call[2] > 0 and call[1] + call[2] > 1):
                    ctx.spec_fail("initialGrid_requires-clean-die", inp, {"where": where}, size)
                elif len(outs) != call[1] * call[2]:
                    ctx.spec_fail("initialGrid_count", inp, {"returned": len(outs), "where": where}, size)
                else:
                    spec_split(ctx, inp, "F", ins, outs, 10 ** 9, call[1] * call[2], clause_prefix="session:initialGrid_tiles:")
        # session-level clauses (FV.C11.session_invariant): untouched, pieces of the ORIGINAL regions, same refinable area
        same_objects(ctx, inp, "session_untouched:blockages", blk, st0["blockages"], d.blockages, size)
        same_objects(ctx, inp, "session_untouched:fixed", fx, st0["fixed"], d.fixed_regions, size)
        same_objects(ctx, inp, "session_untouched:fixed", fx, st0["fixed"], d.floorplanning_rectangles()[1], size)
        same_objects(ctx, inp, "session_untouched:die", [box], [st0["die"]], [d.bounding_box], size)
        final = die_state(d)
        fin = final["specialized"] + final["ground"]
        if orig and fin:
            spec_split(ctx, inp, mode if not any_grid else "F", orig, fin, 10 ** 9, 1, clause_prefix="session_invariant:")
        elif bool(orig) != bool(fin):
            ctx.spec_fail("session_invariant:refinable-area", inp, {"before": len(orig), "after": len(fin)}, size)
    finally:
        Rectangle.undefine_epsilon()
    ctx.case(mode, ("session", dy, ny, str(calls), kind), True,
             sample={"op": "session", "mode": mode, "die": dy, "netlist": ny, "calls": calls, "results": [r[:40] for r in results]})
    ctx.count("op:session")
    ctx.count("session:calls=%d" % len(calls))
    for r in results:
        ctx.count("session:result:" + (r if r.startswith("err") else "ok"))
    if not orig:
        ctx.count("session:die-without-refinable-region")
    if st0["fixed"]:
        ctx.count("session:die-with-netlist-fixed-regions")
    return run, inp, results


def sessions(ctx: Ctx, items) -> None:
    """items: (mode, die text, netlist text, calls, kind)."""
    done = []
    for (mode, dy, ny, calls, kind) in items:
        r = session_run(ctx, mode, dy, ny, calls, kind)
        if r is not None:
            done.append(r)
    if not done:
        return
    grids = ctx.model([f"{inp['mode']} cgrid {run.head2}" for run, inp, _ in done], exe="drv_die")
    if grids is None:
        ctx.notes.append("model driver drv_die unavailable: sessions not compared")
        return
    reqs = []
    for (run, inp, _), g in zip(done, grids):
        mode = inp["mode"]
        p = c01h.picks_from(run, g, run.ground0)
        call_toks = " ".join(f"s {sc(c[1], mode)} {c[2]}" if c[0] == "s" else f"g {c[1]} {c[2]}" for c in inp["calls"])
        reqs.append(f"{mode} session {run.head2} " + ("-" if p is None else "P " + p) + f" {len(inp['calls'])} " + call_toks)
    replies = ctx.model(reqs, exe="drv_die")
    for (run, inp, results), rep, req in zip(done, replies, reqs):
        mode = inp["mode"]
        parts = rep.split(" ;; ")
        head, steps = parts[0], parts[1:]
        impl_head = run.head_line0
        ok, exact = c01h.close_lines(impl_head, " ; ".join(head.split(" ; ")[:5]), mode, 0.0 if mode == "Q" else 1e-9)
        if not ok:
            ctx.disagree("session:constructor", inp, impl_head[:1500], head[:1500], size=inp["size"])
            continue
        if len(steps) != len(results):
            ctx.disagree("session", inp, results, steps, size=inp["size"])
            continue
        for k, (a, b) in enumerate(zip(results, steps)):
            if a == b:
                continue
            if mode == "Q" and any(x[0] == "g" and any(v & (v - 1) for v in x[1:] if v > 0) for x in inp["calls"][:k]):
                ctx.count("session:not-compared-after-inexact-grid")
                break
            ia, ib = (a[3:] if a.startswith("ok ") else a), (b[3:] if b.startswith("ok ") else b)
            if a.startswith("ok ") == b.startswith("ok ") and a.startswith("ok "):
                c = inp["calls"][k]
                if c[0] == "g" and close_lists(ia, ib, mode, ordered=True):
                    ctx.drift += 1          # w / ncols is inexact even on dyadic dies
                    continue
                if (mode == "F" or any(x[0] == "g" for x in inp["calls"][:k])) and close_lists(ia, ib, "F" if mode == "F" else mode):
                    ctx.drift += 1
                    break                   # same regions, rounding-dependent order: later calls are not compared
            ctx.disagree("session", dict(inp, call=k + 1), a[:1500], b[:1500], size=inp["size"])
            break



# ------------------------------------------------------------------ driver
def pick(rng, mode, nmax):
    ratio = rng.choice(Q_RATIOS if mode == "Q" else F_RATIOS)
    n = rng.choice([1, 2, 2, 3, 4, 5, 7, 8, 13, 16, 23, 32, 50, nmax, rng.randint(1, nmax)])
    return ratio, n


def _n(ctx: Ctx, quick: int, thorough: int) -> int:
    """case count; the ×20 extended-search multiplier is capped at ×5 (the base counts already fill the budget)."""
    base = quick if ctx.tier == "quick" else thorough
    return min(ctx.n(quick, thorough), 5 * base)


def run(ctx: Ctx) -> None:
    ctx.rule = ("split_rectangles on lists of 0..7 pairwise disjoint rectangles (sides 1..37 quarter units × {1,2,4}, mixed tags, "
                "occasionally a repeated rectangle or the empty list), r from 12 dyadic values in [1.4375, 4] (Q) or 9 decimal values "
                "in [1.42, 3] (F), n in 1..64 (1..300 thorough), plus inadmissible arguments (n = 0, r ≤ 1.415); dies built from YAML on a "
                "random 1..4 × 1..4 lattice with blockages, tagged regions and fixed modules of a netlist (25% empty dies), refined through "
                "Die.split_refinable_regions, observed through floorplanning_rectangles / blockages / fixed_regions, with a HISTORY: the observers are read 0, 1 or 2 times before the refinement and twice after it (purity clause: an observation never changes the die, two reads agree; the tiling refers to the snapshot taken before any call); Die.initial_grid "
                "with 0..6 rows / columns on clean and non-clean dies; random heapq scripts with keys in -4..4.  Non-trivial = admissible "
                "arguments (n ≥ 1, r > 1.415, at least one refinable region)")
    ctx.assumptions.append("a die without refinable region makes split_refinable_regions raise IndexError (heappop on the empty heap): modelled, "
                           "proved (FV.C11.dieSplit_no_refinable) and exercised by the session stream; the tiling / count / aspect clauses are "
                           "about dies with at least one refinable region")
    rng = ctx.rng
    reqs, todo = [], []
    nmax = 64 if ctx.tier == "quick" else 300
    for inp in (getattr(ctx, "seed_inputs", None) or [])[:50]:
        _replay_one(ctx, inp, reqs, todo)
    # the registered witness of the aspect defect, and small neighbours
    for (w, h, ratio, n) in [(4.0, 4.0, 1.5, 2), (4.0, 4.0, 1.5, 3), (2.0, 3.0, 1.5, 2), (4.0, 5.0, 1.4375, 4), (1.0, 1.0, 1.875, 9)]:
        split_case(ctx, "Q", [{"cx": w / 2, "cy": h / 2, "w": w, "h": h, "region": "_", "fixed": False, "hard": False, "loc": "X"}],
                   ratio, n, reqs, todo)
    for obs in (0, 1, 2):
        die_case(ctx, "Q", "4.0x4.0", None, 1.5, 2, reqs, todo, obs=obs)
        grid_case(ctx, "Q", "4.0x2.0", None, 2, 3, reqs, todo, obs=obs)
    for i in range(_n(ctx, 2000, 15000)):
        mode = "Q" if i % 3 != 2 else "F"
        ratio, n = pick(rng, mode, nmax)
        if rng.random() < 0.04:
            ratio, n = rng.choice([(1.25, n), (ratio, 0), (1.0, 0)])
        split_case(ctx, mode, gen_rect_list(rng, mode), ratio, n, reqs, todo)
    for i in range(_n(ctx, 1300, 9000)):
        mode = "Q" if i % 3 != 2 else "F"
        ratio, n = pick(rng, mode, nmax)
        dy, ny = gen_die_yaml(rng, mode)
        if rng.random() < 0.03:
            ratio, n = rng.choice([(1.25, n), (ratio, 0)])
        die_case(ctx, mode, dy, ny, ratio, n, reqs, todo, obs=rng.choice([0, 1, 1, 2]))
    for i in range(_n(ctx, 500, 8000)):
        mode = "Q" if i % 3 != 2 else "F"
        if rng.random() < 0.75:
            u = 0.25 if mode == "Q" else 0.1
            dy, ny = f"width: {rng.randint(1, 40) * u!r}\nheight: {rng.randint(1, 40) * u!r}\n", None
            if rng.random() < 0.3:
                dy = f"{rng.randint(1, 40) * u!r}x{rng.randint(1, 40) * u!r}"
        else:
            dy, ny = gen_die_yaml(rng, mode)
        grid_case(ctx, mode, dy, ny, rng.choice([0, 1, 1, 2, 3, 4, 5, 6]), rng.choice([0, 1, 1, 2, 3, 4, 5, 6]), reqs, todo,
                  obs=rng.choice([0, 1, 1, 2]))
    for _ in range(_n(ctx, 2000, 40000)):
        heap_case(ctx, gen_heap_script(rng), reqs, todo)
    # sessions on dies constructed by the model from the documents
    items = []
    for (dy, ny) in BLOCKED_DIES:
        items.append(("Q", dy, ny, [["s", 2.0, 3], ["g", 2, 2], ["s", 1.5, 1]], "str"))
    items.append(("Q", "4.0x4.0", None, [["s", 1.5, 2], ["g", 2, 2], ["s", 2.0, 9]], "str"))
    items.append(("Q", "4.0x2.0", None, [["g", 2, 3], ["s", 1.5, 8], ["g", 1, 2]], "str"))
    items.append(("Q", "width: 4.0\nheight: 2.0\n", None, [["g", 2, 2], ["s", 3.0, 7]], "tree"))
    for i in range(_n(ctx, 450, 4000)):
        mode = "Q" if i % 4 != 3 else "F"
        if rng.random() < 0.2:
            u = 0.25 if mode == "Q" else 0.1
            dy, ny = f"width: {rng.randint(1, 40) * u!r}\nheight: {rng.randint(1, 40) * u!r}\n", None
            if rng.random() < 0.4:
                dy = f"{rng.randint(1, 40) * u!r}x{rng.randint(1, 40) * u!r}"
        else:
            dy, ny = gen_die_yaml(rng, mode)
        kind = "tree" if (": " in dy and rng.random() < 0.15) else "str"
        items.append((mode, dy, ny, gen_calls(rng, mode, 24 if ctx.tier == "quick" else 64), kind))
    sessions(ctx, items)
    replies = ctx.model(reqs)
    if replies is None:
        ctx.notes.append("model driver unavailable: correspondence not run")
        return
    compare(ctx, todo, replies, reqs)


def _replay_one(ctx, inp, reqs, todo) -> None:
    op = inp.get("op")
    if op == "splitrects":
        split_case(ctx, inp["mode"], inp["rects"], inp["ratio"], inp["n"], reqs, todo)
    elif op == "diesplit":
        die_case(ctx, inp["mode"], inp["die"], inp["netlist"], inp["ratio"], inp["n"], reqs, todo, obs=inp.get("obs_before", 0))
    elif op == "initgrid":
        grid_case(ctx, inp["mode"], inp["die"], inp["netlist"], inp["nrows"], inp["ncols"], reqs, todo, obs=inp.get("obs_before", 0))
    elif op == "heap":
        heap_case(ctx, inp["script"], reqs, todo)
    elif op == "session":
        sessions(ctx, [(inp["mode"], inp["die"], inp["netlist"], inp["calls"], inp.get("as", "str"))])


def replay(ctx: Ctx, body: dict) -> None:
    reqs, todo = [], []
    _replay_one(ctx, body["input"], reqs, todo)
    replies = ctx.model(reqs)
    if replies:
        compare(ctx, todo, replies, reqs)

"""C02 — Refining an allocation conserves tiling, module area and centroid.

Correspondence: operation histories (1–6 operations among refine / uniform_refinement_depth / griddify, plus
must_be_refined / area([...]) / center([...]) / num_rectangles / num_modules / max_refinement_depth / allocation_rectangle(i) /
allocation_module(m) / check_compatible(netlist) queries, and OBJECT histories: a decision, then `rect.fixed = True` set in
place on a cell of the same object, then the decision again) starting from `Allocation(text)` or `Allocation(list)`,
implementation vs Lean model (`FV/Model/Alloc.lean`, driver `drv_alloc`): Q stream = dyadic layouts (float arithmetic
exact; cell lists compared exactly with the model run at `Rat`), F stream = decimal / thirds / arbitrary doubles
(model run at `Float`, expected bit-identical, accepted within 1e-9 and counted as drift).
Spec on implementation: the conservation clauses of `FV/Props/C02.lean` evaluated with `fractions.Fraction` on the
cells the implementation returned after every operation.
"""
from __future__ import annotations

from vcheck import Ctx
import alloc_common as ac

LEVEL = "proof"
DRIVERS = ["drv_alloc"]
TRUSTED = [
    "Lean 4.33 kernel; Mathlib lemmas; axioms ⊆ {propext, Classical.choice, Quot.sound}",
    "hand-written model FV/Model/Alloc.lean (+ FV/Model/Geom.lean) — fidelity to frame/allocation/allocation.py and "
    "frame/geometry/geometry.py checked by this correspondence run, not proved; `_module2rect` is modelled as a function of the "
    "cell list (`moduleAllocs`: index + ratio of every cell listing the module), compared with `allocation_module(m)` on every run; "
    "`griddify` is the repaired fixpoint loop (fixes/C12_griddify_x_before_y.diff), its fuel proved irrelevant",
    "theorems are over exact ordered fields; IEEE rounding is executed (F stream), never proved",
    "YAML parsing (ruamel) is outside the model: the model starts from the parsed tree",
    "harness (Python) and compiled Lean driver: parsing, canonicalisation, comparison",
]
FLAVOUR = "mixed"


def one(ctx: Ctx, rng, mode: str, pending: list, spec) -> None:
    if rng.random() < 0.04:
        inp = ac.gen_cascade_input(rng, mode)     # griddify needs several rounds of its two sweeps
        segs, steps, sqrt_ans = ac.run_impl(inp)
    else:
        inp = ac.gen_input(rng, mode, FLAVOUR)
        nops = rng.choice([1, 2, 3, 3, 4, 5, 6])
        segs, steps, sqrt_ans = ac.run_impl(inp, rng, FLAVOUR, nops)
    pending.append((inp, segs, ac.request(inp, sqrt_ans), sqrt_ans))
    spec(ctx, inp, steps)
    valid = not segs[0].startswith("err")
    changed = sum(1 for (op, b, a, e) in steps if op[0] in "RUG" and a is not None and len(a["cells"]) != len(b["cells"]))
    ctx.case(mode, (inp["cells"], inp["ops"], inp["fixed"], inp["eps"]), nontrivial=valid and changed > 0,
             sample={"mode": mode, "ncells": len(inp["cells"]), "ops": inp["ops"], "fixed": inp["fixed"],
                     "final": segs[-1][:120]})
    ctx.count("family:" + inp["family"])
    ctx.count("ctor:" + ("text" if inp["text"] else "list"))
    ctx.count("init:" + ("valid" if valid else segs[0]))
    for (op, b, a, e) in steps:
        if op[0] not in ("init", "input-mutated"):
            ctx.count("op:" + op[0] + (":err" if e else ""))
    if inp["fixed"] or any(c.get("fixed") for c in inp["cells"]):
        ctx.count("has-fixed-cell")


def spec_steps(ctx: Ctx, inp: dict, steps) -> None:
    ac.spec_raised(ctx, inp, steps)
    for idx, (op, before, after, error) in enumerate(steps):
        if op[0] == "init":
            if after is not None:
                ac.spec_caches(ctx, inp, 0, op, after, len(inp["cells"]))
            continue
        if op[0] in "RUG":
            ac.spec_c02_step(ctx, inp, idx, op, before, after, error)
        elif op[0] in "NILK":
            ac.spec_accessor(ctx, inp, idx, op, before, after, error)


def flush(ctx: Ctx, pending: list, selftest: bool = False) -> None:
    replies = ctx.model([r for (_, _, r, _) in pending])
    if replies is None:
        ctx.notes.append("model driver unavailable: correspondence not run")
        return
    for (inp, segs, _, sq), rep in zip(pending, replies):
        ac.compare(ctx, inp, segs, rep, sq)
    if selftest:
        ac.tie_filter_selftest(ctx, pending)      # raises (infrastructure error) if the tie filter is not sound


def run(ctx: Ctx) -> None:
    ctx.rule = ("guillotine partitions of a die (1–9 cells, optional hole / offset / long thin die / sliver cuts) from 5 "
                "coordinate families (int, half, dyadic: exact 'Q' stream; decimal, thirds, doubles: 'F' stream), random "
                "(also one-decimal coordinates at magnitude 1e3..1e5, 60% away from the origin), 4% cascade layouts on which griddify needs "
                "several rounds; occupancy maps over ≤5 modules (empty maps, zero and unit ratios included), depths 0–3, 30% with cells of fixed "
                "modules, 8% invalid descriptor lists, tolerances undefined or preset; then 1–6 operations drawn on the "
                "fly (refine with threshold from the ratio set and 1–3 levels, uniform depth, griddify, queries incl. the read accessors; 6% "
                "object histories [must_be_refined(t) | discarded refine(t)], cell flagged fixed in place, [refine(t) | must_be_refined(t)]), capped at "
                f"{ac.MAX_CELLS} cells; non-trivial = the constructor accepted the input and at least one operation changed the "
                "number of cells; distinct = distinct (cells, operations, fixed marks, tolerances)")
    ctx.assumptions.append("inputs are well-typed YAML trees (numbers, strings, dicts); type errors are outside the model")
    n = min(ctx.n(1000, 5000), 5000)   # the x20 extended search is capped: histories are expensive
    pending: list = []
    seeds = getattr(ctx, "seed_inputs", None) or []
    for s in seeds[:20]:
        replay_input(ctx, s, pending)
    for i in range(n):
        one(ctx, ctx.rng, "Q" if i % 2 == 0 else "F", pending, spec_steps)
    flush(ctx, pending, selftest=True)
    ac.pysum_stream(ctx, ctx.n(300, 3000))


def replay_input(ctx: Ctx, inp: dict, pending: list) -> None:
    inp = dict(inp)
    segs, steps, sqrt_ans = ac.run_impl(inp)
    pending.append((inp, segs, ac.request(inp, sqrt_ans), sqrt_ans))
    spec_steps(ctx, inp, steps)


def replay(ctx: Ctx, body: dict) -> None:
    pending: list = []
    if body["input"].get("op") == "pysum":
        inp = body["input"]
        xs = [float(x) for x in inp["xs"]]
        rep = ctx.model([f"{inp['mode']} pysum {len(xs)} " + " ".join(ac.sc(x, inp["mode"]) for x in xs)])
        if rep and rep[0] != ac.sc(float(sum(xs)), inp["mode"]):
            ctx.disagree("pysum", inp, ac.sc(float(sum(xs)), inp["mode"]), rep[0])
        return
    replay_input(ctx, body["input"], pending)
    flush(ctx, pending)

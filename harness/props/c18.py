"""C18 — Rectangle operations agree with plane geometry.

Correspondence: every public `Rectangle` operation on generated pairs / cuts / grids, implementation vs
Lean model (`FV/Model/Geom.lean`) — Q stream (dyadic inputs, exact in binary floating point, compared
exactly with the model run at `Rat`) and F stream (decimal / arbitrary doubles, compared with the model run
at `Float`).  Spec on implementation: the right-hand sides of the theorems of `FV/Props/C18.lean`
evaluated with `fractions.Fraction` on what the implementation returned.
"""
from __future__ import annotations

from fractions import Fraction

from vcheck import Ctx, ulp_nudge, hex2f, f2hex
import geo
from geo import sc, rect_in, rect_out, rects_out, bb, exact_overlap, rect_dict
from frame.geometry.geometry import Rectangle, Point

LEVEL = "proof"
DRIVERS = ["drv_geom"]
TRUSTED = [
    "Lean 4.33 kernel; Mathlib lemmas; axioms ⊆ {propext, Classical.choice, Quot.sound}",
    "hand-written model FV/Model/Geom.lean — fidelity to frame/geometry/geometry.py checked by this correspondence run, not proved",
    "theorems are over exact ordered fields; IEEE rounding is executed (F stream), never proved",
    "harness (Python) and compiled Lean driver: parsing, canonicalisation, comparison",
]

PAIR_OPS = ["ov", "inter", "inside", "eq", "touch", "overlap"]


def _scalars_close(a: str, b: str, mode: str, tol: float) -> tuple[bool, bool]:
    """(equal-enough, exactly-equal) for two output lines."""
    if a == b:
        return True, True
    ta, tb = a.split(), b.split()
    if len(ta) != len(tb):
        return False, False
    for x, y in zip(ta, tb):
        if x == y:
            continue
        try:
            fx, fy = (hex2f(x), hex2f(y)) if mode == "F" else (Fraction(x), Fraction(y))
        except Exception:
            return False, False
        if mode == "F" and (len(x) != 16 or len(y) != 16):
            return False, False
        scale = max(1.0, abs(float(fx)), abs(float(fy)))
        if abs(float(fx) - float(fy)) > tol * scale:
            return False, False
    return True, False


def impl_op(op: str, a: Rectangle, b, mode: str, extra) -> str:
    try:
        if op == "ov":
            return sc(a.area_overlap(b), mode)
        if op == "inter":
            r = a * b
            return "none" if r is None else rect_out(r, mode)
        if op == "inside":
            return str(int(a.is_inside(b)))
        if op == "eq":
            return str(int(a == b))
        if op == "touch":
            Rectangle.set_epsilon(extra, 0.0)
            return str(int(a.touches(b)))
        if op == "overlap":
            Rectangle.set_epsilon(0.0, extra)
            return str(int(a.overlap(b)))
        if op == "pin":
            return str(int(a.point_inside(Point(*extra))))
        if op in ("splitH", "splitV"):
            try:
                p, q = a.split_horizontal(extra) if op == "splitH" else a.split_vertical(extra)
            except AssertionError:
                return "err:Assert"
            return rect_out(p, mode) + " | " + rect_out(q, mode)
        if op == "split":
            p, q = a.split()
            return rect_out(p, mode) + " | " + rect_out(q, mode)
        if op == "xcut":
            return str(int(a.x_cuttable(extra[0], extra[1])))
        if op == "ycut":
            return str(int(a.y_cuttable(extra[0], extra[1])))
        if op == "grid":
            try:
                return rects_out(a.rectangle_grid(*extra), mode)
            except AssertionError:
                return "err:Assert"
        if op == "aspect":
            return sc(a.aspect_ratio, mode)
        if op == "area":
            return sc(a.area, mode)
        if op == "bb":
            bbx = a.bounding_box
            return " ".join(sc(v, mode) for v in (bbx.ll.x, bbx.ll.y, bbx.ur.x, bbx.ur.y))
    finally:
        Rectangle.undefine_epsilon()
    raise ValueError(op)


def request(op: str, a: Rectangle, b, mode: str, extra) -> str:
    if op in ("ov", "inter", "inside", "eq"):
        return f"{mode} {op} {rect_in(a, mode)} {rect_in(b, mode)}"
    if op in ("touch", "overlap"):
        return f"{mode} {op} {sc(extra, mode)} {rect_in(a, mode)} {rect_in(b, mode)}"
    if op == "pin":
        return f"{mode} pin {rect_in(a, mode)} {sc(extra[0], mode)} {sc(extra[1], mode)}"
    if op in ("splitH", "splitV"):
        return f"{mode} {op} {rect_in(a, mode)} {sc(extra, mode)}"
    if op in ("split", "aspect", "area", "bb"):
        return f"{mode} {op} {rect_in(a, mode)}"
    if op in ("xcut", "ycut"):
        return f"{mode} {op} {rect_in(a, mode)} {sc(extra[0], mode)} {sc(extra[1], mode)}"
    if op == "grid":
        return f"{mode} grid {rect_in(a, mode)} {extra[0]} {extra[1]}"
    raise ValueError(op)


# ------------------------------------------------------------------ spec on the implementation
def _tol(mode: str, *vals) -> Fraction:
    if mode == "Q":
        return Fraction(0)
    return Fraction(1, 10 ** 9) * max([Fraction(1)] + [abs(Fraction(v)) for v in vals])


def _pieces_tile(ctx, clause, inp, r: Rectangle, pieces: list[Rectangle], mode: str):
    """pieces inside r, pairwise disjoint, areas sum to r, attributes inherited."""
    rx0, ry0, rx1, ry1 = bb(r)
    t = _tol(mode, rx0, ry0, rx1, ry1)
    ta = t * max(Fraction(1), rx1 - rx0, ry1 - ry0) * 4
    tot = Fraction(0)
    for p in pieces:
        x0, y0, x1, y1 = bb(p)
        if not (x0 >= rx0 - t and y0 >= ry0 - t and x1 <= rx1 + t and y1 <= ry1 + t):
            ctx.spec_fail(clause + ":piece-inside", inp, {"piece": rect_dict(p)}, size=len(pieces))
            return
        # float stream: a cut within an ulp of the border may leave a piece whose size rounds to 0 (rounding tie)
        if not ((x1 - x0 > 0 and y1 - y0 > 0) if mode == "Q" else (x1 - x0 > -t and y1 - y0 > -t)):
            ctx.spec_fail(clause + ":piece-positive", inp, {"piece": rect_dict(p)}, size=len(pieces))
            return
        if (p.region, p.fixed, p.hard) != (r.region, r.fixed, r.hard):
            ctx.spec_fail(clause + ":inherit", inp, {"piece": rect_dict(p)}, size=len(pieces))
            return
        tot += (x1 - x0) * (y1 - y0)
    if abs(tot - (rx1 - rx0) * (ry1 - ry0)) > ta * len(pieces):
        ctx.spec_fail(clause + ":area-sum", inp, {"sum": str(tot), "area": str((rx1 - rx0) * (ry1 - ry0))}, size=len(pieces))
        return
    if len(pieces) <= 64:
        for i in range(len(pieces)):
            for j in range(i + 1, len(pieces)):
                if exact_overlap(pieces[i], pieces[j]) > ta:
                    ctx.spec_fail(clause + ":disjoint", inp, {"i": i, "j": j}, size=len(pieces))
                    return


def coordinate_comparison(ctx: Ctx, op: str, a: Rectangle, b, extra, inp) -> None:
    """'containment, point membership … match coordinate comparison', read literally: the predicates must agree with
    plain comparisons of the coordinates the rectangle itself reports (`bounding_box`) — no arithmetic on our side, so
    the clause is exact at every float input, including decimal edge coincidences."""
    ba = a.bounding_box
    if op == "pin":
        px, py = extra
        exp = ba.ll.x <= px <= ba.ur.x and ba.ll.y <= py <= ba.ur.y
        if a.point_inside(Point(px, py)) != exp:
            ctx.spec_fail("pointInside_iff:reported-coordinates", inp, {"expected": exp, "bb": [ba.ll.x, ba.ll.y, ba.ur.x, ba.ur.y]})
    elif op == "inside":
        bbb = b.bounding_box
        exp = ba.ll.x >= bbb.ll.x and ba.ll.y >= bbb.ll.y and ba.ur.x <= bbb.ur.x and ba.ur.y <= bbb.ur.y
        if a.is_inside(b) != exp:
            ctx.spec_fail("isInside_iff_coords:reported-coordinates", inp, {"expected": exp})
    elif op in ("xcut", "ycut"):
        x = extra[0]
        lo, hi = (ba.ll.x, ba.ur.x) if op == "xcut" else (ba.ll.y, ba.ur.y)
        got = a.x_cuttable(*extra) if op == "xcut" else a.y_cuttable(*extra)
        if got and not (lo < x < hi):
            ctx.spec_fail(op[0] + "Cuttable_imp_strict_inside:reported-coordinates", inp, {"x": x, "lo": lo, "hi": hi})


def spec_on_impl(ctx: Ctx, op: str, a: Rectangle, b, mode: str, extra, inp) -> None:
    coordinate_comparison(ctx, op, a, b, extra, inp)
    ax0, ay0, ax1, ay1 = bb(a)
    if op in PAIR_OPS:
        bx0, by0, bx1, by1 = bb(b)
        t = _tol(mode, ax0, ay0, ax1, ay1, bx0, by0, bx1, by1)
        ex = exact_overlap(a, b)
        ta = t * max(Fraction(1), ax1 - ax0, ay1 - ay0, bx1 - bx0, by1 - by0) * 4
    if op == "ov":
        v, v2 = Fraction(a.area_overlap(b)), Fraction(b.area_overlap(a))
        if abs(v - v2) > ta:
            ctx.spec_fail("areaOverlap_comm", inp, {"ab": float(v), "ba": float(v2)})
        if abs(v - ex) > ta:
            ctx.spec_fail("areaOverlap_eq_common", inp, {"impl": float(v), "exact": float(ex)})
    elif op == "inter":
        r, r2 = a * b, b * a
        should = a.region == b.region and ex > 0
        # the existence clause is exact only away from the boundary ex = 0
        if (r is not None) != should and (mode == "Q" or ex > ta):
            ctx.spec_fail("inter_isSome_iff", inp, {"returned": r is not None, "expected": should})
        if (r is None) != (r2 is None) and (mode == "Q" or ex > ta):
            ctx.spec_fail("inter_isSome_comm", inp, {})
        if r is not None:
            x0, y0, x1, y1 = bb(r)
            for (o0, p0, o1, p1) in ((ax0, ay0, ax1, ay1), (bx0, by0, bx1, by1)):
                if not (x0 >= o0 - t and y0 >= p0 - t and x1 <= o1 + t and y1 <= p1 + t):
                    ctx.spec_fail("inter_inside_both", inp, {"inter": rect_dict(r)})
            if abs((x1 - x0) * (y1 - y0) - ex) > ta:
                ctx.spec_fail("inter_area", inp, {"inter": rect_dict(r), "exact": float(ex)})
            if (r.region, r.fixed, r.hard) != (a.region, a.fixed, a.hard):
                ctx.spec_fail("inter_inherits", inp, {"inter": rect_dict(r)})
            if r2 is not None:
                g1, g2 = bb(r), bb(r2)
                if any(abs(u - v) > t for u, v in zip(g1, g2)):
                    ctx.spec_fail("inter_geom_comm", inp, {"ab": rect_dict(r), "ba": rect_dict(r2)})
    elif op == "inside":
        exp = ax0 >= bx0 and ay0 >= by0 and ax1 <= bx1 and ay1 <= by1
        margin = min(abs(ax0 - bx0), abs(ay0 - by0), abs(ax1 - bx1), abs(ay1 - by1))
        if a.is_inside(b) != exp and (mode == "Q" or margin > t):
            ctx.spec_fail("isInside_iff_coords", inp, {"impl": a.is_inside(b), "expected": exp})
    elif op == "touch":
        gap = max(ax0 - bx1, bx0 - ax1, ay0 - by1, by0 - ay1)
        eps = Fraction(extra)
        Rectangle.set_epsilon(extra, 0.0)
        got = a.touches(b)
        Rectangle.undefine_epsilon()
        if got != (gap <= eps) and (mode == "Q" or abs(gap - eps) > t):
            ctx.spec_fail("touches_iff_gap_le", inp, {"impl": got, "gap": float(gap), "eps": float(eps)})
    elif op == "overlap":
        Rectangle.set_epsilon(0.0, extra)
        got = a.overlap(b)
        Rectangle.undefine_epsilon()
        if got != (ex > Fraction(extra)) and (mode == "Q" or abs(ex - Fraction(extra)) > ta):
            ctx.spec_fail("overlap_iff", inp, {"impl": got, "exact_area": float(ex), "epsA": float(extra)})
    elif op == "eq":
        exp = (a.center.x, a.center.y, a.shape.w, a.shape.h, a.region) == (b.center.x, b.center.y, b.shape.w, b.shape.h, b.region)
        if (a == b) != exp:
            ctx.spec_fail("beq_iff", inp, {"impl": a == b})
    elif op == "pin":
        px, py = Fraction(extra[0]), Fraction(extra[1])
        exp = ax0 <= px <= ax1 and ay0 <= py <= ay1
        margin = min(abs(px - ax0), abs(px - ax1), abs(py - ay0), abs(py - ay1))
        if a.point_inside(Point(*extra)) != exp and (mode == "Q" or margin > _tol(mode, px, py, ax0, ax1)):
            ctx.spec_fail("pointInside_iff", inp, {"expected": exp})
    elif op in ("splitH", "splitV", "split"):
        try:
            if op == "splitH":
                pq = a.split_horizontal(extra)
            elif op == "splitV":
                pq = a.split_vertical(extra)
            else:
                pq = a.split()
        except AssertionError:
            lo, hi = (ax0, ax1) if op == "splitH" else (ay0, ay1)
            if op == "split" or (extra >= 0 and lo < Fraction(extra) < hi and
                                 min(Fraction(extra) - lo, hi - Fraction(extra)) > _tol(mode, lo, hi)):
                ctx.spec_fail(op + "_isSome", inp, {"raised": "AssertionError"})
            return
        _pieces_tile(ctx, op + "_tiles", inp, a, list(pq), mode)
        p, q = pq
        t = _tol(mode, ax0, ay0, ax1, ay1)
        if op == "splitH" and extra >= 0:
            if abs(bb(p)[2] - Fraction(extra)) > t or abs(bb(q)[0] - Fraction(extra)) > t:
                ctx.spec_fail("splitH_tiles:cut-at-x", inp, {"p": rect_dict(p), "q": rect_dict(q)})
        if op == "splitV" and extra >= 0:
            if abs(bb(p)[3] - Fraction(extra)) > t or abs(bb(q)[1] - Fraction(extra)) > t:
                ctx.spec_fail("splitV_tiles:cut-at-y", inp, {"p": rect_dict(p), "q": rect_dict(q)})
        if op == "split":
            w, h = Fraction(a.shape.w), Fraction(a.shape.h)
            ew, eh = (w, h / 2) if h > w else (w / 2, h)
            for piece in (p, q):
                if abs(Fraction(piece.shape.w) - ew) > t or abs(Fraction(piece.shape.h) - eh) > t:
                    ctx.spec_fail("split_tiles:halves-longer-side", inp, {"piece": rect_dict(piece)})
    elif op in ("xcut", "ycut"):
        x, rho = Fraction(extra[0]), Fraction(extra[1])
        lo, hi, other = (ax0, ax1, Fraction(a.shape.h)) if op == "xcut" else (ay0, ay1, Fraction(a.shape.w))
        got = a.x_cuttable(*extra) if op == "xcut" else a.y_cuttable(*extra)
        t = _tol(mode, lo, hi, x)
        if got and not (lo < x < hi) and (mode == "Q" or min(abs(x - lo), abs(x - hi)) > t):
            ctx.spec_fail(op[0] + "Cuttable_imp_strict_inside", inp, {"x": float(x)})
        if not got and lo < x < hi and x - lo > rho * other + t and hi - x > rho * other + t:
            ctx.spec_fail(op[0] + "Cuttable_of_no_sliver", inp, {"x": float(x)})
    elif op == "grid":
        try:
            cells = a.rectangle_grid(*extra)
        except AssertionError:
            if extra[0] > 0 and extra[1] > 0:
                ctx.spec_fail("grid_isSome_iff", inp, {})
            return
        if len(cells) != extra[0] * extra[1]:
            ctx.spec_fail("grid_length", inp, {"len": len(cells)})
            return
        _pieces_tile(ctx, "grid_tiles", inp, a, cells, "F")  # w/ncols is inexact even on dyadic input


# ------------------------------------------------------------------ generation
def gen_case(rng, mode: str):
    fam = rng.choice(geo.EXACT_FAMILIES if mode == "Q" else geo.FLOAT_FAMILIES)
    a = geo.rand_rect(rng, fam)
    kind = rng.random()
    if kind < 0.25:      # related rectangle: shares sides / touches / nested / identical
        bbx = a.bounding_box
        choice = rng.randrange(5)
        if choice == 0:
            b = geo.mk_rect(a.center.x + a.shape.w, a.center.y, a.shape.w, a.shape.h, a.region)       # abutting east
        elif choice == 1:
            b = geo.mk_rect(a.center.x, a.center.y, a.shape.w, a.shape.h, rng.choice([a.region, "dsp"]))  # identical
        elif choice == 2:
            b = geo.mk_rect(a.center.x, a.center.y, a.shape.w / 2, a.shape.h / 2, a.region)           # nested
        elif choice == 3:
            b = geo.mk_rect(bbx.ur.x + a.shape.w / 2, bbx.ur.y + a.shape.h / 2, a.shape.w, a.shape.h, a.region)  # corner
        else:
            b = geo.mk_rect(a.center.x + a.shape.w / 4, a.center.y, a.shape.w, a.shape.h * 2, a.region)  # crossing
    else:
        b = geo.rand_rect(rng, fam)
    return fam, a, b


def one_case(ctx: Ctx, rng, mode: str, reqs, todo):
    fam, a, b = gen_case(rng, mode)
    op = rng.choice(PAIR_OPS + ["pin", "splitH", "splitV", "split", "xcut", "ycut", "grid", "aspect", "area", "bb"])
    extra = None
    bbx = a.bounding_box
    if op == "touch":
        extra = rng.choice([0.0, 1e-9, 0.125, 0.5, 1.0])
    elif op == "overlap":
        extra = rng.choice([0.0, 1e-6, 0.25, 1.0])
    elif op == "pin":
        extra = (rng.choice([bbx.ll.x, bbx.ur.x, a.center.x, geo.coord(rng, fam)]),
                 rng.choice([bbx.ll.y, bbx.ur.y, a.center.y, geo.coord(rng, fam)]))
    elif op in ("splitH", "splitV"):
        lo, hi = (bbx.ll.x, bbx.ur.x) if op == "splitH" else (bbx.ll.y, bbx.ur.y)
        extra = rng.choice([-1.0, lo, hi, (lo + hi) / 2, lo + (hi - lo) / 4, geo.coord(rng, fam), geo.coord(rng, fam)])
    elif op in ("xcut", "ycut"):
        lo, hi = (bbx.ll.x, bbx.ur.x) if op == "xcut" else (bbx.ll.y, bbx.ur.y)
        extra = (rng.choice([lo, hi, (lo + hi) / 2, lo + (hi - lo) / 128, geo.coord(rng, fam), geo.coord(rng, fam)]),
                 rng.choice([0.01, 0.0, 0.25, 0.5]))
    elif op == "grid":
        extra = (rng.choice([0, 1, 1, 2, 3, 4, 5]), rng.choice([0, 1, 2, 2, 3, 4, 7]))
    inp = {"mode": mode, "op": op, "a": rect_dict(a), "b": rect_dict(b), "extra": extra, "family": fam}
    try:
        impl = impl_op(op, a, b, mode, extra)
        spec_on_impl(ctx, op, a, b, mode, extra, inp)
    except Exception as ex:  # the operations are total on valid rectangles: any exception is a property failure
        Rectangle.undefine_epsilon()
        ctx.spec_fail("operation-raised", inp, {"exception": type(ex).__name__, "message": str(ex)[:200]})
        return
    reqs.append(request(op, a, b, mode, extra))
    todo.append((op, a, b, mode, extra, inp, impl))
    nontrivial = not (op in ("ov", "inter", "overlap") and exact_overlap(a, b) == 0 and rng.random() < 0.7)
    ctx.case(mode, (op, inp["a"], inp["b"], extra), nontrivial, sample={"op": op, "mode": mode, "a": inp["a"], "b": inp["b"], "extra": extra, "impl": impl})
    ctx.count("op:" + op)
    ctx.count("family:" + fam)


def compare(ctx: Ctx, todo, replies):
    for (op, a, b, mode, extra, inp, impl), model in zip(todo, replies):
        if impl == model:
            continue
        exact_expected = mode == "Q" and op not in ("grid", "aspect")
        ok, exact = _scalars_close(impl, model, mode, 0.0 if exact_expected else 1e-9)
        if ok:
            ctx.drift += 0 if exact else 1
            continue
        if mode == "F" and model in ("0", "1") and impl in ("0", "1"):
            # Boolean verdict differs: binding only if the model's own answer is stable under ±4 ulp nudges
            # of every scalar input (otherwise the case is a rounding tie, outside the property)
            if _is_tie(op, a, b, extra, model):
                ctx.ties += 1
                continue
        ctx.disagree(op, inp, impl, model, size=1)


def _is_tie(op, a, b, extra, model) -> bool:
    reqs = []
    for k in (-4, 4):
        for which in ("a", "b"):
            for fld in ("cx", "cy", "w", "h"):
                ra, rb = a, b
                src = a if which == "a" else b
                if src is None:
                    continue
                d = rect_dict(src)
                d[fld] = ulp_nudge(d[fld], k)
                if d[fld] <= 0 and fld in ("w", "h"):
                    continue
                r2 = geo.mk_rect(d["cx"], d["cy"], d["w"], d["h"], d["region"], d["fixed"], d["hard"])
                if which == "a":
                    ra = r2
                else:
                    rb = r2
                reqs.append(request(op, ra, rb, "F", extra))
    from vcheck import run_driver
    return any(r != model for r in run_driver(reqs))


def history_case(ctx: Ctx, rng) -> None:
    """a rectangle that is queried, then moved / resized (in place through its Point / Shape, or through the setters),
    then queried again must answer exactly like a fresh rectangle with the new coordinates (no stale derived state)."""
    fam = rng.choice(geo.EXACT_FAMILIES + geo.FLOAT_FAMILIES)
    a, b = geo.rand_rect(rng, fam), geo.rand_rect(rng, fam)
    px, py = geo.coord(rng, fam), geo.coord(rng, fam)

    def observe(r):
        bbx = r.bounding_box
        return [bbx.ll.x, bbx.ll.y, bbx.ur.x, bbx.ur.y, r.area, r.point_inside(Point(px, py)), r.is_inside(b), b.is_inside(r),
                r.area_overlap(b), b.area_overlap(r), None if r * b is None else geo.rect_dict(r * b),
                r.x_cuttable(px), r.y_cuttable(py), r.aspect_ratio, [geo.rect_dict(p) for p in r.split()],
                [geo.rect_dict(p) for p in r.rectangle_grid(2, 3)]]
    try:
        observe(a)                                          # first query (may populate derived state)
        nx, ny = geo.coord(rng, fam), geo.coord(rng, fam)
        nw, nh = a.shape.w * rng.choice([0.5, 1, 2, 1.5]), a.shape.h * rng.choice([0.5, 1, 2, 0.75])
        how = rng.choice(["inplace", "setters", "mixed"])
        if how == "inplace":
            a.center.x, a.center.y = nx, ny
            a.shape.w, a.shape.h = nw, nh
        elif how == "setters":
            a.center = Point(nx, ny)
            from frame.geometry.geometry import Shape
            a.shape = Shape(nw, nh)
        else:
            a.center.x = nx
            a.center = Point(a.center.x, ny)
            a.shape.h = nh
            a.shape.w = nw
        fresh = geo.mk_rect(nx, ny, nw, nh, a.region, a.fixed, a.hard)
        got, exp = observe(a), observe(fresh)
    except Exception as ex:
        ctx.spec_fail("operation-raised", {"stream": "history", "family": fam}, {"exception": type(ex).__name__, "message": str(ex)[:200]})
        return
    inp = {"stream": "history", "how": how, "family": fam, "a_after": geo.rect_dict(fresh), "b": geo.rect_dict(b), "p": [px, py]}
    ctx.case("history", (how, inp["a_after"], inp["b"], px, py), True)
    ctx.count("history:" + how)
    if got != exp:
        k = next(i for i, (u, v) in enumerate(zip(got, exp)) if u != v)
        ctx.spec_fail("no-stale-state:moved-rectangle-equals-fresh-one", inp, {"observation_index": k, "moved": str(got[k])[:200], "fresh": str(exp[k])[:200]})


def run(ctx: Ctx) -> None:
    for _ in range(ctx.n(400, 5000)):
        history_case(ctx, ctx.rng)
    ctx.rule = ("random rectangle pairs / cuts / grids from 5 coordinate families (int, half, dyadic: exact 'Q' stream; "
                "decimal, thirds, uniform doubles: 'F' stream), 25% structurally related pairs (abutting, identical, nested, "
                "corner-touching, crossing); a case is non-trivial unless it is a disjoint pair for an overlap op (70% of those "
                "discarded from the count); distinct = distinct (op, operands, parameters)")
    n = ctx.n(6000, 150000)
    reqs, todo = [], []
    for i in range(n):
        one_case(ctx, ctx.rng, "Q" if i % 2 == 0 else "F", reqs, todo)
    if ctx.tier == "thorough" and ctx.budget <= 1.0:
        lattice_exhaustive(ctx, reqs, todo)
    replies = ctx.model(reqs)
    if replies is None:
        ctx.notes.append("model driver unavailable: correspondence not run")
        return
    compare(ctx, todo, replies)


def lattice_exhaustive(ctx: Ctx, reqs, todo) -> None:
    """all ordered pairs of rectangles with corners on a 5-point lattice (labelled a test, not the theorem)."""
    pts = [0.0, 1.0, 2.0, 3.0, 4.0]
    rects = [geo.mk_rect((x0 + x1) / 2, (y0 + y1) / 2, x1 - x0, y1 - y0)
             for x0 in pts for x1 in pts if x1 > x0 for y0 in pts for y1 in pts if y1 > y0]
    cnt = 0
    for a in rects:
        for b in rects:
            for op in ("ov", "inter", "inside"):
                inp = {"mode": "Q", "op": op, "a": rect_dict(a), "b": rect_dict(b), "extra": None, "family": "lattice"}
                impl = impl_op(op, a, b, "Q", None)
                reqs.append(request(op, a, b, "Q", None))
                todo.append((op, a, b, "Q", None, inp, impl))
                spec_on_impl(ctx, op, a, b, "Q", None, inp)
                cnt += 1
    ctx.evaluations += cnt
    ctx.extra["lattice_exhaustive_cases"] = cnt


def replay(ctx: Ctx, body: dict) -> None:
    inp = body["input"]
    if inp.get("stream") == "history":
        for _ in range(400):
            history_case(ctx, ctx.rng)
        return
    a, b = (geo.mk_rect(d["cx"], d["cy"], d["w"], d["h"], d["region"], d["fixed"], d["hard"]) for d in (inp["a"], inp["b"]))
    extra = inp["extra"]
    if isinstance(extra, list):
        extra = tuple(extra)
    reqs, todo = [], []
    impl = impl_op(inp["op"], a, b, inp["mode"], extra)
    reqs.append(request(inp["op"], a, b, inp["mode"], extra))
    todo.append((inp["op"], a, b, inp["mode"], extra, inp, impl))
    spec_on_impl(ctx, inp["op"], a, b, inp["mode"], extra, inp)
    replies = ctx.model(reqs)
    if replies:
        compare(ctx, todo, replies)

"""C15 — Grid orthogon decomposition finds exactly the single-trunk decompositions.

Correspondence (implementation `tools/floorset_parser/floor_set_manager/strop.py`, `…/utils/utils.py` vs the Lean
model `FV/Model/Strop.lean`, driver `drv_strop`):
  * grids: `Strop(matrix)` — error class, `is_strop`, the instances (trunk + branches per side, branch order as
    produced, instance order canonicalised because it comes from a `set`), `rectangles(which)`; and, as optional
    internal-stage observation points (skipped with a note when a private member is missing or re-shaped),
    `_get_potential_trunks`, `_get_trunks_matrix`, `_row_interval`;
  * vertex lists (lists of `Point` and of numpy arrays, both orientations): the 0/1 matrix built from the cell
    centres, `is_point_inside_polygon`, `strop_decomposition` (the implementation's answer must be one of the
    model's candidates: it takes the first element of a set iteration).
Spec on the implementation (exact integer / `Fraction` arithmetic, independent of the model):
  * `is_strop` ⇔ brute force `∃ trunk` (every 1-cell lies in the cross of an all-ones index rectangle and is joined
    to it by ones);
  * every offered instance: trunk all-ones, branches rectangles abutting their side within the trunk's extent,
    trunk + branches cover every 1-cell exactly once and no 0-cell;
  * `strop_decomposition(vertices)`: Σ w·h = |shoelace area|; the rectangles loaded as a `Module` are recognised
    by `create_stog` with the trunk first and every other rectangle located on a side.
  * decimal stream (last clause, as a design is really loaded): polygons on one-decimal grids, magnitudes 10..1000,
    long contacts next to small sides, decomposed and loaded as the only module of a `Netlist` in a clean tolerance
    state (the netlist derives ε itself): `has_stog`, trunk first, order kept, side roles.  A few polygons on half-integer grid lines next to 2^20
    (all arithmetic exact, ε far below ulp/2: the finding's second mechanism) are included.  Failures inside the region
    of the open finding C15-decimal-decomposition (smallest dimension ≤ 4.5e-4 × largest |coordinate|, i.e. the
    netlist's ε = 1e-12·smallest is below the rounding of cx ± w/2) that disappear when ε is floored at
    1e-14·largest |coordinate| carry the finding id; every other failure is a violation.
Traced-polygon stream (ties the vertex-list half of the pipeline to the theorems `matrix_of_traced_polygon`,
`traced_polygon_decomposes_iff`, `traced_polygon_area`, `matrix_start_orientation_indep`, `pip_closed_form`): a grid
pattern S that is one simple polygon is traced (harness tracer, independent of the implementation), mapped through
exact (int / half / dyadic) or decimal coordinate lists, with all / none / a random subset of the collinear points kept,
in BOTH orientations and from EVERY start vertex.  For each of these vertex lists
  * the matrix `strop_decomposition` really hands to `Strop` (captured by wrapping the name `Strop` in utils.py for the
    duration of the call) must be the source pattern sampled at the centres of the pipeline's own cells (computed by
    bisection in the source coordinate lists — no point-in-polygon test involved), and must equal the model's matrix;
  * the Lean predicate `tracesGrid σ S vs` (the hypothesis of the theorems) is evaluated by the driver and must hold;
  * rectangles are returned iff the brute-force oracle finds a trunk in S; Σ w·h = |shoelace|; Lean `shoelace2` = the
    harness's shoelace sum;
  * `is_point_inside_polygon` on cell centres, grid-line points, vertices and outside points = the closed form
    (parity of the vertical edges strictly to the right whose half-open y-range contains the ordinate), evaluated both
    by the harness and by the model (`rightCount`).
Histogram polygons (theorem `histogram_traces`: the hypothesis is PROVED for this class) are generated exactly as
`histLoop` builds them, repeated vertices included.
`StropInstance(Strop(grid), trunk)` is also constructed directly for arbitrary trunk rectangles (the `_valid == False`
return path is unreachable through `Strop`: theorem `potential_trunk_is_instance`) and compared with `mkInstance`.
All-zero grids: the implementation builds no potential trunk, `is_strop` is False (and the brute-force oracle, which
needs a non-empty trunk, agrees); empty / ragged matrices raise `AssertionError` (`err:Assert` in the model).
"""
from __future__ import annotations

import multiprocessing
from fractions import Fraction

from vcheck import Ctx, f2hex, hex2f, q2s
import geo  # noqa: F401  (keeps the repo on sys.path in the same way as the other checks)

import numpy as np
from frame.geometry.geometry import Point, Rectangle, Shape
from frame.netlist.module import Module
from frame.netlist.netlist import Netlist
from tools.floorset_parser.floor_set_manager.strop import Strop
from tools.floorset_parser.floor_set_manager import strop as STROP_MOD
import tools.floorset_parser.floor_set_manager.utils.utils as UTILS_MOD
from tools.floorset_parser.floor_set_manager.utils.utils import strop_decomposition, is_point_inside_polygon

LEVEL = "proof"
DRIVERS = ["drv_strop"]
TRUSTED = [
    "Lean 4.33 kernel; axioms ⊆ {propext, Classical.choice, Quot.sound}",
    "hand-written model FV/Model/Strop.lean — fidelity to strop.py / utils.py checked by this correspondence run "
    "(all grids up to 4×5 and 5×4 in the thorough tier), not proved",
    "even–odd point-in-polygon: proved to mark exactly the cells of S for every vertex list that satisfies the executable "
    "edge condition `tracesGrid σ S vs` (matrix_of_traced_polygon) — that the harness's boundary tracer produces such lists "
    "is not proved but evaluated by the driver on every traced polygon (hypothesis monitor, op `traces`); proved as a class "
    "for axis-parallel rectangles only",
    "recognition by create_stog is proved against the C06 model (FV/Model/Stog.lean, whose fidelity is C06's "
    "correspondence check) and exercised here on the implementation with the loader's ε",
    "harness (Python) and compiled Lean driver: parsing, canonicalisation, comparison, brute-force oracle",
    "FLOAT / FIELD GAP: the polygon theorems (pip_*, matrix_of_traced_polygon, rectangle_*, histogram_*) are about exact ordered "
    "fields; on doubles strop_decomposition is only executed and searched: it raises AssertionError on polygons whose coordinate "
    "differences are absorbed by rounding (e.g. the rectangle [1+2^-52, 1+2^-51]x[0,1], integer coordinates at 2^53, [1e308, 1.5e308]) "
    "— audit 4 row 15; such inputs are outside what is claimed",
]

SIDES = "NSEW"


# ------------------------------------------------------------------ guarded calls into the implementation
def guarded(fails: list, label: str, fn, *args):
    """call into the implementation; an exception the property does not foresee becomes an `operation-raised`
    spec failure (appended to `fails`) and the wire value `raised:<Class>` — never a harness crash."""
    try:
        return fn(*args)
    except Exception as e:  # noqa: BLE001
        fails.append(("operation-raised", {"operation": label, "exception": type(e).__name__, "message": str(e)[:200]}))
        return "raised:" + type(e).__name__


def well_formed(rows: list[str]) -> bool:
    return len(rows) > 0 and len(rows[0]) > 0 and all(len(r) == len(rows[0]) for r in rows)


# ------------------------------------------------------------------ implementation → wire format
def _iv(i) -> str:
    return f"{i.low}.{i.high}"


def _rect(r) -> str:
    return f"{_iv(r.rows)}.{_iv(r.columns)}"


def _inst(t) -> str:
    parts = ["T=" + _rect(t.trunk())]
    for side in SIDES:
        parts.append(side + "=" + ",".join(_rect(r) for r in t.rectangles(side)))
    return " ".join(parts)


def rows_to_str(rows: list[str]) -> str:
    return "\n".join(rows)


def grid_req(rows: list[str]) -> str:
    return f"{len(rows)}" + "".join(" " + (r if r else ".") for r in rows)


def impl_strop(rows: list[str]):
    """(wire string, Strop object or None)."""
    try:
        s = Strop(rows_to_str(rows))
    except AssertionError:
        return "err:Assert", None
    insts = sorted(_inst(t) for t in s.instances())
    return f"{int(s.is_strop)} {len(insts)}" + "".join(" | " + i for i in insts), s


def canon_strop_reply(reply: str) -> str:
    if reply.startswith("err") or reply == "bad-op":
        return reply
    parts = reply.split(" | ")
    return parts[0] + "".join(" | " + i for i in sorted(parts[1:]))


# ---- private observation points (optional): looked up once; a missing / re-shaped private member only switches the
# ---- internal-stage correspondence stream off — the public API streams carry the property
PRIVATE_POINTS = ("_get_potential_trunks", "_get_trunks_matrix", "_row_interval")
PRIVATE: dict[str, bool] = {}


def probe_private() -> dict[str, bool]:
    """which private observation points exist and answer a smoke call in the expected shape."""
    PRIVATE.clear()
    for name in PRIVATE_POINTS:
        ok = hasattr(Strop, name)
        if ok:
            try:
                if name == "_get_potential_trunks":
                    r = getattr(Strop("1"), name)()
                    ok = sorted(_rect(x) for x in r) == ["0.0.0.0"]
                elif name == "_get_trunks_matrix":
                    r = getattr(Strop, name)([[True]])
                    ok = sorted(_rect(x) for x in r) == ["0.0.0.0"]
                else:
                    r = getattr(Strop, name)([False, True])
                    ok = (r.low, r.high) == (1, 1) and r.empty() is False
            except Exception:  # noqa: BLE001  (the harness's own access: never a finding)
                ok = False
        PRIVATE[name] = ok
    return PRIVATE


def private_call(fn, *args):
    """the harness's own use of a private member: any exception means 'observation not available here' (None)."""
    try:
        return fn(*args)
    except Exception:  # noqa: BLE001
        return None


def impl_pt(s: Strop):
    if not PRIVATE.get("_get_potential_trunks"):
        return None
    return private_call(lambda: " ".join(sorted(_rect(r) for r in getattr(s, "_get_potential_trunks")())))


def impl_tm(rows: list[str]):
    if not PRIVATE.get("_get_trunks_matrix"):
        return None
    m = [[c == "1" for c in r] for r in rows]
    return private_call(lambda: " ".join(sorted(_rect(r) for r in getattr(Strop, "_get_trunks_matrix")(m))))


def canon_list(reply: str) -> str:
    return " ".join(sorted(reply.split()))


def impl_rowiv(row: str):
    if not PRIVATE.get("_row_interval"):
        return None

    def go():
        i = getattr(Strop, "_row_interval")([c == "1" for c in row])
        return "empty" if i.empty() else _iv(i)
    return private_call(go)


def impl_which(rows: list[str], sel: str) -> str:
    try:
        s = Strop(rows_to_str(rows))
    except AssertionError:
        return "err:Assert"
    out = []
    for t in s.instances():
        try:
            rs = ",".join(_rect(r) for r in t.rectangles(sel))
        except AssertionError:
            rs = "err:Assert"
        out.append(_rect(t.trunk()) + " => " + rs)
    return f"{len(out)}" + "".join(" | " + o for o in sorted(out))


# ------------------------------------------------------------------ oracle and clauses (integers only)
def to_bool(rows: list[str]) -> list[list[int]]:
    return [[1 if c == "1" else 0 for c in r] for r in rows]


def trunk_ok(g, nr, nc, r1, r2, c1, c2) -> bool:
    """T = rows r1..r2 × cols c1..c2 is all ones and every other 1-cell is in T's cross, joined to T by ones."""
    for i in range(r1, r2 + 1):
        for j in range(c1, c2 + 1):
            if not g[i][j]:
                return False
    for i in range(nr):
        inr = r1 <= i <= r2
        for j in range(nc):
            if not g[i][j]:
                continue
            inc = c1 <= j <= c2
            if inr and inc:
                continue
            if not inr and not inc:
                return False
            if inc:
                rng = range(i + 1, r1) if i < r1 else range(r2 + 1, i)
                if any(not g[k][j] for k in rng):
                    return False
            else:
                rng = range(j + 1, c1) if j < c1 else range(c2 + 1, j)
                if any(not g[i][k] for k in rng):
                    return False
    return True


def oracle_exists_trunk(g) -> bool:
    nr, nc = len(g), len(g[0])
    for r1 in range(nr):
        for c1 in range(nc):
            if not g[r1][c1]:
                continue
            for r2 in range(r1, nr):
                if not g[r2][c1]:
                    break
                for c2 in range(c1, nc):
                    if not all(g[i][c2] for i in range(r1, r2 + 1)):
                        break
                    if trunk_ok(g, nr, nc, r1, r2, c1, c2):
                        return True
    return False


def instance_clauses(g, t) -> str | None:
    """None if the instance meets the specification, else the name of the failing clause."""
    nr, nc = len(g), len(g[0])
    T = t.trunk()
    r1, r2, c1, c2 = T.rows.low, T.rows.high, T.columns.low, T.columns.high
    if not (0 <= r1 <= r2 < nr and 0 <= c1 <= c2 < nc):
        return "trunk-in-grid"
    cover = [[0] * nc for _ in range(nr)]

    def paint(r) -> bool:
        if not (0 <= r.rows.low <= r.rows.high < nr and 0 <= r.columns.low <= r.columns.high < nc):
            return False
        for i in range(r.rows.low, r.rows.high + 1):
            for j in range(r.columns.low, r.columns.high + 1):
                cover[i][j] += 1
        return True

    if not paint(T):
        return "trunk-in-grid"
    for side in SIDES:
        for b in t.rectangles(side):
            if not paint(b):
                return "branch-in-grid"
            if side == "N" and not (b.rows.high + 1 == r1 and c1 <= b.columns.low and b.columns.high <= c2):
                return "abuts-north"
            if side == "S" and not (b.rows.low == r2 + 1 and c1 <= b.columns.low and b.columns.high <= c2):
                return "abuts-south"
            if side == "W" and not (b.columns.high + 1 == c1 and r1 <= b.rows.low and b.rows.high <= r2):
                return "abuts-west"
            if side == "E" and not (b.columns.low == c2 + 1 and r1 <= b.rows.low and b.rows.high <= r2):
                return "abuts-east"
    allr = [_rect(r) for r in t.rectangles()]
    per_side = [_rect(T)] + [_rect(r) for side in SIDES for r in t.rectangles(side)]
    if allr != per_side or [_rect(r) for r in t.rectangles("T")] != [_rect(T)] or \
            [_rect(r) for r in t.rectangles("B")] != per_side[1:]:
        return "rectangles-selectors"
    for i in range(nr):
        for j in range(nc):
            if cover[i][j] != g[i][j]:
                return "partition"
    return None


def spec_grid(rows: list[str], s: Strop) -> list[tuple[str, dict]]:
    """spec failures of one well-formed grid."""
    g = to_bool(rows)
    fails = []
    exists = oracle_exists_trunk(g)
    if bool(s.is_strop) != exists:
        fails.append(("isStrop_iff_exists_trunk", {"is_strop": bool(s.is_strop), "oracle": exists}))
    for t in s.instances():
        c = instance_clauses(g, t)
        if c is not None:
            fails.append(("instance_sound:" + c, {"instance": _inst(t)}))
    return fails


# ------------------------------------------------------------------ grid generators
def gen_strop_grid(rng, nr: int, nc: int) -> list[str]:
    """a single-trunk orthogon by construction: trunk + random side histograms."""
    r1 = rng.randrange(nr)
    r2 = rng.randrange(r1, nr)
    c1 = rng.randrange(nc)
    c2 = rng.randrange(c1, nc)
    g = [[0] * nc for _ in range(nr)]
    for i in range(r1, r2 + 1):
        for j in range(c1, c2 + 1):
            g[i][j] = 1
    step = rng.random() < 0.6  # piecewise-constant histograms give wide branches

    def hist(n, mx):
        out, v = [], rng.randint(0, mx)
        for _ in range(n):
            if not step or rng.random() < 0.4:
                v = rng.randint(0, mx) if rng.random() < 0.8 else 0
            out.append(v)
        return out

    for j, h in zip(range(c1, c2 + 1), hist(c2 - c1 + 1, r1)):
        for k in range(h):
            g[r1 - 1 - k][j] = 1
    for j, h in zip(range(c1, c2 + 1), hist(c2 - c1 + 1, nr - 1 - r2)):
        for k in range(h):
            g[r2 + 1 + k][j] = 1
    for i, h in zip(range(r1, r2 + 1), hist(r2 - r1 + 1, c1)):
        for k in range(h):
            g[i][c1 - 1 - k] = 1
    for i, h in zip(range(r1, r2 + 1), hist(r2 - r1 + 1, nc - 1 - c2)):
        for k in range(h):
            g[i][c2 + 1 + k] = 1
    return ["".join(map(str, r)) for r in g]


def flip(rng, rows: list[str]) -> list[str]:
    i = rng.randrange(len(rows))
    j = rng.randrange(len(rows[0]))
    r = rows[i]
    rows = list(rows)
    rows[i] = r[:j] + ("0" if r[j] == "1" else "1") + r[j + 1:]
    return rows


def gen_grid(rng) -> tuple[str, list[str]]:
    nr, nc = rng.randint(1, 8), rng.randint(1, 8)
    k = rng.random()
    if k < 0.30:
        p = rng.choice([0.3, 0.5, 0.7, 0.85, 0.95])
        return "random", ["".join("1" if rng.random() < p else "0" for _ in range(nc)) for _ in range(nr)]
    if k < 0.60:
        return "strop", gen_strop_grid(rng, nr, nc)
    if k < 0.80:
        rows = gen_strop_grid(rng, nr, nc)
        for _ in range(rng.randint(1, 2)):
            rows = flip(rng, rows)
        return "near-strop", rows
    if k < 0.85:  # staircase
        w = rng.randint(1, 3)
        return "staircase", ["".join("1" if (i <= j < i + w) ^ (rng.random() < 0.03) else "0" for j in range(nc)) for i in range(nr)]
    if k < 0.89:  # ring (hole)
        nr, nc = max(nr, 3), max(nc, 3)
        return "hole", ["".join("0" if 0 < i < nr - 1 and 0 < j < nc - 1 else "1" for j in range(nc)) for i in range(nr)]
    if k < 0.93:  # two blobs
        a = gen_strop_grid(rng, nr, max(1, nc // 2))
        b = gen_strop_grid(rng, nr, max(1, nc - nc // 2 - 1))
        return "disconnected", [x + "0" + y for x, y in zip(a, b)]
    if k < 0.96:
        return "full-or-empty", [rng.choice("01") * nc] * nr if rng.random() < 0.5 else ["1" * nc] * nr
    if k < 0.98:  # rows with two runs
        return "two-runs", ["".join(rng.choice("1101") for _ in range(nc)) for _ in range(nr)]
    # malformed: ragged / empty
    if rng.random() < 0.3:
        return "malformed", []
    rows = ["1" * nc for _ in range(max(2, nr))]
    rows[rng.randrange(len(rows))] = "1" * (nc + 1)
    return "malformed", rows


# ------------------------------------------------------------------ polygons from grids
def trace_boundary(g, keep_collinear=None) -> list[tuple[int, int]] | None:
    """counter-clockwise vertex loop (column index, row index; row index grows downwards) of the 1-cells, or None
    when the pattern is not one simple polygon (disconnected, hole, pinch point).  Collinear unit-step points are
    dropped unless `keep_collinear(point)` says otherwise."""
    nr, nc = len(g), len(g[0])

    def at(i, j):
        return 0 <= i < nr and 0 <= j < nc and g[i][j]

    edges = {}
    n_edges = 0
    for i in range(nr):
        for j in range(nc):
            if not g[i][j]:
                continue
            cand = []
            if not at(i + 1, j):
                cand.append(((j, i + 1), (j + 1, i + 1)))   # bottom, left→right
            if not at(i, j + 1):
                cand.append(((j + 1, i + 1), (j + 1, i)))   # right, upwards
            if not at(i - 1, j):
                cand.append(((j + 1, i), (j, i)))           # top, right→left
            if not at(i, j - 1):
                cand.append(((j, i), (j, i + 1)))           # left, downwards
            for a, b in cand:
                if a in edges:
                    return None  # pinch point
                edges[a] = b
                n_edges += 1
    if not edges:
        return None
    start = next(iter(edges))
    loop, p = [], start
    while True:
        loop.append(p)
        p = edges[p]
        if p == start:
            break
        if len(loop) > n_edges:
            return None
    if len(loop) != n_edges:
        return None  # more than one loop: hole or disconnected
    out = []
    for k, p in enumerate(loop):  # drop collinear points
        a, b = loop[k - 1], loop[(k + 1) % len(loop)]
        if ((a[0] == p[0] == b[0]) or (a[1] == p[1] == b[1])) and not (keep_collinear and keep_collinear(p)):
            continue
        out.append(p)
    return out


def shoelace(vs) -> Fraction:
    s = Fraction(0)
    for k, (x, y) in enumerate(vs):
        x2, y2 = vs[(k + 1) % len(vs)]
        s += Fraction(x) * Fraction(y2) - Fraction(x2) * Fraction(y)
    return s / 2


COORD_FAMILIES_Q = ["int", "half", "dyadic"]
COORD_FAMILIES_F = ["dec", "third", "float"]


def increasing(rng, n: int, fam: str) -> list[float]:
    base = {"int": 1, "half": 2, "dyadic": 8, "dec": 10, "third": 3, "float": 0}[fam]
    off = rng.randint(-6, 6)
    if fam == "float":
        vals, x = [], rng.uniform(-5, 5)
        for _ in range(n):
            vals.append(x)
            x += rng.uniform(0.05, 3.0)
        return vals
    ks, k = [], off * base
    for _ in range(n):
        ks.append(k)
        k += rng.randint(1, 3 * base)
    return [x / base for x in ks]


def gen_grown(rng, nr: int, nc: int) -> list[str]:
    """random polyomino grown from a seed cell (mostly not single-trunk when large)."""
    g = [[0] * nc for _ in range(nr)]
    cells = [(rng.randrange(nr), rng.randrange(nc))]
    g[cells[0][0]][cells[0][1]] = 1
    for _ in range(rng.randint(1, max(1, (nr * nc * 2) // 3))):
        i, j = rng.choice(cells)
        di, dj = rng.choice([(0, 1), (1, 0), (0, -1), (-1, 0)])
        if 0 <= i + di < nr and 0 <= j + dj < nc and not g[i + di][j + dj]:
            g[i + di][j + dj] = 1
            cells.append((i + di, j + dj))
    return ["".join(map(str, r)) for r in g]


TEMPLATES = [
    ["111", "100", "101", "111"],                       # G: hook not joined to the spine
    ["1111", "0001", "1101", "1001", "1111"],           # spiral
    ["100", "110", "011"],                              # three-step staircase (the docstring's non-STrOP)
    ["1100", "0110", "0011"],
    ["010", "111", "010"],                              # plus (two trunks)
    ["101", "111", "101"],                              # H
    ["110", "011"],                                     # Z
    ["0110", "1111", "0100"],
]


def gen_polygon(rng, mode: str):
    """(family, vertex list, source grid) — vertices of a grid pattern through random coordinate lists."""
    for _ in range(200):
        nr, nc = rng.randint(1, 6), rng.randint(1, 6)
        k = rng.random()
        if k < 0.55:
            fam, rows = "strop", gen_strop_grid(rng, nr, nc)
        elif k < 0.70:
            fam, rows = "near-strop", flip(rng, gen_strop_grid(rng, nr, nc))
        elif k < 0.85:
            fam, rows = "grown", gen_grown(rng, nr, nc)
        elif k < 0.89:
            t = rng.choice(TEMPLATES)
            if rng.random() < 0.5:
                t = ["".join(r[j] for r in t) for j in range(len(t[0]))]      # transpose
            if rng.random() < 0.5:
                t = t[::-1]
            if rng.random() < 0.5:
                t = [r[::-1] for r in t]
            rr = [rng.randint(1, 2) for _ in t]
            cc = [rng.randint(1, 2) for _ in t[0]]
            fam, rows = "template", [ "".join(ch * cc[j] for j, ch in enumerate(r)) for i, r in enumerate(t) for _ in range(rr[i])]
        elif k < 0.94:
            w = rng.randint(1, 2)
            fam, rows = "staircase", ["".join("1" if i <= j < i + w + 1 else "0" for j in range(nc)) for i in range(nr)]
        else:
            fam, rows = "random", ["".join("1" if rng.random() < 0.7 else "0" for _ in range(nc)) for _ in range(nr)]
        if not any("1" in r for r in rows):
            continue
        loop = trace_boundary(to_bool(rows))
        if loop is None:
            continue
        nr, nc = len(rows), len(rows[0])
        cf = rng.choice(COORD_FAMILIES_Q if mode == "Q" else COORD_FAMILIES_F)
        xs = increasing(rng, nc + 1, cf)
        ys = increasing(rng, nr + 1, cf)[::-1]  # row 0 is the top row
        vs = [(xs[j], ys[i]) for (j, i) in loop]
        if rng.random() < 0.25 and len(vs) >= 4:  # an extra collinear vertex (adds a grid line)
            k0 = rng.randrange(len(vs))
            a, b = vs[k0], vs[(k0 + 1) % len(vs)]
            mid = ((a[0] + b[0]) / 2, (a[1] + b[1]) / 2)
            vs = vs[:k0 + 1] + [mid] + vs[k0 + 1:]
            fam += "+collinear"
        if rng.random() < 0.5:
            vs = vs[::-1]
            fam += "/cw"
        else:
            fam += "/ccw"
        r = rng.randrange(len(vs))
        vs = vs[r:] + vs[:r]
        return fam + ":" + cf, vs, rows
    raise RuntimeError("polygon generator starved")


def sc(x, mode):
    return f2hex(x) if mode == "F" else q2s(Fraction(x))


def verts_req(vs, mode) -> str:
    return f"{len(vs)}" + "".join(f" {sc(x, mode)} {sc(y, mode)}" for x, y in vs)


def mk_vertices(vs, nd: bool):
    return [np.array([x, y]) for x, y in vs] if nd else [Point(x, y) for x, y in vs]


def impl_vgrid(vs, nd: bool) -> str:
    """the matrix `strop_decomposition` builds (same expressions, public `is_point_inside_polygon`)."""
    V = mk_vertices(vs, nd)
    xs = sorted(set(p.x if isinstance(p, Point) else p[0] for p in V))
    ys = sorted(set(p.y if isinstance(p, Point) else p[1] for p in V), reverse=True)
    rows = []
    for i in range(len(ys) - 1):
        r = ""
        for j in range(len(xs) - 1):
            cx = float((xs[j] + xs[j + 1]) / 2)
            cy = float((ys[i + 1] + ys[i]) / 2)
            r += "1" if is_point_inside_polygon(Point(cx, cy), V) else "0"
        rows.append(r)
    return f"{len(xs)} {len(ys)} {len(rows)}" + "".join(" " + (r if r else ".") for r in rows)


def impl_decomp(vs, nd: bool):
    try:
        return strop_decomposition(mk_vertices(vs, nd))
    except AssertionError:
        return "err:Assert"


def parse_cands(reply: str, mode: str):
    if reply.startswith("err") or reply == "bad-op":
        return reply
    parts = reply.split(" | ")[1:]
    out = []
    for p in parts:
        rects = []
        for r in p.split(" , "):
            rects.append([hex2f(t) if mode == "F" else Fraction(t) for t in r.split()])
        out.append(rects)
    return out


def decomp_matches(impl, cands, mode: str) -> tuple[bool, bool]:
    """(impl is one of the model's candidates up to tolerance, exactly)."""
    if isinstance(impl, str) or isinstance(cands, str):
        return impl == cands, impl == cands
    best = (False, False)
    for c in cands:
        if len(c) != len(impl):
            continue
        exact = all(Fraction(a) == Fraction(b) for ri, rc in zip(impl, c) for a, b in zip(ri, rc))
        if exact:
            return True, True
        if mode == "F":
            scale = max([1.0] + [abs(float(a)) for ri in impl for a in ri])
            if all(abs(float(a) - float(b)) <= 1e-9 * scale for ri, rc in zip(impl, c) for a, b in zip(ri, rc)):
                best = (True, False)
    return best


def spec_decomp(ctx: Ctx, inp, vs, rects, mode: str) -> None:
    """area = shoelace; loaded as a module: recognised, trunk first."""
    area = abs(shoelace(vs))
    tot = sum(Fraction(r[2]) * Fraction(r[3]) for r in rects)
    tol = Fraction(0) if mode == "Q" else Fraction(1, 10 ** 9) * max(Fraction(1), area)
    if abs(tot - area) > tol:
        ctx.spec_fail("rects_area", inp, {"shoelace": float(area), "rectangles": float(tot)}, size=len(vs))
    if any(not (r[2] > 0 and r[3] > 0) for r in rects):
        ctx.spec_fail("rects_positive", inp, {"rects": rects}, size=len(vs))
        return
    m = Module("M")
    for r in rects:
        m.add_rectangle(Rectangle(center=Point(r[0], r[1]), shape=Shape(r[2], r[3])))
    # the tolerance the netlist loader would define (Netlist._calculate_centers_and_rectangles … set_epsilon)
    import math
    smallest = min([min(r[2], r[3]) for r in rects] + [math.sqrt(sum(r[2] * r[3] for r in rects))])
    Rectangle.set_epsilon(smallest * 1e-12)
    try:
        ok = m.create_stog()
    finally:
        Rectangle.undefine_epsilon()
    if not ok:
        ctx.spec_fail("rects_recognised", inp, {"rects": rects}, size=len(vs))
        return
    first = m.rectangles[0]
    locs = [r.location.name for r in m.rectangles]
    if locs[0] != "TRUNK" or any(l not in ("NORTH", "SOUTH", "EAST", "WEST") for l in locs[1:]):
        ctx.spec_fail("rects_recognised:locations", inp, {"locations": locs}, size=len(vs))
    if [first.center.x, first.center.y, first.shape.w, first.shape.h] != list(rects[0]):
        ctx.spec_fail("rects_recognised:trunk_first", inp, {"first": [first.center.x, first.center.y, first.shape.w, first.shape.h],
                                                            "strop_trunk": rects[0]}, size=len(vs))
        return
    # theorem `rects_recognised`: the list keeps its order and every branch carries the side it lies on
    # (north = larger y, i.e. the rows above the trunk; east = larger x)
    got = [[r.center.x, r.center.y, r.shape.w, r.shape.h] for r in m.rectangles]
    if got != [list(r) for r in rects]:
        ctx.spec_fail("rects_recognised:order_kept", inp, {"after": got, "before": rects}, size=len(vs))
        return
    tx, ty, tw, th = (Fraction(v) for v in rects[0])
    expect = ["TRUNK"]
    for r in rects[1:]:
        cx, cy = Fraction(r[0]), Fraction(r[1])
        if abs(cx - tx) * 2 < tw:
            expect.append("NORTH" if cy > ty else "SOUTH")
        else:
            expect.append("EAST" if cx > tx else "WEST")
    if locs != expect:
        ctx.spec_fail("rects_recognised:roles", inp, {"locations": locs, "expected": expect}, size=len(vs))


# ------------------------------------------------------------------ cases
def _grid_impl(rows: list[str]):
    """everything the implementation says about one grid: (strop wire, pt wire or None, tm wire or None, is_strop, fails)."""
    fails: list = []
    r = guarded(fails, "Strop()", impl_strop, rows)
    impl, s = r if isinstance(r, tuple) else (r, None)
    if s is None and impl == "err:Assert" and well_formed(rows):
        fails.append(("operation-raised", {"operation": "Strop()", "exception": "AssertionError", "message": "well-formed grid"}))
    pt = tm = None
    is_strop = None
    if s is not None:
        pt = impl_pt(s)      # private observation points: None when not available (never a finding)
        tm = impl_tm(rows)
        r = guarded(fails, "instances()/rectangles()", spec_grid, rows, s)
        if isinstance(r, list):
            fails += r
        is_strop = bool(s.is_strop)
    return impl, pt, tm, is_strop, fails


def grid_case(ctx: Ctx, rows: list[str], fam: str, reqs, todo, count=True) -> None:
    inp = {"kind": "grid", "rows": rows}
    impl, pt, tm, is_strop, fails = _grid_impl(rows)
    reqs.append("G strop " + grid_req(rows))
    todo.append(("strop", inp, impl))
    if pt is not None:
        reqs.append("G pt " + grid_req(rows))
        todo.append(("pt", inp, pt))
    if tm is not None:
        reqs.append("G tm " + grid_req(rows))
        todo.append(("tm", inp, tm))
    for clause, detail in fails:
        ctx.spec_fail(clause, inp, detail, size=len(rows) * len(rows[0]) if rows else 0)
    if count:
        ctx.case("grid", tuple(rows), nontrivial=any("1" in r for r in rows),
                 sample={"rows": rows, "impl": impl[:200]})
        ctx.count("grid:" + fam)
        if is_strop is not None:
            ctx.count("is_strop:" + str(is_strop))


def _flush(ctx: Ctx, fails, inp, size=0) -> None:
    for clause, detail in fails:
        ctx.spec_fail(clause, inp, detail, size=size)


def which_case(ctx: Ctx, rows, sel, reqs, todo) -> None:
    inp = {"kind": "which", "rows": rows, "sel": sel}
    fails: list = []
    reqs.append(f"G which {sel if sel else '-'} " + grid_req(rows))
    todo.append(("which", inp, guarded(fails, "rectangles(which)", impl_which, rows, sel)))
    _flush(ctx, fails, inp, len(rows))
    ctx.case("which", (tuple(rows), sel), nontrivial=True)
    ctx.count("which")


def rowiv_case(ctx: Ctx, row: str, reqs, todo) -> None:
    inp = {"kind": "rowiv", "row": row}
    impl = impl_rowiv(row)
    if impl is None:     # private observation point not available
        return
    reqs.append("G rowiv " + (row if row else "."))
    todo.append(("rowiv", inp, impl))
    ctx.case("rowiv", row, nontrivial="1" in row)


def poly_case(ctx: Ctx, mode: str, fam: str, vs, nd: bool, reqs, todo, src_rows=None) -> None:
    inp = {"kind": "verts", "mode": mode, "verts": [[x, y] for x, y in vs], "nd": nd, "family": fam, "src_rows": src_rows}
    fails: list = []
    reqs.append(f"{mode} vgrid " + verts_req(vs, mode))
    todo.append(("vgrid", inp, guarded(fails, "is_point_inside_polygon", impl_vgrid, vs, nd)))
    res = guarded(fails, "strop_decomposition", impl_decomp, vs, nd)
    reqs.append(f"{mode} decomp " + verts_req(vs, mode))
    todo.append(("decomp", inp, res))
    _flush(ctx, fails, inp, len(vs))
    if not isinstance(res, str):
        fails = []
        guarded(fails, "create_stog", spec_decomp, ctx, inp, vs, res, mode)
        _flush(ctx, fails, inp, len(vs))
    if src_rows is not None and (isinstance(res, list) or res == "err:Assert"):
        # "reports a decomposition exactly when one exists": the polygon is the boundary of `src_rows`
        expect = oracle_exists_trunk(to_bool(src_rows))
        if expect != isinstance(res, list):
            ctx.spec_fail("decomposition_iff_exists_trunk", inp, {"oracle": expect, "impl": "rectangles" if isinstance(res, list) else res},
                          size=len(vs))
    ctx.case("verts-" + mode, (mode, tuple(vs), nd), nontrivial=True,
             sample={"mode": mode, "verts": inp["verts"], "impl": res if isinstance(res, str) else res[:3]})
    ctx.count("poly:" + fam.split(":")[0])
    ctx.count("decomp:" + ("ok" if isinstance(res, list) else res))


def _pip_impl(px, py, vs, nd) -> str:
    return str(int(is_point_inside_polygon(Point(px, py), mk_vertices(vs, nd))))


def pip_case(ctx: Ctx, rng, reqs, todo) -> None:
    """general (not necessarily orthogonal) polygons with small integer / half coordinates, exact in binary."""
    n = rng.randint(3, 7)
    vs = [(rng.randint(-8, 8) / 2, rng.randint(-8, 8) / 2) for _ in range(n)]
    px, py = rng.randint(-17, 17) / 4, rng.randint(-17, 17) / 4
    nd = rng.random() < 0.5
    inp = {"kind": "pip", "verts": [[x, y] for x, y in vs], "p": [px, py], "nd": nd}
    fails: list = []
    reqs.append(f"Q pip {sc(px, 'Q')} {sc(py, 'Q')} " + verts_req(vs, "Q"))
    todo.append(("pip", inp, guarded(fails, "is_point_inside_polygon", _pip_impl, px, py, vs, nd)))
    _flush(ctx, fails, inp, n)
    ctx.case("pip", (tuple(vs), px, py), nontrivial=True)
    ctx.count("pip")


def compare(ctx: Ctx, todo, replies) -> None:
    for (op, inp, impl), model in zip(todo, replies):
        if op == "strop":
            ok = impl == canon_strop_reply(model)
        elif op in ("pt", "tm"):
            ok = impl == canon_list(model)
        elif op == "which":
            ok = impl == canon_strop_reply(model)
        elif op == "decomp":
            ok, exact = decomp_matches(impl, parse_cands(model, inp["mode"]), inp["mode"])
            if ok and not exact:
                ctx.drift += 1
        elif op == "rcount":
            parts = model.split()
            ok = len(parts) == 2 and parts[0] == "1" and parts[1].isdigit() and str(int(parts[1]) % 2) == impl
        else:
            ok = impl == model
        if not ok:
            size = len(inp.get("rows", inp.get("verts", inp.get("row", ""))))
            ctx.disagree(op, inp, impl if isinstance(impl, str) else repr(impl), model[:600], size=size)


# ------------------------------------------------------------------ traced polygons: matrix, hypothesis monitor, closed form
def impl_decomp_captured(vs, nd: bool):
    """`strop_decomposition(vertices)` plus the rows of the 0/1 matrix it really hands to `Strop` (the module-level name
    `Strop` of utils.py is wrapped for the duration of the call; None when that observation point is not there)."""
    orig = getattr(UTILS_MOD, "Strop", None)
    if orig is None:
        return impl_decomp(vs, nd), None
    cap: list = []

    def spy(m, *a, **k):
        cap.append(m)
        return orig(m, *a, **k)

    UTILS_MOD.Strop = spy
    try:
        res = impl_decomp(vs, nd)
    finally:
        UTILS_MOD.Strop = orig
    rows = None
    if cap and isinstance(cap[0], str):
        rows = cap[0].split("\n")
        if rows and rows[-1] == "":
            rows = rows[:-1]
    return res, rows


def expected_matrix(vs, src_rows, xs_src, ys_src) -> list[str]:
    """the source pattern sampled at the centres of the cells of the pipeline's own grid (distinct vertex abscissae
    ascending × distinct ordinates descending).  Exact; no point-in-polygon test.  A centre that falls on a source grid
    line lies between two identical source columns / rows (a grid line without a vertex carries no boundary)."""
    import bisect
    X = sorted(set(Fraction(x) for x, _ in vs))
    Y = sorted(set(Fraction(y) for _, y in vs), reverse=True)
    xsrc = [Fraction(x) for x in xs_src]
    ysrc_asc = [Fraction(y) for y in ys_src][::-1]
    nr, nc = len(src_rows), len(src_rows[0])
    out = []
    for i in range(len(Y) - 1):
        cy = (Y[i] + Y[i + 1]) / 2
        ka = bisect.bisect_right(ysrc_asc, cy) - 1          # ascending gap index
        r = nr - 1 - ka
        row = ""
        for j in range(len(X) - 1):
            cx = (X[j] + X[j + 1]) / 2
            c = bisect.bisect_right(xsrc, cx) - 1
            row += src_rows[r][c] if 0 <= r < nr and 0 <= c < nc else "0"
        out.append(row)
    return out


def closed_form_inside(px, py, vs) -> bool:
    """parity of the vertical edges strictly to the right of the point whose half-open y-range contains its ordinate."""
    n, cnt = len(vs), 0
    for k in range(n):
        (x1, y1), (x2, y2) = vs[k], vs[(k + 1) % n]
        if x1 == x2 and ((y1 <= py < y2) or (y2 <= py < y1)) and px < x1:
            cnt += 1
    return cnt % 2 == 1


def traced_variant_case(ctx: Ctx, mode: str, fam: str, vs, nd: bool, sigma: int, src_rows, xs_src, ys_src, reqs, todo,
                        with_decomp: bool, rng=None) -> list[str] | None:
    """one vertex list of the traced-polygon stream; returns the captured matrix rows."""
    inp = {"kind": "traced", "mode": mode, "verts": [[x, y] for x, y in vs], "nd": nd, "family": fam, "sigma": sigma,
           "src_rows": src_rows, "xs": list(xs_src), "ys": list(ys_src), "with_decomp": with_decomp}
    fails: list = []
    expect = expected_matrix(vs, src_rows, xs_src, ys_src)
    r = guarded(fails, "strop_decomposition", impl_decomp_captured, vs, nd)
    res, cap = r if isinstance(r, tuple) else (r, None)
    _flush(ctx, fails, inp, len(vs))
    if cap is not None:
        if cap != expect:
            ctx.spec_fail("matrix_of_traced_polygon", inp, {"matrix": cap, "expected": expect}, size=len(vs))
        nx = len(set(x for x, _ in vs))
        ny = len(set(y for _, y in vs))
        reqs.append(f"{mode} vgrid " + verts_req(vs, mode))
        todo.append(("vgrid", inp, f"{nx} {ny} {len(cap)}" + "".join(" " + (r if r else ".") for r in cap)))
    else:
        ctx.count("traced:matrix-not-observable")
    # hypothesis of the theorems, evaluated by the model on the expected pattern
    reqs.append(f"{mode} traces {sigma} " + grid_req(expect) + " " + verts_req(vs, mode))
    todo.append(("traces", inp, "1 1 1 1"))
    exists = oracle_exists_trunk(to_bool(expect)) if well_formed(expect) else False
    if isinstance(res, list) or res == "err:Assert":
        if exists != isinstance(res, list):
            ctx.spec_fail("decomposition_iff_exists_trunk", inp, {"oracle": exists, "impl": "rectangles" if isinstance(res, list) else res},
                          size=len(vs))
    if isinstance(res, list):
        area = abs(shoelace(vs))
        tot = sum(Fraction(r[2]) * Fraction(r[3]) for r in res)
        tol = Fraction(0) if mode == "Q" else Fraction(1, 10 ** 9) * max(Fraction(1), area)
        if abs(tot - area) > tol:
            ctx.spec_fail("rects_area", inp, {"shoelace": float(area), "rectangles": float(tot)}, size=len(vs))
    if with_decomp:
        reqs.append(f"{mode} decomp " + verts_req(vs, mode))
        todo.append(("decomp", inp, res))
        if mode == "Q":
            reqs.append("Q shoelace " + verts_req(vs, "Q"))
            todo.append(("shoelace", inp, q2s(2 * shoelace(vs))))
    ctx.case("traced-" + mode, (mode, tuple(vs), nd), nontrivial=True,
             sample={"mode": mode, "verts": inp["verts"][:8], "matrix": cap})
    ctx.count("traced:" + ("strop" if exists else "not-strop"))
    return cap


def pip_closed_case(ctx: Ctx, mode: str, vs, nd: bool, px, py, reqs, todo) -> None:
    """`is_point_inside_polygon` on an axis-parallel loop vs the closed form (harness and model)."""
    inp = {"kind": "pipc", "mode": mode, "verts": [[x, y] for x, y in vs], "p": [px, py], "nd": nd}
    fails: list = []
    got = guarded(fails, "is_point_inside_polygon", _pip_impl, px, py, vs, nd)
    _flush(ctx, fails, inp, len(vs))
    if got in ("0", "1"):
        want = closed_form_inside(px, py, vs)
        if (got == "1") != want:
            ctx.spec_fail("pip_closed_form", inp, {"impl": got, "closed_form": int(want)}, size=len(vs))
        reqs.append(f"{mode} pip {sc(px, mode)} {sc(py, mode)} " + verts_req(vs, mode))
        todo.append(("pip", inp, got))
        reqs.append(f"{mode} rcount {sc(px, mode)} {sc(py, mode)} " + verts_req(vs, mode))
        todo.append(("rcount", inp, got))
    ctx.case("pip-closed-" + mode, (tuple(vs), px, py), nontrivial=True)
    ctx.count("pip-closed")


def gen_traced_source(rng, mode: str):
    """(family, rows, xs, ys): a grid pattern that is one simple polygon + strictly monotone coordinate lists."""
    for _ in range(300):
        nr, nc = rng.randint(1, 5), rng.randint(1, 5)
        k = rng.random()
        if k < 0.5:
            fam, rows = "strop", gen_strop_grid(rng, nr, nc)
        elif k < 0.65:
            fam, rows = "near-strop", flip(rng, gen_strop_grid(rng, nr, nc))
        elif k < 0.85:
            fam, rows = "grown", gen_grown(rng, nr, nc)
        elif k < 0.93:
            t = rng.choice(TEMPLATES)
            if rng.random() < 0.5:
                t = ["".join(r[j] for r in t) for j in range(len(t[0]))]
            if rng.random() < 0.5:
                t = t[::-1]
            fam, rows = "template", list(t)
        else:
            fam, rows = "random", ["".join("1" if rng.random() < 0.7 else "0" for _ in range(nc)) for _ in range(nr)]
        if not any("1" in r for r in rows) or trace_boundary(to_bool(rows)) is None:
            continue
        nr, nc = len(rows), len(rows[0])
        cf = rng.choice(COORD_FAMILIES_Q if mode == "Q" else ["dec", "float"])
        return fam + ":" + cf, rows, increasing(rng, nc + 1, cf), increasing(rng, nr + 1, cf)[::-1]
    raise RuntimeError("traced-polygon generator starved")


def traced_family(ctx: Ctx, rng, mode: str, reqs, todo) -> None:
    """one source pattern: every start vertex × both orientations × a collinear-point policy."""
    fam, rows, xs, ys = gen_traced_source(rng, mode)
    pol = rng.choice(["drop", "keep-all", "keep-some"])
    keep = None if pol == "drop" else ((lambda p: True) if pol == "keep-all" else (lambda p, r=rng.random: r() < 0.5))
    loop = trace_boundary(to_bool(rows), keep)
    base = [(xs[j], ys[i]) for (j, i) in loop]
    nd = rng.random() < 0.4
    n = len(base)
    mats = set()
    k_dec = rng.randrange(n)
    for sigma, seq in ((1, base), (-1, base[::-1])):
        for r in range(n):
            vs = seq[r:] + seq[:r]
            cap = traced_variant_case(ctx, mode, f"{fam}/{pol}", vs, nd, sigma, rows, xs, ys, reqs, todo,
                                      with_decomp=(r == k_dec))
            if cap is not None:
                mats.add(tuple(cap))
    if len(mats) > 1:
        ctx.spec_fail("matrix_start_orientation_indep", {"kind": "traced-family", "mode": mode, "src_rows": rows, "xs": xs, "ys": ys,
                                                          "policy": pol}, {"matrices": sorted(mats)[:4]}, size=n)
    # closed form of the even–odd test: centres, grid-line points (on the boundary too), vertices, outside points
    X = sorted(set(x for x, _ in base))
    Y = sorted(set(y for _, y in base))
    pts = []
    cand_x = X + [(a + b) / 2 for a, b in zip(X, X[1:])] + [X[0] - 1, X[-1] + 1]
    cand_y = Y + [(a + b) / 2 for a, b in zip(Y, Y[1:])] + [Y[0] - 1, Y[-1] + 1]
    for _ in range(6):
        pts.append((rng.choice(cand_x), rng.choice(cand_y)))
    vs = base if rng.random() < 0.5 else base[::-1]
    r = rng.randrange(n)
    vs = vs[r:] + vs[:r]
    for px, py in pts:
        pip_closed_case(ctx, mode, vs, nd, px, py, reqs, todo)


def histogram_family(ctx: Ctx, rng, mode: str, reqs, todo) -> None:
    """the class of theorem `histogram_traces` exactly as `histLoop` builds it (clockwise; equal neighbouring heights give
    a repeated vertex, i.e. a zero-length edge): matrix = `histGrid`, from random start vertices, both orientations."""
    n = rng.randint(1, 6)
    cf = rng.choice(COORD_FAMILIES_Q if mode == "Q" else ["dec", "float"])
    xs = increasing(rng, n + 1, cf)
    levels = increasing(rng, rng.randint(2, 5), cf)          # levels[0] = base line, the others are possible heights
    b, hs = levels[0], [rng.choice(levels[1:]) for _ in range(n)]
    vs = [(xs[0], b)]
    for j in range(n):
        vs += [(xs[j], hs[j]), (xs[j + 1], hs[j])]
    vs.append((xs[n], b))
    ys = sorted(set([b] + hs), reverse=True)
    rows = ["".join("1" if ys[i] <= hs[j] else "0" for j in range(n)) for i in range(len(ys) - 1)]
    nd = rng.random() < 0.4
    for sigma, seq in ((-1, vs), (1, vs[::-1])):
        for r in {0, rng.randrange(len(seq)), rng.randrange(len(seq))}:
            traced_variant_case(ctx, mode, "histogram:" + cf, seq[r:] + seq[:r], nd, sigma, rows, xs, ys, reqs, todo,
                                with_decomp=(r == 0))
    ctx.count("histogram:" + ("repeated-vertex" if any(a == b2 for a, b2 in zip(hs, hs[1:])) else "distinct-neighbours"))


def impl_mk(rows: list[str], r1: int, r2: int, c1: int, c2: int) -> str:
    s = Strop(rows_to_str(rows))
    t = STROP_MOD.StropInstance(s, STROP_MOD.StropRectangle(STROP_MOD.Interval(r1, r2), STROP_MOD.Interval(c1, c2)))
    return _inst(t) if t.valid() else "invalid"


def mk_case(ctx: Ctx, rows: list[str], rect, reqs, todo) -> None:
    """`StropInstance(Strop(grid), trunk)` for an arbitrary in-grid trunk rectangle (also non-candidates: the cell-count
    test answers `_valid == False`, a path `Strop` itself never takes)."""
    r1, r2, c1, c2 = rect
    inp = {"kind": "mk", "rows": rows, "rect": [r1, r2, c1, c2]}
    fails: list = []
    got = guarded(fails, "StropInstance()", impl_mk, rows, r1, r2, c1, c2)
    _flush(ctx, fails, inp, len(rows))
    reqs.append(f"G mk {r1} {r2} {c1} {c2} " + grid_req(rows))
    todo.append(("mk", inp, got))
    if isinstance(got, str) and not got.startswith("raised:"):
        # spec (theorem `valid_iff_count`): for an ALL-ONES rectangle, valid <=> every other 1-cell hangs on it (the
        # brute-force trunk test); for other rectangles the cell count can coincide by accident: model comparison only
        g = to_bool(rows)
        ones = all(g[i][j] for i in range(r1, r2 + 1) for j in range(c1, c2 + 1))
        ok = trunk_ok(g, len(g), len(g[0]), r1, r2, c1, c2)
        if ones and ok != (got != "invalid"):
            ctx.spec_fail("instance_valid_iff_trunk", inp, {"impl": got, "oracle": ok}, size=len(rows) * len(rows[0]))
    ctx.case("mk", (tuple(rows), rect), nontrivial=True)
    ctx.count("mk:" + ("valid" if got != "invalid" else "invalid"))


# ------------------------------------------------------------------ decimal coordinates, loaded through Netlist
FINDING_DECIMAL = "C15-decimal-decomposition"
# the finding's region: the netlist's distance tolerance 1e-12·(smallest dimension) is not above the rounding of the
# sides cx ± w/2 (≤ ~2 ulp ≈ 4.5e-16·|coordinate| for each of the two rectangles)
REGION_RATIO = 4.5e-4


def decimal_lines(rng, n: int, thin: bool) -> list[float]:
    """n increasing one-decimal coordinates with magnitudes 10..1000.  `thin=False`: gaps ≥ 2 with (usually) one
    narrow gap of 2..4 — long contacts next to a small side, outside the finding's region (2/1000 > 4.5e-4);
    `thin=True`: one gap of 0.1..0.3 (inside the region when the coordinates are large)."""
    while True:
        hi = rng.choice([100, 300, 1000, 1000])
        v = sorted({rng.randint(100, hi * 10) for _ in range(n)})          # tenths
        if len(v) != n:
            continue
        if n >= 2 and rng.random() < 0.7:
            k = rng.randrange(n - 1)
            v[k + 1] = v[k] + (rng.randint(1, 3) if thin else rng.randint(20, 40))
            v = sorted(set(v))
            if len(v) != n:
                continue
        gaps = [b - a for a, b in zip(v, v[1:])]
        if thin or all(g >= 20 for g in gaps):
            return [x / 10 for x in v]


def netlist_loads(rects):
    """load the rectangles as the only module of a netlist in a clean tolerance state; (has_stog, roles, rects after)."""
    Rectangle.undefine_epsilon()
    try:
        net = Netlist("Modules: {M: {area: %r, rectangles: %s}}\nNets: []\n"
                      % (float(sum(r[2] * r[3] for r in rects)), [list(map(float, r)) for r in rects]))
        m = net.get_module("M")
        return bool(m.has_stog), [r.location.name for r in m.rectangles], \
            [[r.center.x, r.center.y, r.shape.w, r.shape.h] for r in m.rectangles], Rectangle.distance_epsilon()
    finally:
        Rectangle.undefine_epsilon()


def recognised_with_floor(rects, eps: float) -> bool:
    """would `create_stog` recognise the list under the distance tolerance `eps` (area tolerance sqrt(eps))?"""
    m = Module("M")
    for r in rects:
        m.add_rectangle(Rectangle(center=Point(r[0], r[1]), shape=Shape(r[2], r[3])))
    Rectangle.set_epsilon(eps)
    try:
        return bool(m.create_stog()) and m.rectangles[0].location.name == "TRUNK" and \
            [m.rectangles[0].center.x, m.rectangles[0].center.y] == [rects[0][0], rects[0][1]]
    finally:
        Rectangle.undefine_epsilon()


def expected_roles(rects) -> list[str]:
    tx, ty, tw, _ = (Fraction(v) for v in rects[0])
    out = ["TRUNK"]
    for r in rects[1:]:
        cx, cy = Fraction(r[0]), Fraction(r[1])
        out.append(("NORTH" if cy > ty else "SOUTH") if abs(cx - tx) * 2 < tw else ("EAST" if cx > tx else "WEST"))
    return out


def decimal_case(ctx: Ctx, vs, nd: bool, fam: str) -> None:
    """last clause of C15 on ordinary decimal coordinates: decompose, load through `Netlist` (tolerances derived by the
    netlist itself), require has_stog, trunk first, order kept, side roles."""
    inp = {"kind": "decimal", "verts": [[x, y] for x, y in vs], "nd": nd, "family": fam}
    fails: list = []
    rects = guarded(fails, "strop_decomposition", impl_decomp, vs, nd)
    if isinstance(rects, str):
        if rects == "err:Assert":
            fails.append(("decomposition_iff_exists_trunk", {"oracle": True, "impl": rects}))
        _flush(ctx, fails, inp, len(vs))
        ctx.case("decimal", tuple(vs), nontrivial=True)
        return
    res = guarded(fails, "Netlist(module from decomposition)", netlist_loads, rects)
    _flush(ctx, fails, inp, len(vs))
    ctx.case("decimal", (tuple(vs), nd), nontrivial=len(rects) > 1,
             sample={"verts": inp["verts"], "rects": rects[:3]})
    ctx.count("decimal:" + fam)
    if isinstance(res, str):
        return
    has_stog, roles, after, eps = res
    ok = has_stog and after == [list(map(float, r)) for r in rects] and roles == expected_roles(rects)
    if ok:
        return
    # attribute to the open finding only inside its region and only if flooring the tolerance at the coordinates'
    # rounding (1e-14·largest |coordinate|) makes the very same list recognised
    smallest = min([min(r[2], r[3]) for r in rects] + [sum(r[2] * r[3] for r in rects) ** 0.5])
    largest = max(max(abs(r[0]) + r[2] / 2, abs(r[1]) + r[3] / 2) for r in rects)
    in_region = smallest <= REGION_RATIO * largest
    finding = None
    if in_region and not has_stog:
        floor_ok = guarded([], "create_stog", recognised_with_floor, rects, max(eps, 1e-14 * largest))
        if floor_ok is True:
            finding = FINDING_DECIMAL
    ctx.count("decimal:not-recognised" + (":finding" if finding else ""))
    # which of the two mechanisms of the finding: rounding of cx ± w/2, or ε absorbed in `x - ε` (sides bit-exact)
    lines_x, lines_y = {float(x) for x, _ in vs}, {float(y) for _, y in vs}
    sides_exact = all((r[0] - r[2] / 2) in lines_x and (r[0] + r[2] / 2) in lines_x and
                      (r[1] - r[3] / 2) in lines_y and (r[1] + r[3] / 2) in lines_y for r in rects)
    ctx.count("decimal:not-recognised:" + ("sides-bit-exact(absorbed-epsilon)" if sides_exact else "sides-rounded"))
    ctx.spec_fail("netlist_recognised", inp, {"has_stog": has_stog, "roles": roles, "expected": expected_roles(rects),
                                              "rects": rects, "epsilon": eps, "smallest/largest": smallest / largest},
                  size=len(vs), finding=finding)


def gen_decimal_polygon(rng, thin: bool):
    for _ in range(200):
        nr, nc = rng.randint(1, 5), rng.randint(1, 5)
        rows = gen_strop_grid(rng, nr, nc)
        loop = trace_boundary(to_bool(rows))
        if loop is None or len(loop) <= 4:
            continue
        xs = decimal_lines(rng, nc + 1, thin)
        ys = decimal_lines(rng, nr + 1, thin)[::-1]
        vs = [(xs[j], ys[i]) for (j, i) in loop]
        if rng.random() < 0.5:
            vs = vs[::-1]
        k = rng.randrange(len(vs))
        return vs[k:] + vs[:k]
    raise RuntimeError("decimal polygon generator starved")


def gen_offset_dyadic_polygon(rng):
    """single-trunk polygon on half-integer grid lines next to 2^20 / 2^22: every sum, half and difference is exact in
    binary64 (the recomputed sides ARE the grid lines) while the netlist's ε = 1e-12·smallest is far below ulp/2 of the
    coordinates — the second mechanism of the open finding (findings/C15_flush_branch_absorbed_epsilon.py)."""
    for _ in range(200):
        nr, nc = rng.randint(1, 4), rng.randint(1, 4)
        rows = gen_strop_grid(rng, nr, nc)
        loop = trace_boundary(to_bool(rows))
        if loop is None or len(loop) <= 4:
            continue
        base = float(2 ** rng.choice([20, 22]))

        def lines(n):
            out, k = [], rng.randint(0, 8)
            for _ in range(n):
                out.append(base + k / 2)
                k += rng.randint(1, 6)
            return out
        xs, ys = lines(nc + 1), lines(nr + 1)[::-1]
        vs = [(xs[j], ys[i]) for (j, i) in loop]
        if rng.random() < 0.5:
            vs = vs[::-1]
        k = rng.randrange(len(vs))
        return vs[k:] + vs[:k]
    raise RuntimeError("offset-dyadic polygon generator starved")


# ------------------------------------------------------------------ exhaustive tier (multiprocessing)
def _exh_worker(args):
    """one chunk of the exhaustive stream, entirely inside the worker: implementation, oracle, clauses and (when the
    driver is available) the Lean model on the same grids; returns counts and the failures only."""
    nr, nc, lo, hi, exe = args
    reqs, todo, fails_out = [], [], []
    n = pos = nontriv = 0
    for bits in range(lo, hi):
        rows = [format((bits >> (nc * r)) & ((1 << nc) - 1), f"0{nc}b") for r in range(nr)]
        impl, pt, _tm, is_strop, fails = _grid_impl(rows)
        n += 1
        pos += bool(is_strop)
        nontriv += bits != 0
        for clause, detail in fails:
            fails_out.append((clause, rows, detail))
        reqs.append("G strop " + grid_req(rows))
        todo.append(("strop", rows, impl))
        if pt is not None:
            reqs.append("G pt " + grid_req(rows))
            todo.append(("pt", rows, pt))
    dis = []
    if exe is not None:
        from vcheck import run_driver
        for (op, rows, impl), model in zip(todo, run_driver(reqs, exe)):
            ok = impl == (canon_strop_reply(model) if op == "strop" else canon_list(model))
            if not ok and len(dis) < 20:
                dis.append((op, rows, impl, model[:600]))
    return n, pos, nontriv, fails_out[:50], dis


def exhaustive(ctx: Ctx, sizes) -> None:
    exe = ctx.lean.drivers[0] if ctx.model_available else None
    jobs = []
    for nr, nc in sizes:
        tot = 1 << (nr * nc)
        chunk = max(1, min(4096, tot // 64 or 1))
        for lo in range(0, tot, chunk):
            jobs.append((nr, nc, lo, min(tot, lo + chunk), exe))
    n = pos = nontriv = 0
    with multiprocessing.get_context("fork").Pool(min(16, multiprocessing.cpu_count())) as pool:
        for cn, cpos, cnt, fails, dis in pool.imap_unordered(_exh_worker, jobs, chunksize=1):
            n += cn
            pos += cpos
            nontriv += cnt
            for clause, rows, detail in fails:
                ctx.spec_fail(clause, {"kind": "grid", "rows": rows}, detail, size=len(rows) * len(rows[0]))
            for op, rows, impl, model in dis:
                ctx.disagree(op, {"kind": "grid", "rows": rows}, impl, model, size=len(rows) * len(rows[0]))
    ctx.evaluations += n
    # distinct non-trivial cases: every non-zero grid of every size is distinct (compact integer keys)
    for nr, nc in sizes:
        base = (nr * 8 + nc) << 32
        ctx._distinct.update(range(base + 1, base + (1 << (nr * nc))))
    ctx.extra["exhaustive_nontrivial"] = nontriv
    ctx.streams["exhaustive-grid"] = ctx.streams.get("exhaustive-grid", 0) + n
    ctx.extra["exhaustive_sizes"] = [f"{a}x{b}" for a, b in sizes]
    ctx.extra["exhaustive_grids"] = n
    ctx.extra["exhaustive_strops"] = pos
    if exe is None:
        ctx.notes.append("exhaustive stream ran without the model (driver unavailable)")


def exhaustive_sizes(tier: str):
    if tier == "thorough":
        s = {(a, b) for a in range(1, 5) for b in range(1, 5)}
        s |= {(a, 5) for a in range(1, 5)} | {(5, b) for b in range(1, 5)}
    else:
        s = {(a, b) for a in range(1, 5) for b in range(1, 5)}
    return sorted(s)


# ------------------------------------------------------------------ entry points
CORPUS = [
    ["00000001100", "00001101100", "00011111110", "01111111111", "01111111111", "00011111110"],  # docstring STrOP
    ["110", "011", "001"],            # docstring non-STrOP
    ["010", "111", "010"],            # plus: two trunks
    ["111", "101", "111"],            # hole
    ["101"], ["1", "0", "1"],         # disconnected
    ["0"], ["1"], ["00", "00"],       # empty polygon
    ["11", "11"], ["10", "11"], ["1011", "1111"],
    ["0110", "1111", "1111", "0110"],
    [], ["11", "1"], ["1", "11"],     # malformed
]


def _note_private(ctx: Ctx) -> None:
    avail = probe_private()
    ctx.extra["private_observation_points"] = dict(avail)
    for name, ok in avail.items():
        if not ok:
            ctx.notes.append(f"observation point Strop.{name} not available: internal-stage correspondence skipped; "
                             "public behaviour still compared")


def run(ctx: Ctx) -> None:
    ctx.rule = ("grids: every 0/1 grid of the listed sizes (exhaustive stream, run in 16 worker processes through implementation, "
                "brute-force oracle, instance clauses and Lean model: quick all sizes ≤4×4; thorough all sizes ≤4×5 and ≤5×4, "
                "2 239 888 grids) plus random grids up to 8×8 from 9 families (uniform density, single-trunk orthogons by construction, "
                "the same with 1–2 flipped cells, staircases, rings, disconnected, full/empty, multi-run rows, malformed); "
                "vertex lists: boundary of a random grid pattern (75% STrOPs, 15% one flipped cell, 10% random; rejected unless "
                "one simple polygon) through random increasing coordinate lists (exact: int/half/dyadic → Rat model; "
                "decimal/thirds/uniform doubles → Float model), either orientation, random start, 25% with an extra "
                "collinear vertex, as Point lists and as numpy arrays; point-in-polygon additionally on random general "
                "polygons with half-integer coordinates; traced-polygon families: one source pattern (50% STrOPs, flipped, grown, "
                "templates, random) × exact or decimal/uniform coordinate lists × {collinear points dropped, all kept, half kept} × both "
                "orientations × EVERY start vertex (captured matrix vs the source pattern, `tracesGrid` monitor, iff-oracle, area, "
                "closed form of the even–odd test on centres / grid-line points / outside points); StropInstance on arbitrary in-grid "
                "trunk rectangles.  non-trivial = grid with at least one 1 / every vertex list; "
                "distinct = distinct grid / vertex list")
    ctx.assumptions.append("vertex lists describe simple orthogonal polygons (generated as boundaries of grid patterns); "
                           "coordinates are finite doubles, no NaN / signed zeros")
    ctx.notes.append("all-zero grid: no potential trunk, is_strop=False, no instance (oracle: no non-empty trunk exists); "
                     "empty or ragged matrix: AssertionError = err:Assert")
    _note_private(ctx)
    rng = ctx.rng
    reqs, todo = [], []
    seeds = getattr(ctx, "seed_inputs", [])
    for inp in seeds:
        _replay_into(ctx, inp, reqs, todo)
    for rows in CORPUS:
        grid_case(ctx, rows, "corpus", reqs, todo)
    if ctx.budget <= 1.0:
        exhaustive(ctx, exhaustive_sizes(ctx.tier))
    for _ in range(ctx.n(10000, 100000)):
        fam, rows = gen_grid(rng)
        grid_case(ctx, rows, fam, reqs, todo)
        if rng.random() < 0.1 and rows:
            sel = rng.choice(["", "T", "B", "N", "S", "E", "W", "NS", "EWT", "TB", "X", "NQ", "NSEWTB"])
            which_case(ctx, rows, sel, reqs, todo)
    for _ in range(ctx.n(300, 3000)):
        n = rng.randint(0, 9)
        rowiv_case(ctx, "".join(rng.choice("01") for _ in range(n)), reqs, todo)
    for k in range(ctx.n(2000, 12000)):
        mode = "Q" if k % 2 == 0 else "F"
        fam, vs, src = gen_polygon(rng, mode)
        poly_case(ctx, mode, fam, vs, rng.random() < 0.4, reqs, todo, src_rows=src)
    for _ in range(ctx.n(2000, 20000)):
        pip_case(ctx, rng, reqs, todo)
    for k in range(ctx.n(160, 2500)):
        traced_family(ctx, rng, "Q" if k % 3 != 2 else "F", reqs, todo)
    for k in range(ctx.n(120, 1500)):
        histogram_family(ctx, rng, "Q" if k % 3 != 2 else "F", reqs, todo)
    for _ in range(ctx.n(3000, 30000)):
        fam, rows = gen_grid(rng)
        if not well_formed(rows):
            continue
        nr, nc = len(rows), len(rows[0])
        r1 = rng.randrange(nr)
        c1 = rng.randrange(nc)
        mk_case(ctx, rows, (r1, rng.randrange(r1, nr), c1, rng.randrange(c1, nc)), reqs, todo)
    for k in range(ctx.n(700, 8000)):
        thin = k % 7 == 6
        decimal_case(ctx, gen_decimal_polygon(rng, thin), rng.random() < 0.4, "thin-gap" if thin else "gaps>=2")
    for _ in range(ctx.n(12, 120)):
        decimal_case(ctx, gen_offset_dyadic_polygon(rng), rng.random() < 0.4, "offset-dyadic")
    replies = ctx.model(reqs)
    if replies is None:
        ctx.notes.append("model driver unavailable: correspondence not run")
        return
    compare(ctx, todo, replies)


def _replay_into(ctx: Ctx, inp: dict, reqs, todo) -> None:
    kind = inp.get("kind")
    if kind == "grid":
        grid_case(ctx, list(inp["rows"]), "replay", reqs, todo)
    elif kind == "which":
        which_case(ctx, list(inp["rows"]), inp["sel"], reqs, todo)
    elif kind == "rowiv":
        rowiv_case(ctx, inp["row"], reqs, todo)
    elif kind == "verts":
        poly_case(ctx, inp["mode"], inp.get("family", "replay"), [tuple(v) for v in inp["verts"]], inp["nd"], reqs, todo,
                  src_rows=inp.get("src_rows"))
    elif kind == "decimal":
        decimal_case(ctx, [tuple(v) for v in inp["verts"]], inp["nd"], inp.get("family", "replay"))
    elif kind == "traced":
        traced_variant_case(ctx, inp["mode"], inp.get("family", "replay"), [tuple(v) for v in inp["verts"]], inp["nd"],
                            inp["sigma"], inp["src_rows"], inp["xs"], inp["ys"], reqs, todo, with_decomp=True)
    elif kind == "traced-family":
        rows, xs, ys = inp["src_rows"], inp["xs"], inp["ys"]
        loop = trace_boundary(to_bool(rows), (lambda p: True) if inp.get("policy") == "keep-all" else None)
        base = [(xs[j], ys[i]) for (j, i) in loop]
        for sigma, seq in ((1, base), (-1, base[::-1])):
            for r in range(len(seq)):
                traced_variant_case(ctx, inp["mode"], "replay", seq[r:] + seq[:r], False, sigma, rows, xs, ys, reqs, todo,
                                    with_decomp=False)
    elif kind == "pipc":
        px, py = inp["p"]
        pip_closed_case(ctx, inp["mode"], [tuple(v) for v in inp["verts"]], inp["nd"], px, py, reqs, todo)
    elif kind == "mk":
        mk_case(ctx, list(inp["rows"]), tuple(inp["rect"]), reqs, todo)
    elif kind == "pip":
        vs = [tuple(v) for v in inp["verts"]]
        px, py = inp["p"]
        fails: list = []
        reqs.append(f"Q pip {sc(px, 'Q')} {sc(py, 'Q')} " + verts_req(vs, "Q"))
        todo.append(("pip", inp, guarded(fails, "is_point_inside_polygon", _pip_impl, px, py, vs, inp["nd"])))
        _flush(ctx, fails, inp, len(vs))


def replay(ctx: Ctx, body: dict) -> None:
    _note_private(ctx)
    reqs, todo = [], []
    _replay_into(ctx, body["input"], reqs, todo)
    replies = ctx.model(reqs)
    if replies:
        compare(ctx, todo, replies)

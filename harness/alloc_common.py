"""Shared machinery of the C02 / C12 checks (allocation refinement).

* generation of non-overlapping cell layouts (guillotine partitions with holes, slivers, offsets), occupancy maps
  (including empty ones), depths, fixed cells, invalid descriptors, and operation histories;
* running the real `frame.allocation.allocation.Allocation` on a history and printing it in the wire format of the
  Lean driver `drv_alloc` (`FV/Drv/Alloc.lean`);
* exact (`fractions.Fraction`) evaluation of the property clauses on what the implementation returned.
"""
from __future__ import annotations

from fractions import Fraction
from typing import Any

from vcheck import Ctx, f2hex, hex2f, q2s
from frame.geometry.geometry import Rectangle, Point, Shape
from frame.allocation.allocation import Allocation

RHO = Fraction(1, 100)          # the 1% of the property text
MAX_CELLS = 96


def sc(x, mode: str) -> str:
    return f2hex(x) if mode == "F" else q2s(Fraction(x))


# --------------------------------------------------------------------------------------------- generation
def _coord(rng, fam: str, lo: int, hi: int):
    if fam == "int":
        return float(rng.randint(lo, hi))
    if fam == "half":
        return rng.randint(2 * lo, 2 * hi) / 2
    if fam == "dyadic":
        return rng.randint(8 * lo, 8 * hi) / 8
    if fam == "dec":
        return rng.randint(10 * lo, 10 * hi) / 10
    if fam == "third":
        return rng.randint(3 * lo, 3 * hi) / 3
    if fam.startswith("big"):          # one-decimal coordinates at magnitude 10^k (dies in micrometres / nanometres)
        S = 10 ** int(fam[3:])
        return rng.randint(10 * lo * S, 10 * hi * S) / 10
    return rng.uniform(lo, hi)


Q_FAMS = ["int", "half", "dyadic", "dyadic"]
F_FAMS = ["dec", "dec", "third", "float", "half", "big3", "big4", "big5"]
Q_RATIOS = [0.0, 0.125, 0.25, 0.5, 0.5, 0.75, 0.875, 1.0]
F_RATIOS = [0.0, 0.1, 0.3, 0.65, 0.7, 0.85, 0.95, 1.0, 0.5]
MODS = ["M1", "M2", "M3", "_a", "B_7"]


def gen_boxes(rng, mode: str, fam: str):
    """a guillotine partition of a die into 1..9 boxes (x0,y0,x1,y1); cuts may be slivers."""
    big = fam.startswith("big")
    mag = float(10 ** int(fam[3:])) if big else 1.0
    p_off = 0.6 if big else 0.3        # cells away from the origin: `xmin + w/2` rounds
    ox = _coord(rng, fam, 0, 3) if rng.random() < p_off else 0.0
    oy = _coord(rng, fam, 0, 3) if rng.random() < p_off else 0.0
    W = max(_coord(rng, fam, 1, 8), mag)
    H = max(_coord(rng, fam, 1, 8), mag)
    if rng.random() < 0.15 and not big:   # long thin die (not at magnitude 1e5: see findings/C02_huge_die_overlap.json)
        W, H = (W, H * 8) if rng.random() < 0.5 else (W * 8, H)
    boxes = [(ox, oy, ox + W, oy + H)]
    target = rng.choice([1, 2, 3, 3, 4, 5, 5, 6, 7, 9])
    sliver = (1 / 128 if mode == "Q" else 0.01) * mag
    tries = 0
    while len(boxes) < target and tries < 40:
        tries += 1
        i = rng.randrange(len(boxes))
        x0, y0, x1, y1 = boxes[i]
        horiz = rng.random() < 0.5
        lo, hi = (x0, x1) if horiz else (y0, y1)
        r = rng.random()
        if r < 0.15:
            c = lo + sliver * rng.choice([1, 2, 4])
        elif r < 0.25:
            c = hi - sliver * rng.choice([1, 2, 4])
        elif r < 0.45:
            c = (lo + hi) / 2
        else:
            c = _coord(rng, fam, int(lo / mag), int(hi / mag) + 1)
        if not (lo < c < hi) or min(c - lo, hi - c) < sliver / 2:
            continue
        boxes[i] = (x0, y0, c, y1) if horiz else (x0, y0, x1, c)
        boxes.append((c, y0, x1, y1) if horiz else (x0, c, x1, y1))
    if len(boxes) > 2 and rng.random() < 0.2:
        boxes.pop(rng.randrange(len(boxes)))      # a hole
    rng.shuffle(boxes)
    return boxes


def gen_alloc(rng, mode: str, nmods: int):
    ratios = Q_RATIOS if mode == "Q" else F_RATIOS
    k = rng.choice([0, 1, 1, 2, 2, 3])
    names = rng.sample(MODS[:nmods], min(k, nmods))
    return [[m, rng.choice(ratios)] for m in names]


def gen_input(rng, mode: str, flavour: str = "mixed") -> dict:
    fam = rng.choice(Q_FAMS if mode == "Q" else F_FAMS)
    boxes = gen_boxes(rng, mode, fam)
    nmods = rng.choice([1, 2, 3, 4, 5])
    cells = []
    use_obj = rng.random() < 0.25
    for (x0, y0, x1, y1) in boxes:
        depth = rng.choice([0, 0, 0, 0, 1, 2, 3]) if rng.random() < 0.4 else 0
        region = rng.choice([None, None, None, "dsp", "bram"])
        c = {"kind": "V", "v": [(x0 + x1) / 2, (y0 + y1) / 2, x1 - x0, y1 - y0], "region": region,
             "alloc": gen_alloc(rng, mode, nmods), "depth": depth}
        if use_obj and rng.random() < 0.7:
            c["kind"] = "O"
            c["fixed"] = False
            c["hard"] = rng.random() < 0.2
        cells.append(c)
    # make sure every listed module has a positive ratio somewhere (most of the time)
    if rng.random() < 0.93:
        pos = {m for c in cells for m, v in c["alloc"] if v > 0}
        for c in cells:
            for p in c["alloc"]:
                if p[0] not in pos:
                    p[1] = 0.5
                    pos.add(p[0])
    fixed = []
    if rng.random() < 0.3:
        for i in rng.sample(range(len(cells)), min(len(cells), rng.choice([1, 1, 2]))):
            cells[i]["alloc"] = [["F" + str(i), 1.0]]
            if cells[i]["kind"] == "O" and rng.random() < 0.5:
                cells[i]["fixed"] = True
            else:
                fixed.append(i)
    if flavour == "c12" and rng.random() < 0.5:
        for c in rng.sample(cells, max(1, len(cells) // 3)):
            if c["alloc"] and c["alloc"][0][0].startswith("F"):
                continue
            c["alloc"] = []
    eps = None
    r = rng.random() if not fam.startswith("big") else 1.0     # preset tolerances are absolute: not for dies of size 1e3..1e6
    if r < 0.25:
        eps = [2.0 ** -30, 2.0 ** -20] if mode == "Q" else [1e-9, 1e-6]
    elif r < 0.32:
        eps = [2.0 ** -30, 0.0] if mode == "Q" else [1e-12, 1e-4]
    elif r < 0.36:
        eps = [0.0, 0.0] if mode == "Q" else [1e-9, 0.5]
    expect_valid = all(any(v > 0 for c2 in cells for m2, v in c2["alloc"] if m2 == m) for c in cells for m, _ in c["alloc"])
    if rng.random() < 0.08:
        _spoil(rng, cells)
        expect_valid = False
    return {"expect_valid": expect_valid, "mode": mode, "family": fam, "eps": eps, "text": (not any(c["kind"] == "O" for c in cells)) and rng.random() < 0.8,
            "cells": cells, "fixed": sorted(fixed), "ops": None}


def _spoil(rng, cells) -> None:
    """an invalid descriptor list (the constructor must reject it the same way in model and implementation)."""
    c = rng.choice(cells)
    k = rng.randrange(9)
    if k == 8 and c["kind"] == "V":
        c["region"] = "9bad"                      # not a valid identifier
    elif k == 0:
        d = dict(c)
        d["v"] = [c["v"][0] + c["v"][2] / 4, c["v"][1], c["v"][2], c["v"][3]]
        d["alloc"] = [list(p) for p in c["alloc"]]
        cells.append(d)                       # overlapping copy
    elif k == 1:
        c["alloc"] = c["alloc"] + [["M9", 1.5]]
    elif k == 2:
        c["alloc"] = c["alloc"] + [["M9", -0.25]]
    elif k == 3:
        c["alloc"] = c["alloc"] + [["9x", 0.5]]
    elif k == 4:
        c["depth"] = -1
    elif k == 5 and c["kind"] == "V":
        c["v"] = [c["v"][0], c["v"][1], 0.0, c["v"][3]]
    elif k == 6 and c["kind"] == "V":
        c["v"] = [c["v"][2] / 4, c["v"][1], c["v"][2], c["v"][3]]      # sticks out of the positive quadrant
    else:
        c["alloc"] = c["alloc"] + [["Z0", 0.0]]   # a module of total area 0: ZeroDivisionError


def next_op(rng, mode: str, a, mods: list[str], flavour: str):
    """draw the next operation; an operation whose result would exceed the size cap is replaced by a query.
    6 %: an OBJECT history on the same `Allocation`: a decision at threshold t (`must_be_refined(t)` or a discarded
    `refine(t)`), then a refinable cell is flagged fixed IN PLACE (`rect.fixed = True`, what `_detect_fixed_rectangles` and
    tests/test_griddify do), then the decision at the SAME threshold is taken again — returned as ["SEQ", ops]."""
    ncells = len(a.allocations)
    refinable = [i for i, ra in enumerate(a.allocations) if not ra.rect.fixed]
    if refinable and ncells <= MAX_CELLS // 4 and rng.random() < 0.08:
        ratios = Q_RATIOS if mode == "Q" else F_RATIOS
        vals = sorted({v for i in refinable for v in a.allocations[i].alloc.values()})
        t = rng.choice(vals) if vals and rng.random() < 0.7 else rng.choice(ratios + [1.0])
        cand = [i for i in refinable if a.allocations[i].alloc and all(v <= t for v in a.allocations[i].alloc.values())] or refinable
        first = rng.choice([["M", t], ["M", t], ["R0", t, 1], ["U0"], ["U0"], ["G0"], ["G0"]])
        last = rng.choice([["R", t, rng.choice([1, 1, 2])], ["R", t, 1], ["M", t]]) if first[0] in ("M", "R0") and rng.random() < 0.8 \
            else rng.choice([["U"], ["G"], ["R", t, 1], ["U0"], ["G0"]])
        if first[0] in ("U0", "G0") and rng.random() < 0.7:
            last = [first[0][0]]                      # the same operation again, after the flag change
        if first[0] == "U0" or last[0] in ("U", "U0"):
            # uniform refinement only has work to do on unequal depths: flag a cell that is NOT at the maximum depth
            mx = max(ra.depth for ra in a.allocations)
            low = [i for i in refinable if a.allocations[i].depth < mx]
            cand = low or cand
        seq = [first, ["F", rng.choice(cand)]] + ([["F", rng.choice(refinable)]] if rng.random() < 0.2 else []) + [last]
        if last[0] in ("U0", "G0"):
            seq.append([last[0][0]])
        return ["SEQ", seq]
    op = _next_op(rng, mode, ncells, mods, flavour)
    t = op[1] if op[0] == "R" else 0.5
    if op[0] == "U":
        mx = max(ra.depth for ra in a.allocations)
        if sum(2 ** (mx - ra.depth) for ra in a.allocations) > 3 * MAX_CELLS:
            return ["M", t]
    if op[0] == "G":
        nx = len({v for ra in a.allocations for v in (ra.rect.bounding_box.ll.x, ra.rect.bounding_box.ur.x)})
        ny = len({v for ra in a.allocations for v in (ra.rect.bounding_box.ll.y, ra.rect.bounding_box.ur.y)})
        if nx * ny > 4 * MAX_CELLS:
            return ["M", t]
    return op


def _next_op(rng, mode: str, ncells: int, mods: list[str], flavour: str):
    ratios = Q_RATIOS if mode == "Q" else F_RATIOS
    r = rng.random()
    t = rng.choice(ratios + [1.0, 0.5])
    if ncells > MAX_CELLS:
        return rng.choice([["M", t], ["A", mods[:]], ["C", mods[:]], ["N"]]) if mods else ["M", t]
    if rng.random() < 0.14:
        return accessor_op(rng, ncells, mods)
    if flavour == "c12":
        if r < 0.30:
            return ["M", t]
        if r < 0.62:
            lv = rng.choice([1, 1, 1, 2, 3]) if ncells < 10 else rng.choice([1, 1, 2]) if ncells < 24 else 1
            if rng.random() < 0.02:
                lv = 0
            return ["R", t, lv]
        if r < 0.76:
            return ["U"]
        return ["G"]
    if r < 0.36:
        lv = rng.choice([1, 1, 2, 2, 3]) if ncells < 10 else rng.choice([1, 1, 2]) if ncells < 24 else 1
        if rng.random() < 0.02:
            lv = 0
        return ["R", t, lv]
    if r < 0.54:
        return ["U"]
    if r < 0.80:
        return ["G"]
    if r < 0.86 or not mods:
        return ["M", t]
    ms = rng.sample(mods, rng.randint(0, len(mods))) if rng.random() < 0.9 else mods + ["nope"]
    return ["A", ms] if r < 0.93 else ["C", ms]


def accessor_op(rng, ncells: int, mods: list[str]):
    """a query of one of the read accessors: N = num_rectangles / num_modules / max_refinement_depth,
    I i = allocation_rectangle(i) (also negative, == n, < -n), L m = allocation_module(m) (also unknown names),
    K names = check_compatible(Netlist with these module names) (equal / subset / superset / permuted / empty)."""
    r = rng.random()
    if r < 0.2:
        return ["N"]
    if r < 0.5:
        return ["I", rng.choice([0, ncells - 1, -1, -ncells, ncells, -ncells - 1, ncells + 3, rng.randint(-ncells - 2, ncells + 1)])]
    if r < 0.75:
        return ["L", rng.choice(mods + ["nope"]) if mods else "nope"]
    k = rng.randrange(6)
    names = list(mods)
    if k == 0 and names:
        names.pop(rng.randrange(len(names)))
    elif k == 1:
        names.append("X9")
    elif k == 2:
        rng.shuffle(names)
    elif k == 3 and names:
        names[rng.randrange(len(names))] = "Y_1"
    elif k == 4:
        names = []
    return ["K", names]


def compat_netlist(names: list[str]):
    """a real `Netlist` whose modules are exactly `names` (the class-wide tolerance is already defined at this point, so the
    constructor does not touch it)."""
    from frame.netlist.netlist import Netlist
    body = ", ".join(f"{n}: {{area: 1}}" for n in names)
    return Netlist("Modules: {" + body + "}\nNets: []\n")


# --------------------------------------------------------------------------------------------- implementation side
def _fmt_num(v: float, as_int: bool) -> str:
    if as_int and float(v).is_integer() and abs(v) < 1e15:
        return str(int(v))
    return repr(float(v))


def build_arg(inp: dict):
    """the constructor argument: YAML text or a list of descriptors."""
    cells = inp["cells"]
    if inp["text"]:
        rows = []
        for i, c in enumerate(cells):
            vec = ", ".join(_fmt_num(v, i % 2 == 0) for v in c["v"])
            if c["region"]:
                vec += ", " + c["region"]
            al = ", ".join(f"{m}: {_fmt_num(v, False)}" for m, v in c["alloc"])
            row = f"[[{vec}], {{{al}}}" + (f", {c['depth']}" if c["depth"] != 0 or i % 3 == 0 else "") + "]"
            rows.append(row)
        return "[\n  " + ",\n  ".join(rows) + "\n]\n# alloc: yaml\n"
    out = []
    for c in cells:
        if c["kind"] == "O":
            kw: dict[str, Any] = dict(center=Point(c["v"][0], c["v"][1]), shape=Shape(c["v"][2], c["v"][3]),
                                      fixed=bool(c.get("fixed")), hard=bool(c.get("hard")))
            if c["region"]:
                kw["region"] = c["region"]
            r: Any = Rectangle(**kw)
        else:
            r = list(c["v"]) + ([c["region"]] if c["region"] else [])
        out.append((r, {m: v for m, v in c["alloc"]}, c["depth"]))
    return out


def cell_tokens(ra, mode: str) -> str:
    r = ra.rect
    al = "".join(f" {m} {sc(v, mode)}" for m, v in ra.alloc.items())
    return (f"{sc(r.center.x, mode)} {sc(r.center.y, mode)} {sc(r.shape.w, mode)} {sc(r.shape.h, mode)} {r.region} "
            f"{int(r.fixed)} {int(r.hard)} {len(ra.alloc)}{al} {ra.depth}")


def module_order(a: Allocation) -> list[str]:
    seen: list[str] = []
    for ra in a.allocations:
        for m in ra.alloc:
            if m not in seen:
                seen.append(m)
    return seen


def dump(a: Allocation, mode: str) -> str:
    cells = "".join(" | " + cell_tokens(ra, mode) for ra in a.allocations)
    mods = module_order(a)
    stats = "".join(f" | {m} {sc(a.area(m), mode)} {sc(a.center(m).x, mode)} {sc(a.center(m).y, mode)}" for m in mods)
    bb = a.bounding_box
    return (f"ok {len(a.allocations)}{cells} # {len(mods)}{stats} # {sc(bb.center.x, mode)} {sc(bb.center.y, mode)} "
            f"{sc(bb.shape.w, mode)} {sc(bb.shape.h, mode)} # {sc(Rectangle._distance_epsilon, mode)} "
            f"{sc(Rectangle._area_epsilon, mode)}")


def snapshot(a: Allocation) -> dict:
    cells = []
    for ra in a.allocations:
        r = ra.rect
        cells.append({"cx": Fraction(r.center.x), "cy": Fraction(r.center.y), "w": Fraction(r.shape.w), "h": Fraction(r.shape.h),
                      "region": r.region, "fixed": r.fixed, "hard": r.hard,
                      "alloc": [(m, Fraction(v)) for m, v in ra.alloc.items()], "depth": ra.depth})
    mods = module_order(a)
    return {"cells": cells, "area": {m: a.area(m) for m in mods},
            "center": {m: (a.center(m).x, a.center(m).y) for m in mods}, "obj": a,
            "eps": (Rectangle._distance_epsilon, Rectangle._area_epsilon)}


def err(e: BaseException) -> str:
    return "err:" + type(e).__name__


def run_impl(inp: dict, rng=None, flavour: str = "mixed", nops: int = 0):
    """runs the history; if `inp['ops']` is None the ops are drawn on the fly (sizes are only known then).
    returns (segments, steps) with steps = [(op, before-snapshot | None, after-snapshot | None, error | None)]."""
    mode = inp["mode"]
    Rectangle.undefine_epsilon()
    try:
        if inp["eps"] is not None:
            Rectangle.set_epsilon(inp["eps"][0], inp["eps"][1])
        steps: list = []
        try:
            a = Allocation(build_arg(inp))
        except Exception as e:
            if inp["ops"] is None:
                inp["ops"] = []
            steps.append((["init"], None, None, err(e)))
            return [err(e)], steps, Rectangle._area_epsilon
        for i in inp["fixed"]:
            a.allocations[i].rect.fixed = True
        sqrt_ans = Rectangle._area_epsilon
        segs = [dump(a, mode)]
        cur = snapshot(a)
        steps.append((["init"], None, cur, None))
        drawing = inp["ops"] is None
        ops = [] if drawing else inp["ops"]
        k = 0
        queue: list = []
        while True:
            if drawing:
                if queue:
                    op = queue.pop(0)
                else:
                    if k >= nops:
                        break
                    op = next_op(rng, mode, a, module_order(a), flavour)
                    if op[0] == "SEQ":
                        queue = list(op[1])
                        op = queue.pop(0)
                ops.append(op)
            else:
                if k >= len(ops):
                    break
                op = ops[k]
            k += 1
            try:
                if op[0] == "M":
                    pred = a.must_be_refined(op[1])
                    segs.append(str(int(pred)))
                    # the decision is judged against what `refine` does to the object AS IT IS NOW (it may be changed in
                    # place later in the history)
                    try:
                        refd = snapshot(a.refine(op[1], 1))["cells"]
                    except Exception as e2:
                        refd = err(e2)
                    steps.append((op, cur, {"answer": pred, "refined": refd}, None))
                    continue
                if op[0] == "A":
                    segs.append(sc(a.area(list(op[1])), mode))
                    steps.append((op, cur, None, None))
                    continue
                if op[0] == "C":
                    p = a.center(list(op[1]))
                    segs.append(f"{sc(p.x, mode)} {sc(p.y, mode)}")
                    steps.append((op, cur, None, None))
                    continue
                if op[0] == "F":            # in-place flag change on the SAME object
                    a.allocations[op[1]].rect.fixed = True
                    segs.append(dump(a, mode))
                    cur = snapshot(a)
                    steps.append((op, None, cur, None))
                    continue
                if op[0] in ("R0", "U0", "G0"):   # operation whose result is discarded: the object itself stays in use
                    if op[0] == "R0":
                        a.refine(op[1], op[2])
                    elif op[0] == "U0":
                        a.uniform_refinement_depth()
                    else:
                        a.griddify()
                    segs.append("-")
                    again = snapshot(a)["cells"]
                    if not cells_equal(again, cur["cells"], Fraction(0)):
                        steps.append((["input-mutated", op], cur, {"cells": again}, "err:InputMutated"))
                    else:
                        steps.append((op, cur, None, None))
                    continue
                if op[0] == "N":
                    ans = (a.num_rectangles, a.num_modules, a.max_refinement_depth())
                    segs.append(f"{ans[0]} {ans[1]} {ans[2]}")
                    steps.append((op, cur, {"answer": ans}, None))
                    continue
                if op[0] == "I":
                    ra = a.allocation_rectangle(op[1])
                    segs.append(cell_tokens(ra, mode))
                    r0 = ra.rect
                    steps.append((op, cur, {"answer": {"cx": Fraction(r0.center.x), "cy": Fraction(r0.center.y), "w": Fraction(r0.shape.w),
                                                        "h": Fraction(r0.shape.h), "region": r0.region, "fixed": r0.fixed, "hard": r0.hard,
                                                        "alloc": [(m, Fraction(v)) for m, v in ra.alloc.items()], "depth": ra.depth}}, None))
                    continue
                if op[0] == "L":
                    ma = a.allocation_module(op[1])
                    segs.append(f"{len(ma)}" + "".join(f" {x.rect_index} {sc(x.area_ratio, mode)}" for x in ma))
                    steps.append((op, cur, {"answer": [(x.rect_index, x.area_ratio) for x in ma]}, None))
                    continue
                if op[0] == "K":
                    eps_before = (Rectangle._distance_epsilon, Rectangle._area_epsilon)
                    nl = compat_netlist(op[1])
                    if (Rectangle._distance_epsilon, Rectangle._area_epsilon) != eps_before:
                        Rectangle.set_epsilon(*eps_before)
                    ans = a.check_compatible(nl)
                    segs.append(str(int(ans)))
                    steps.append((op, cur, {"answer": ans}, None))
                    continue
            except Exception as e:
                segs.append(err(e))
                steps.append((op, cur, None, err(e)))
                continue
            try:
                if op[0] == "R":
                    a2 = a.refine(op[1], op[2])
                elif op[0] == "U":
                    a2 = a.uniform_refinement_depth()
                elif op[0] == "G":
                    a2 = a.griddify()
                else:
                    raise RuntimeError(op)
            except Exception as e:
                segs.append(err(e))
                steps.append((op, cur, None, err(e)))
                break
            if a2 is not a:
                again = snapshot(a)["cells"]
                if not cells_equal(again, cur["cells"], Fraction(0)):
                    steps.append((["input-mutated", op], cur, {"cells": again}, "err:InputMutated"))
            a = a2
            segs.append(dump(a, mode))
            nxt = snapshot(a)
            if op[0] == "G" and len(a.allocations) <= 2 * MAX_CELLS:
                try:
                    nxt["regrid"] = snapshot(a.griddify())["cells"]
                except Exception as e2:
                    nxt["regrid"] = err(e2)
            steps.append((op, cur, nxt, None))
            cur = nxt
        if drawing:
            inp["ops"] = ops
        return segs, steps, sqrt_ans
    finally:
        Rectangle.undefine_epsilon()


def request(inp: dict, sqrt_ans: float) -> str:
    mode = inp["mode"]
    eps = inp["eps"] if inp["eps"] is not None else [-1.0, -1.0]
    toks = [mode, "hist", sc(eps[0], mode), sc(eps[1], mode), sc(sqrt_ans if sqrt_ans >= 0 else 0.0, mode), str(len(inp["cells"]))]
    for c in inp["cells"]:
        v = c["v"]
        if c["kind"] == "V":
            toks += ["V"] + [sc(x, mode) for x in v] + [c["region"] or "-"]
        else:
            toks += ["O"] + [sc(x, mode) for x in v] + [c["region"] or "_", str(int(bool(c.get("fixed")))), str(int(bool(c.get("hard"))))]
        toks.append(str(len(c["alloc"])))
        for m, val in c["alloc"]:
            toks += [m, sc(val, mode)]
        toks.append(str(c["depth"]))
    toks.append(str(len(inp["fixed"])))
    toks += [str(i) for i in inp["fixed"]]
    ops = inp["ops"] or []
    toks.append(str(len(ops)))
    for op in ops:
        if op[0] == "R":
            toks += ["R", sc(op[1], mode), str(op[2])]
        elif op[0] in ("U", "G"):
            toks.append(op[0])
        elif op[0] == "M":
            toks += ["M", sc(op[1], mode)]
        elif op[0] == "F":
            toks += ["F", str(op[1])]
        elif op[0] == "R0":
            toks += ["R0", sc(op[1], mode), str(op[2])]
        elif op[0] in ("U0", "G0"):
            toks.append(op[0])
        elif op[0] == "N":
            toks.append("N")
        elif op[0] == "I":
            toks += ["I", str(op[1])]
        elif op[0] == "L":
            toks += ["L", op[1]]
        else:
            toks += [op[0], str(len(op[1]))] + list(op[1])
    return " ".join(toks)


# --------------------------------------------------------------------------------------------- comparison
def _num(tok: str, mode: str):
    if mode == "F":
        if len(tok) != 16:
            return None
        try:
            return hex2f(tok)
        except Exception:
            return None
    try:
        return Fraction(tok)
    except Exception:
        return None


def seg_close(a: str, b: str, mode: str, tol: float) -> tuple[bool, bool]:
    """(equal enough, exactly equal).  In the Q stream the cell part (before the first '#') must be identical;
    only cached statistics / tolerances (quotients, 1e-12·…, sqrt) are compared with a tolerance."""
    if a == b:
        return True, True
    if a.startswith("err") or b.startswith("err"):
        return False, False
    if mode == "Q" and a.startswith("ok") and a.split(" # ")[0] != b.split(" # ")[0]:
        return False, False
    ta, tb = a.split(), b.split()
    if len(ta) != len(tb):
        return False, False
    for x, y in zip(ta, tb):
        if x == y:
            continue
        fx, fy = _num(x, mode), _num(y, mode)
        if fx is None or fy is None:
            return False, False
        fx, fy = float(fx), float(fy)
        if fx != fx or fy != fy:
            return False, False
        if abs(fx - fy) > tol * max(1.0, abs(fx), abs(fy)):
            return False, False
    return True, False


def _nudged_inputs(inp: dict) -> list[dict]:
    """the input with every width (resp. height) moved by ±4 ulp, the lower-left corner kept (so that a layout anchored
    at x = 0 / y = 0 stays in the positive quadrant and abutting cells keep abutting on that side)."""
    from vcheck import ulp_nudge
    out = []
    for fld in (2, 3):
        for k in (-4, 4):
            cells = []
            ok = True
            for c in inp["cells"]:
                v = list(c["v"])
                lo = v[fld - 2] - v[fld] / 2
                v[fld] = ulp_nudge(v[fld], k)
                v[fld - 2] = lo + v[fld] / 2
                if v[fld] <= 0 or v[fld - 2] - v[fld] / 2 < 0:
                    ok = False
                cells.append(dict(c, v=v))
            if ok:
                out.append(dict(inp, cells=cells))
    return out


def _is_tie(ctx: Ctx, inp: dict, i: int, segs: list[str], msegs: list[str], sqrt_ans: float) -> bool:
    """float stream only.  The disagreement at segment i is a rounding tie (outside the property) ONLY IF the model
    itself, run on an input whose sizes are moved by ±4 ulp and which the constructor still accepts, reproduces the
    IMPLEMENTATION's segments 1..i (shape and values within 1e-6): then the decision (`h > w`, cuttable, overlap)
    depends on the last bits of the input.  Variants the constructor rejects are discarded."""
    reqs = [request(v, sqrt_ans) for v in _nudged_inputs(inp)]
    reps = ctx.model(reqs) or []
    for r in reps:
        rs = r.split(" ;; ")
        if not rs[0].startswith("ok"):
            continue
        if all(j < len(rs) and j < len(segs) and seg_close(rs[j], segs[j], "F", 1e-6)[0] for j in range(1, i + 1)):
            return True
    return False


def tie_filter_selftest(ctx: Ctx, sample: list) -> None:
    """meta-test of the tie filter, run with every check (cheap).
    (a) a synthetic disagreement on a layout anchored at the origin (the model's answer to a DIFFERENT operation is
        presented as the implementation's) must not be classified as a tie;
    (b) nudge sensitivity: for the float-stream inputs of this run, how often does a ±4 ulp variant change the shape of
        the model's own answer?  Must be rare; recorded in the evidence."""
    inp = {"mode": "F", "family": "dec", "eps": None, "text": True, "fixed": [], "expect_valid": True,
           "cells": [{"kind": "V", "v": [0.15, 0.3, 0.3, 0.6], "region": None, "alloc": [["M1", 0.3]], "depth": 0},
                     {"kind": "V", "v": [0.75, 0.3, 0.9, 0.6], "region": None, "alloc": [["M2", 0.7]], "depth": 0}],
           "ops": [["R", 0.5, 1]]}
    other = dict(inp, ops=[["R", 0.7, 2]])
    reps = ctx.model([request(inp, 0.0), request(other, 0.0)])
    if reps is None:
        return
    msegs, fake = reps[0].split(" ;; "), reps[1].split(" ;; ")
    if len(_nudged_inputs(inp)) != 4:
        raise RuntimeError("tie filter self-test: nudged variants of an anchored layout are being discarded")
    if seg_close(msegs[1], fake[1], "F", 1e-9)[0] or _is_tie(ctx, inp, 1, fake, msegs, 0.0):
        raise RuntimeError("tie filter self-test: a synthetic disagreement on an anchored layout is classified as a tie")
    probe = [(i2, s2, sq) for (i2, s2, _, sq) in sample if i2["mode"] == "F" and s2 and s2[0].startswith("ok") and len(s2) > 1][:60]
    reqs, owner = [], []
    for k, (i2, s2, sq) in enumerate(probe):
        reqs.append(request(i2, sq))
        owner.append((k, True))
        for v in _nudged_inputs(i2):
            reqs.append(request(v, sq))
            owner.append((k, False))
    reps = ctx.model(reqs) or []
    base: dict[int, list[str]] = {}
    sensitive: set[int] = set()
    usable = 0
    for (k, is_base), r in zip(owner, reps):
        rs = r.split(" ;; ")
        if is_base:
            base[k] = rs
            continue
        if not rs[0].startswith("ok"):
            continue
        usable += 1
        b = base[k]
        if len(rs) != len(b) or any(not seg_close(x, y, "F", 1e-6)[0] for x, y in zip(rs[1:], b[1:])):
            sensitive.add(k)
    ctx.count("tie-filter:probed-F-inputs", len(probe))
    ctx.count("tie-filter:nudge-sensitive", len(sensitive))
    ctx.extra["tie_filter"] = {"selftest": "synthetic disagreement not a tie", "probed": len(probe), "usable_variants": usable,
                               "nudge_sensitive": len(sensitive), "ties_not_compared": ctx.ties}
    if probe and (usable < 2 * len(probe) or len(sensitive) > max(3, len(probe) // 5)):
        raise RuntimeError(f"tie filter self-test: {len(sensitive)} of {len(probe)} inputs nudge-sensitive, {usable} usable variants")


def compare(ctx: Ctx, inp: dict, segs: list[str], reply: str, sqrt_ans: float = 0.0) -> None:
    msegs = reply.split(" ;; ")
    mode = inp["mode"]
    for i in range(max(len(segs), len(msegs))):
        s = segs[i] if i < len(segs) else "<missing>"
        m = msegs[i] if i < len(msegs) else "<missing>"
        ok, exact = seg_close(s, m, mode, 1e-9)
        if ok:
            if not exact and mode == "F":
                ctx.drift += 1
            continue
        opname = "init" if i == 0 else (inp["ops"][i - 1][0] if i - 1 < len(inp["ops"]) else "?")
        if mode == "F" and not s.startswith("err") and not m.startswith("err") and _is_tie(ctx, inp, i, segs, msegs, sqrt_ans):
            ctx.ties += 1
            return
        ctx.disagree(f"hist:{opname}@{i}", inp, s[:600], m[:600], size=len(inp["cells"]) + 4 * i)
        return


# --------------------------------------------------------------------------------------------- the 1 % boundary
def cuttable_boundary_stream(ctx: Ctx, n: int) -> None:
    """direct clause on `Rectangle.x_cuttable / y_cuttable`: a cut whose smaller piece is EXACTLY `ratio * other side`
    is refused, one ulp further inside it is accepted, one ulp nearer the side it is refused (`min(...) > ratio * side`,
    strict).  The threshold is computed with the code's own float expression `ratio * shape.h`; the rectangle is
    anchored so that `x - bb.ll.x` (resp. `bb.ur.x - x`) is exactly that number — cases where it is not are skipped."""
    import math
    rng = ctx.rng
    for _ in range(n):
        horiz = rng.random() < 0.5            # x_cuttable (other side = h) or y_cuttable (other side = w)
        ratio = rng.choice([0.01, 0.01, 0.01, 0.25, 0.125, 0.5, 0.0, 0.3])
        other = rng.choice([rng.randint(1, 800) / 8, rng.randint(1, 64) * 100 / 128, rng.uniform(0.5, 50), float(rng.randint(1, 100))])
        thr = ratio * other
        side = max(4 * thr, 1.0) * rng.choice([1.0, 2.0, 3.5])
        lo = rng.choice([0.0, 0.0, 1.0, 0.5, 2.0])
        upper = rng.random() < 0.5            # boundary measured from the upper side
        if horiz:
            r = Rectangle(center=Point(lo + side / 2, 3.0 + other / 2), shape=Shape(side, other))
            bbl, bbu = r.bounding_box.ll.x, r.bounding_box.ur.x
            f = r.x_cuttable
        else:
            r = Rectangle(center=Point(3.0 + other / 2, lo + side / 2), shape=Shape(other, side))
            bbl, bbu = r.bounding_box.ll.y, r.bounding_box.ur.y
            f = r.y_cuttable
        code_thr = ratio * (r.shape.h if horiz else r.shape.w)
        z = (bbu - thr) if upper else (bbl + thr)
        dist = (bbu - z) if upper else (z - bbl)
        if dist != code_thr or not (bbl < z < bbu):
            ctx.count("boundary:skipped-inexact")
            continue
        inward = math.nextafter(z, -math.inf if upper else math.inf)
        outward = math.nextafter(z, math.inf if upper else -math.inf)
        d_in = (bbu - inward) if upper else (inward - bbl)
        d_out = (bbu - outward) if upper else (outward - bbl)
        inp = {"op": "cuttable-boundary", "axis": "x" if horiz else "y", "rect": [r.center.x, r.center.y, r.shape.w, r.shape.h],
               "ratio": ratio, "z": z, "upper": upper}
        try:
            got = (f(z, ratio), f(inward, ratio) if d_in > code_thr else None, f(outward, ratio) if d_out < code_thr and bbl < outward < bbu else None)
        except Exception as e:
            ctx.spec_fail("operation-raised", inp, {"raised": err(e)}, 1)
            continue
        ctx.case("boundary", (horiz, ratio, other, side, lo, upper), nontrivial=True)
        ctx.count("boundary:ratio=" + str(ratio))
        if got[0] is not False:
            ctx.spec_fail("cuttable_boundary:exactly-ratio-is-refused", inp, {"cuttable_at_boundary": got[0]}, 1)
        elif got[1] is False:
            ctx.spec_fail("cuttable_boundary:one-ulp-inside-is-accepted", inp, {"z_inward": inward}, 1)
        elif got[2] is True:
            ctx.spec_fail("cuttable_boundary:one-ulp-outside-is-refused", inp, {"z_outward": outward}, 1)


def replay_boundary(ctx: Ctx, inp: dict) -> None:
    cx, cy, w, h = inp["rect"]
    r = Rectangle(center=Point(cx, cy), shape=Shape(w, h))
    f = r.x_cuttable if inp["axis"] == "x" else r.y_cuttable
    if f(inp["z"], inp["ratio"]) is not False:
        ctx.spec_fail("cuttable_boundary:exactly-ratio-is-refused", inp, {"cuttable_at_boundary": True}, 1)


def gen_boundary_input(rng) -> dict:
    """Q-stream layout on which `griddify` meets the 1 % boundary exactly: a cell of height H = 100·d (d = k/128, so that
    the double product 0.01·H is exactly d) whose upper neighbours put a side line at distance d from its left (or right)
    side; the roles of x and y are swapped half of the time."""
    d = rng.choice([1, 2, 4, 8]) / 128
    H = 100 * d
    W = d * rng.choice([4, 16, 64])
    right = rng.random() < 0.5
    cut = (W - d) if right else d
    boxes = [(0.0, 0.0, W, H), (0.0, H, cut, H + 1.0), (cut, H, W, H + 1.0)]
    if rng.random() < 0.5:
        boxes = [(y0, x0, y1, x1) for (x0, y0, x1, y1) in boxes]
    cells = [{"kind": "V", "v": [(x0 + x1) / 2, (y0 + y1) / 2, x1 - x0, y1 - y0], "region": None,
              "alloc": [["M1", rng.choice(Q_RATIOS[1:])]], "depth": 0} for (x0, y0, x1, y1) in boxes]
    return {"expect_valid": True, "mode": "Q", "family": "boundary", "eps": None, "text": True, "cells": cells, "fixed": [],
            "ops": [["G"], ["M", 0.5]]}


def gen_chain_input(rng, mode: str) -> dict:
    """cascades of depth 2..6: a big cell S×S and alternating side lines a1 > a2 > a3 (x) and b1 > b2 > b3 (y) of neighbour
    strips such that every line is refused as a sliver until the PREVIOUS line of the other direction has been cut:
    a1 <= 1% S but > 1% of S/2 (the y cut at S/2 is always accepted), b1 <= 1% S but > 1% a1, a2 <= 1% (S/2) but > 1% b1,
    b2 <= 1% a1 but > 1% a2, a3 <= 1% b1 but > 1% b2, b3 <= 1% a2 but > 1% a3.  `griddify` needs about d/2 + 2 rounds of its
    two sweeps for the first d lines (4 rounds for d = 5: the layout of audit 4, `/tmp/audit4/B/wit12.py`)."""
    if mode == "Q":
        k = rng.choice([1.0, 2.0, 0.5, 4.0])
        S, half = 128.0 * k, 64.0 * k
        chain = [("x", 1.0), ("y", 0.5), ("x", 0.25), ("y", 1 / 256), ("x", 1 / 256), ("y", 1 / 512)]
    else:
        k = rng.choice([1.0, 0.1, 10.0, 3.0])
        S, half = 100.0 * k, 50.0 * k
        chain = [("x", 1.0), ("y", 0.5), ("x", 0.25), ("y", 0.005), ("x", 0.004), ("y", 0.002)]
    d = rng.choice([2, 3, 4, 5, 5, 6, 6])
    xl = sorted({0.0, S} | {v * k for ax, v in chain[:d] if ax == "x"})
    yl = sorted({0.0, half, S} | {v * k for ax, v in chain[:d] if ax == "y"})
    T = S / 16 * rng.choice([1, 2])
    boxes = [(0.0, 0.0, S, S)]
    for u, v in zip(xl, xl[1:]):
        boxes.append((u, S, v, S + T))
    for u, v in zip(yl, yl[1:]):
        boxes.append((S, u, S + T, v))
    swap = rng.random() < 0.5
    ratios = Q_RATIOS if mode == "Q" else F_RATIOS
    cells = []
    for (x0, y0, x1, y1) in boxes:
        if swap:
            x0, y0, x1, y1 = y0, x0, y1, x1
        cells.append({"kind": "V", "v": [(x0 + x1) / 2, (y0 + y1) / 2, x1 - x0, y1 - y0], "region": None,
                      "alloc": [[rng.choice(MODS[:3]), rng.choice(ratios[1:])]], "depth": rng.choice([0, 0, 1])})
    if rng.random() < 0.5:
        rng.shuffle(cells)
    return {"expect_valid": True, "mode": mode, "family": "chain", "eps": None, "text": True, "cells": cells, "fixed": [],
            "ops": [["G"], rng.choice([["N"], ["G"], ["M", 0.5]])]}


def gen_cascade_input(rng, mode: str) -> dict:
    if rng.random() < 0.5:
        return gen_chain_input(rng, mode)
    """layouts on which `griddify` needs SEVERAL rounds of its two sweeps (`fixes/C12_griddify_x_before_y.diff`): a big cell
    S×S with a neighbour side line at distance a from its left side, refused as a sliver (a <= 1% of S) until a y cut at S/2
    (or S/4) has shortened the cell (a > 1% of the piece); the narrow piece of width a then accepts a y line at distance b
    from its lower side that every wider cell refuses (1% of a < b <= 1% of S), and optionally a further x line inside the
    narrow piece at distance c from its left side that is accepted only for the piece of height b (1% of b < c <= 1% of S/2).
    Lines are sides of neighbour cells above / on the right of the big cell.  Axes are swapped half of the time, the layout
    is shifted by an offset, depths / regions / a fixed neighbour vary."""
    k = rng.choice([1, 2, 4, 0.5]) if mode == "Q" else rng.choice([1.0, 0.1, 10.0, 3.0])
    S = 128.0 * k if mode == "Q" else 100.0 * k
    unit = S / 128.0 if mode == "Q" else S / 100.0            # 1 % of S (Q: 1/128 of S, i.e. below the 1.28 % line)
    a = unit * rng.choice([1.0, 1.25, 0.75])
    ycut = S / 2 if rng.random() < 0.7 or a <= 0.01 * S / 4 * 1.01 else S / 4
    if not (a > 0.0101 * ycut):
        ycut = S / 2
        a = unit
    b = unit * rng.choice([0.5, 0.75, 1.0])
    deep = rng.random() < 0.5
    c = a * rng.choice([0.25, 0.5]) if deep else None        # accepted only once the piece is b high: 1% b < c <= 1% ycut
    if deep and not (c > 0.0101 * b and c <= 0.0099 * ycut):
        c, deep = None, False
    ox = rng.choice([0.0, 0.0, unit * 8, S])
    oy = rng.choice([0.0, 0.0, unit * 16])
    T = unit * rng.choice([8, 16, 32])                        # thickness of the neighbour strips
    boxes = [(0.0, 0.0, S, S)]
    xl = sorted({0.0, a, S} | ({c} if deep else set()))
    for u, v in zip(xl, xl[1:]):                              # strip above: sides at x = a (and c)
        boxes.append((u, S, v, S + T))
    yl = sorted({0.0, b, ycut, S})
    for u, v in zip(yl, yl[1:]):                              # strip on the right: sides at y = b, ycut
        boxes.append((S, u, S + T, v))
    swap = rng.random() < 0.5
    cells = []
    for i, (x0, y0, x1, y1) in enumerate(boxes):
        if swap:
            x0, y0, x1, y1 = y0, x0, y1, x1
        x0, x1, y0, y1 = x0 + ox, x1 + ox, y0 + oy, y1 + oy
        ratios = Q_RATIOS if mode == "Q" else F_RATIOS
        cells.append({"kind": "V", "v": [(x0 + x1) / 2, (y0 + y1) / 2, x1 - x0, y1 - y0], "region": rng.choice([None, None, "dsp"]),
                      "alloc": [[rng.choice(MODS[:3]), rng.choice(ratios[1:])]] + ([["B_7", rng.choice(ratios[1:])]] if rng.random() < 0.3 else []),
                      "depth": rng.choice([0, 0, 1])})
    order = list(range(len(cells)))
    if rng.random() < 0.5:
        rng.shuffle(order)
    cells = [cells[i] for i in order]
    fixed = []
    if rng.random() < 0.25:
        j = rng.randrange(len(cells))
        if cells[j]["v"][2] < S and cells[j]["v"][3] < S:        # a fixed neighbour strip keeps its side lines
            cells[j]["alloc"] = [["F" + str(j), 1.0]]
            fixed = [j]
    ops = [["G"], rng.choice([["M", 0.5], ["G"], ["U"], ["R", 0.5, 1]])]
    return {"expect_valid": True, "mode": mode, "family": "cascade", "eps": None, "text": True, "cells": cells, "fixed": fixed,
            "ops": ops}


# --------------------------------------------------------------------------------------------- sum() of floats
def pysum_stream(ctx: Ctx, n: int) -> None:
    """`area([...])` uses the builtin `sum` over floats (Neumaier-compensated since CPython 3.12): the model's
    `pySum` at `Float` must be bit-identical, and equal to the exact sum at `Rat`."""
    import math
    rng = ctx.rng
    reqs, exp, inputs = [], [], []
    for i in range(n):
        k = rng.randint(0, 9)
        kind = rng.randrange(5)
        if kind == 0:
            xs = [rng.uniform(-10, 10) for _ in range(k)]
        elif kind == 1:
            xs = [rng.choice([1e16, -1e16, 1.0, -1.0, 1e-16, 0.1, 3.0, 1e100, -1e100]) for _ in range(k)]
        elif kind == 2:
            xs = [rng.randint(0, 100) / 10 * rng.randint(1, 64) / 8 for _ in range(k)]
        elif kind == 3:
            xs = [rng.choice([math.inf, 1.0, -2.5, 1e308, 1e308, -0.0, 0.0]) for _ in range(k)]
        else:
            xs = [rng.randint(-64, 64) / 8 for _ in range(k)]
        mode = "Q" if kind == 4 else "F"
        got = float(sum(xs))
        if got != got:
            continue
        reqs.append(f"{mode} pysum {len(xs)} " + " ".join(sc(x, mode) for x in xs))
        exp.append(sc(got, mode))
        inputs.append({"mode": mode, "op": "pysum", "xs": [repr(x) for x in xs]})
        ctx.case("pysum-" + mode, tuple(xs), nontrivial=len(xs) > 1)
    replies = ctx.model(reqs)
    if replies is None:
        return
    for inp, e, r in zip(inputs, exp, replies):
        if e != r and not (inp["mode"] == "F" and len(r) == 16 and hex2f(r) == hex2f(e)):
            ctx.disagree("pysum", inp, e, r, size=len(inp["xs"]))

# --------------------------------------------------------------------------------------------- exact geometry
def cbb(c: dict):
    b = c.get("_bb")
    if b is None or b[4] != (c["cx"], c["cy"], c["w"], c["h"]):
        key = (c["cx"], c["cy"], c["w"], c["h"])
        x0, y0, x1, y1 = c["cx"] - c["w"] / 2, c["cy"] - c["h"] / 2, c["cx"] + c["w"] / 2, c["cy"] + c["h"] / 2
        b = (x0, y0, x1, y1, key, (float(x0), float(y0), float(x1), float(y1)))
        c["_bb"] = b
    return b[0], b[1], b[2], b[3]


def fbb(c: dict):
    cbb(c)
    return c["_bb"][5]


def c_overlap(a: dict, b: dict) -> Fraction:
    ax0, ay0, ax1, ay1 = cbb(a)
    bx0, by0, bx1, by1 = cbb(b)
    dx = min(ax1, bx1) - max(ax0, bx0)
    dy = min(ay1, by1) - max(ay0, by0)
    return dx * dy if dx > 0 and dy > 0 else Fraction(0)


def scale_of(cells) -> Fraction:
    m = Fraction(1)
    for c in cells:
        x0, y0, x1, y1 = cbb(c)
        m = max(m, abs(x1), abs(y1))
    return m


def tol_of(mode: str, cells) -> Fraction:
    return Fraction(0) if mode == "Q" else Fraction(1, 10 ** 9) * scale_of(cells)


def module_area_moment(cells) -> dict:
    out: dict[str, list[Fraction]] = {}
    for c in cells:
        ar = c["w"] * c["h"]
        for m, v in c["alloc"]:
            s = out.setdefault(m, [Fraction(0), Fraction(0), Fraction(0)])
            s[0] += v * ar
            s[1] += v * ar * c["cx"]
            s[2] += v * ar * c["cy"]
    return out


def find_parent(child: dict, olds: list[dict], t: Fraction) -> list[int]:
    x0, y0, x1, y1 = cbb(child)
    fx0, fy0, fx1, fy1 = fbb(child)
    sl = 1e-6 * max(1.0, abs(fx1), abs(fy1))
    res = []
    for i, p in enumerate(olds):
        qx0, qy0, qx1, qy1 = fbb(p)
        if fx0 < qx0 - sl or fy0 < qy0 - sl or fx1 > qx1 + sl or fy1 > qy1 + sl:
            continue
        px0, py0, px1, py1 = cbb(p)
        if x0 >= px0 - t and y0 >= py0 - t and x1 <= px1 + t and y1 <= py1 + t:
            res.append(i)
    return res


def same_cell(a: dict, b: dict, t: Fraction) -> bool:
    return (all(abs(a[k] - b[k]) <= t for k in ("cx", "cy", "w", "h")) and a["alloc"] == b["alloc"] and a["depth"] == b["depth"]
            and (a["region"], a["fixed"], a["hard"]) == (b["region"], b["fixed"], b["hard"]))


def inp_public(inp: dict) -> dict:
    return {k: v for k, v in inp.items()}


def small(d: dict) -> dict:
    return {k: (float(v) if isinstance(v, Fraction) else v) for k, v in d.items() if k not in ("alloc", "_bb")} | \
        {"alloc": [(m, float(v)) for m, v in d.get("alloc", [])]}


MODELLED_ERRORS = {"err:AssertionError", "err:ZeroDivisionError", "err:ValueError", "err:IndexError", "err:KeyError"}


def spec_raised(ctx: Ctx, inp: dict, steps) -> None:
    """an exception class the model does not know, or the constructor rejecting a well-formed layout."""
    for idx, (op, before, after, error) in enumerate(steps):
        if error is None:
            continue
        size = len(inp["cells"]) + 4 * idx
        if error == "err:InputMutated":
            ctx.spec_fail("op_pure:input-allocation-changed", inp, {"step": idx, "op": op[1]}, size)
        elif error not in MODELLED_ERRORS:
            ctx.spec_fail("operation-raised", inp, {"step": idx, "op": op, "raised": error}, size)
        elif op[0] == "init" and inp.get("expect_valid"):
            ctx.spec_fail("operation-raised:constructor-on-valid-layout", inp, {"raised": error}, size)


# --------------------------------------------------------------------------------------------- C02 clauses
def spec_c02_step(ctx: Ctx, inp: dict, idx: int, op, before: dict, after: dict | None, error) -> None:
    """conservation clauses for one successful (or failed) refinement operation of the implementation."""
    mode = inp["mode"]
    size = len(inp["cells"]) + 4 * idx
    name = {"R": "refine", "U": "uniform", "G": "griddify"}[op[0]]
    if error is not None:
        if op[0] == "R" and op[2] <= 0:
            return            # `assert levels > 0`: documented precondition
        ctx.spec_fail(f"{name}_ok", inp, {"step": idx, "op": op, "raised": error}, size)
        return
    olds, news = before["cells"], after["cells"]
    t = tol_of(mode, olds)
    ta = t * scale_of(olds) * 4
    # every new cell inside exactly one old cell
    children: dict[int, list[dict]] = {}
    last_parent = 0
    # old cells that overlap within the area tolerance are valid; "inside exactly one old cell" then has no geometric
    # meaning and the groups are read off in order (the result is the concatenation of one group per old cell)
    by_order: dict[int, int] | None = None
    if any(c_overlap(olds[i], olds[j]) > ta for i in range(len(olds)) for j in range(i + 1, len(olds))):
        by_order = {}
        pos = 0
        for i, p in enumerate(olds):
            acc = Fraction(0)
            while pos < len(news) and acc < p["w"] * p["h"] - ta * 2:
                by_order[pos] = i
                acc += news[pos]["w"] * news[pos]["h"]
                pos += 1
        if pos != len(news):
            by_order = None
    for k_c, c in enumerate(news):
        ps = find_parent(c, olds, t)
        if by_order is not None:
            ps = [by_order[k_c]] if by_order[k_c] in ps else []
        if len(ps) > 1:
            # with a tolerance a thin child may also fit into a neighbour: a real second parent overlaps it
            real = [i for i in ps if c_overlap(c, olds[i]) > ta]
            if len(real) > 1:
                # old cells that overlap within the area tolerance are valid: the groups come in the order of the
                # old cells (op_sameRegion), so take the first candidate at or after the previous child's parent
                later = [i for i in real if i >= last_parent]
                ps = [min(later)] if later else [max(real)]
            elif len(real) == 1:
                ps = real
            else:
                same = [i for i in ps if same_cell(c, olds[i], t)]
                ps = same[:1] or [max(ps, key=lambda i: c_overlap(c, olds[i]))]
        if len(ps) != 1:
            ctx.spec_fail(f"{name}_sameRegion:one-parent", inp, {"step": idx, "op": op, "cell": small(c), "parents": ps}, size)
            return
        children.setdefault(ps[0], []).append(c)
        last_parent = ps[0]
        p = olds[ps[0]]
        if c["alloc"] != p["alloc"]:
            ctx.spec_fail(f"{name}_inherit:ratios", inp, {"step": idx, "op": op, "cell": small(c), "parent": small(p)}, size)
            return
        if (c["region"], c["fixed"], c["hard"]) != (p["region"], p["fixed"], p["hard"]):
            ctx.spec_fail(f"{name}_inherit:attributes", inp, {"step": idx, "op": op, "cell": small(c), "parent": small(p)}, size)
            return
        if not (c["w"] > 0 and c["h"] > 0):
            ctx.spec_fail(f"{name}_valid:positive", inp, {"step": idx, "op": op, "cell": small(c)}, size)
            return
    for i, p in enumerate(olds):
        ch = children.get(i, [])
        tot = sum((c["w"] * c["h"] for c in ch), Fraction(0))
        if abs(tot - p["w"] * p["h"]) > ta * max(1, len(ch)):
            ctx.spec_fail(f"{name}_sameRegion:children-tile-parent", inp,
                          {"step": idx, "op": op, "parent": small(p), "children_area": float(tot)}, size)
            return
        for u in range(len(ch)):
            for v in range(u + 1, len(ch)):
                if c_overlap(ch[u], ch[v]) > ta:
                    ctx.spec_fail(f"{name}_valid:children-disjoint", inp, {"step": idx, "op": op, "a": small(ch[u]), "b": small(ch[v])}, size)
                    return
        if p["fixed"] and not (len(ch) == 1 and same_cell(ch[0], p, t)):
            ctx.spec_fail(f"{name}_fixed_uncut", inp, {"step": idx, "op": op, "fixed_cell": small(p), "pieces": len(ch)}, size)
            return
    # module area and first moment (centre of mass)
    mo, mn = module_area_moment(olds), module_area_moment(news)
    if set(mo) != set(mn):
        ctx.spec_fail(f"{name}_area:modules", inp, {"step": idx, "op": op, "old": sorted(mo), "new": sorted(mn)}, size)
        return
    sc3 = scale_of(olds) ** 3
    for m in mo:
        if abs(mo[m][0] - mn[m][0]) > ta * len(news):
            ctx.spec_fail(f"{name}_area", inp, {"step": idx, "op": op, "module": m, "old": float(mo[m][0]), "new": float(mn[m][0])}, size)
            return
        if abs(mo[m][1] - mn[m][1]) > t * sc3 * len(news) or abs(mo[m][2] - mn[m][2]) > t * sc3 * len(news):
            ctx.spec_fail(f"{name}_moment", inp, {"step": idx, "op": op, "module": m}, size)
            return
    spec_caches(ctx, inp, idx, op, after, size)


def spec_caches(ctx: Ctx, inp: dict, idx: int, op, snap: dict, size: int) -> None:
    """`area(m)` / `center(m)` reported by the implementation = exact sums over its own cells."""
    mn = module_area_moment(snap["cells"])
    scl = float(scale_of(snap["cells"]))
    for m, (ar, mx, my) in mn.items():
        if ar == 0:
            continue
        got_a = snap["area"].get(m)
        got_c = snap["center"].get(m)
        if got_a is None or abs(got_a - float(ar)) > 1e-9 * max(1.0, float(ar)):
            ctx.spec_fail("area_eq_sum", inp, {"step": idx, "op": op, "module": m, "impl": got_a, "exact": float(ar)}, size)
            return
        ex, ey = float(mx / ar), float(my / ar)
        if got_c is None or abs(got_c[0] - ex) > 1e-9 * scl or abs(got_c[1] - ey) > 1e-9 * scl:
            ctx.spec_fail("center_eq_moment_over_area", inp, {"step": idx, "op": op, "module": m, "impl": got_c, "exact": [ex, ey]}, size)
            return


def spec_accessor(ctx: Ctx, inp: dict, idx: int, op, before: dict, after: dict | None, error) -> None:
    """the read accessors answer what the cell list says (evaluated on the snapshot taken before the query):
    `num_rectangles / num_modules / max_refinement_depth`, `allocation_rectangle(i)` with Python indexing (i >= n:
    AssertionError, i < -n: IndexError), `allocation_module(m)` = [(index, ratio)] of the cells listing m in order
    (KeyError otherwise), `check_compatible(netlist)` = equality of the two name SETS."""
    cells = before["cells"]
    n = len(cells)
    size = len(inp["cells"]) + 4 * idx
    names = []
    for c in cells:
        for m, _ in c["alloc"]:
            if m not in names:
                names.append(m)
    got = None if after is None else after["answer"]
    if op[0] == "N":
        exp = (n, len(names), max(c["depth"] for c in cells))
        if error is not None or tuple(got) != exp:
            ctx.spec_fail("accessor:counts", inp, {"step": idx, "op": op, "impl": error or list(got), "expected": list(exp)}, size)
    elif op[0] == "I":
        i = op[1]
        exp_err = "err:AssertionError" if i >= n else "err:IndexError" if i < -n else None
        if exp_err is not None or error is not None:
            if error != exp_err:
                ctx.spec_fail("accessor:allocation_rectangle", inp, {"step": idx, "op": op, "impl": error or "returned", "expected": exp_err or "a cell"}, size)
            return
        c = cells[i]
        if not same_cell(got, c, Fraction(0)):
            ctx.spec_fail("accessor:allocation_rectangle", inp, {"step": idx, "op": op, "expected_cell": small(c)}, size)
    elif op[0] == "L":
        m = op[1]
        if m not in names:
            if error != "err:KeyError":
                ctx.spec_fail("accessor:allocation_module", inp, {"step": idx, "op": op, "impl": error or "returned", "expected": "err:KeyError"}, size)
            return
        exp = [(i, v) for i, c in enumerate(cells) for (mm, v) in c["alloc"] if mm == m]
        if error is not None or [(i, Fraction(v)) for i, v in got] != exp:
            ctx.spec_fail("accessor:allocation_module", inp, {"step": idx, "op": op, "impl": error or [(i, float(v)) for i, v in got],
                                                              "expected": [(i, float(v)) for i, v in exp]}, size)
    elif op[0] == "K":
        exp = set(op[1]) == set(names)
        if error is not None or bool(got) != exp:
            ctx.spec_fail("accessor:check_compatible", inp, {"step": idx, "op": op, "impl": error or bool(got), "expected": exp,
                                                             "listed": names}, size)


# --------------------------------------------------------------------------------------------- C12 clauses
def halves(c: dict, levels: int) -> list[dict]:
    """the cells `_split_allocation` must produce: repeatedly halve the longer side (ties: the width)."""
    if levels == 0:
        return [c]
    if c["h"] > c["w"]:
        a = dict(c, cy=c["cy"] - c["h"] / 4, h=c["h"] / 2, depth=c["depth"] + 1)
        b = dict(c, cy=c["cy"] + c["h"] / 4, h=c["h"] / 2, depth=c["depth"] + 1)
    else:
        a = dict(c, cx=c["cx"] - c["w"] / 4, w=c["w"] / 2, depth=c["depth"] + 1)
        b = dict(c, cx=c["cx"] + c["w"] / 4, w=c["w"] / 2, depth=c["depth"] + 1)
    return halves(a, levels - 1) + halves(b, levels - 1)


def split_cond(c: dict, t) -> bool:
    return (not c["fixed"]) and len(c["alloc"]) > 0 and all(v <= Fraction(t) for _, v in c["alloc"])


def cells_equal(xs: list[dict], ys: list[dict], t: Fraction) -> bool:
    return len(xs) == len(ys) and all(same_cell(a, b, t) for a, b in zip(xs, ys))


def allowed_halvings(w: Fraction, h: Fraction, levels: int, rel: Fraction) -> set:
    """(a, b): the cell is halved a times in x and b times in y by the longer-side rule; when the sides agree within
    `rel` (float stream: the decision depends on rounding) both continuations are allowed."""
    out = set()

    def go(w, h, a, b, k):
        if k == 0:
            out.add((a, b))
            return
        if h > w * (1 + rel):
            go(w, h / 2, a, b + 1, k - 1)
        elif w >= h * (1 + rel) or rel == 0:
            go(w / 2, h, a + 1, b, k - 1)
        else:
            go(w, h / 2, a, b + 1, k - 1)
            go(w / 2, h, a + 1, b, k - 1)
    go(w, h, 0, 0, levels)
    return out


def split_group_ok(parent: dict, kids: list[dict], levels: int, t: Fraction, ta: Fraction) -> str | None:
    """float stream version of `refine_exact` for one cell: 2^levels pieces of the right size tiling the parent."""
    if len(kids) != 2 ** levels:
        return "count"
    if levels == 0:
        return None if same_cell(kids[0], parent, t) else "untouched-cell-changed"
    allowed = allowed_halvings(parent["w"], parent["h"], levels, Fraction(1, 10 ** 9))
    px0, py0, px1, py1 = cbb(parent)
    tot = Fraction(0)
    for k in kids:
        if k["depth"] != parent["depth"] + levels or k["alloc"] != parent["alloc"]:
            return "depth-or-ratios"
        if not any(abs(k["w"] - parent["w"] / 2 ** a) <= t and abs(k["h"] - parent["h"] / 2 ** b) <= t for a, b in allowed):
            return "piece-size"
        x0, y0, x1, y1 = cbb(k)
        if not (x0 >= px0 - t and y0 >= py0 - t and x1 <= px1 + t and y1 <= py1 + t):
            return "piece-inside"
        tot += k["w"] * k["h"]
    if abs(tot - parent["w"] * parent["h"]) > ta * len(kids):
        return "area"
    for u in range(len(kids)):
        for v in range(u + 1, len(kids)):
            if c_overlap(kids[u], kids[v]) > ta:
                return "disjoint"
    return None


def exact_split_check(ctx: Ctx, clause: str, inp: dict, idx: int, op, olds, news, levels_of, t: Fraction, size: int) -> None:
    mode = inp["mode"]
    if mode == "Q":
        exp: list[dict] = []
        for c in olds:
            exp += halves(c, levels_of(c))
        if not cells_equal(exp, news, t):
            ctx.spec_fail(clause, inp, {"step": idx, "op": op, "expected_cells": len(exp), "got_cells": len(news),
                                        "first_diff": next((small(b) for a, b in zip(exp, news) if not same_cell(a, b, t)), None)}, size)
        return
    ta = t * scale_of(olds) * 4
    pos = 0
    for c in olds:
        lv = levels_of(c)
        kids = news[pos:pos + 2 ** lv]
        pos += 2 ** lv
        why = split_group_ok(c, kids, lv, t, ta)
        if why:
            ctx.spec_fail(clause, inp, {"step": idx, "op": op, "cell": small(c), "levels": lv, "why": why}, size)
            return
    if pos != len(news):
        ctx.spec_fail(clause, inp, {"step": idx, "op": op, "expected_cells": pos, "got_cells": len(news)}, size)


def spec_c12_step(ctx: Ctx, inp: dict, idx: int, op, before: dict, after: dict | None, error) -> None:
    mode = inp["mode"]
    size = len(inp["cells"]) + 4 * idx
    olds = before["cells"]
    t = tol_of(mode, olds)
    if op[0] == "M":
        if error is not None or after is None:
            ctx.spec_fail("refine_ok", inp, {"step": idx, "op": op, "raised": error}, size)
            return
        pred, new = after["answer"], after["refined"]
        if isinstance(new, str):
            ctx.spec_fail("refine_ok", inp, {"step": idx, "op": op, "raised": new}, size)
            return
        changed = not cells_equal(olds, new, Fraction(0))
        if pred != changed:
            which = [small(c) for c in olds if (len(c["alloc"]) == 0 or c["fixed"])][:2]
            ctx.spec_fail("mustBeRefined_iff_changes", inp,
                          {"step": idx, "op": op, "must_be_refined": pred, "refine_changes": changed, "suspects": which}, size)
            return
        if pred and not len(new) > len(olds):
            ctx.spec_fail("refine_progress", inp, {"step": idx, "op": op, "before": len(olds), "after": len(new)}, size)
        return
    if error is not None:
        if op[0] == "R" and op[2] <= 0:
            return
        ctx.spec_fail({"R": "refine", "U": "uniform", "G": "griddify"}[op[0]] + "_ok", inp, {"step": idx, "op": op, "raised": error}, size)
        return
    news = after["cells"]
    if op[0] == "R":
        exact_split_check(ctx, "refine_exact", inp, idx, op, olds, news,
                          lambda c: op[2] if split_cond(c, op[1]) else 0, t, size)
    elif op[0] == "U":
        mx = max(c["depth"] for c in olds)
        bad = [small(c) for c in news if not c["fixed"] and c["depth"] != mx]
        if bad:
            ctx.spec_fail("uniform_all_maxdepth", inp, {"step": idx, "op": op, "max_depth": mx, "cell": bad[0]}, size)
            return
        exact_split_check(ctx, "uniform_exact", inp, idx, op, olds, news,
                          lambda c: 0 if c["fixed"] else mx - c["depth"], t, size)
    elif op[0] == "G":
        spec_aligned(ctx, inp, idx, op, olds, news, size)
        if "regrid" in after:
            # `FV.C12.griddify_idempotent`: gridding the result again (cut lines gathered anew) changes nothing
            again = after["regrid"]
            if isinstance(again, str):
                ctx.spec_fail("griddify_ok", inp, {"step": idx, "op": op, "second_call_raised": again}, size)
                return
            if not cells_equal(news, again, t):
                ctx.spec_fail("griddify_idempotent", inp, {"step": idx, "op": op, "cells": len(news), "cells_after_second_call": len(again)}, size)


def spec_aligned(ctx: Ctx, inp: dict, idx: int, op, olds, news, size: int) -> None:
    """no refinable result cell is crossed by a side line of another result cell, sliver cuts (< 1% of the RESULT cell's
    other side) excepted — in both directions (`FV.C12.griddify_no_crossing`).  Since `fixes/C12_griddify_x_before_y.diff`
    (the two sweeps are repeated until a round cuts nothing) there is no excepted region any more: a crossing that was
    refused as a sliver for the taller parent cell is a failure like any other (detail `parent_h` tells the two apart)."""
    mode = inp["mode"]
    t = tol_of(mode, olds)
    margin = Fraction(1, 10 ** 6) if mode == "F" else Fraction(0)
    xs = sorted({v for c in news for v in (cbb(c)[0], cbb(c)[2])})
    ys = sorted({v for c in news for v in (cbb(c)[1], cbb(c)[3])})
    rho = Fraction(0.01) if mode == "Q" else RHO
    for c in news:
        if c["fixed"]:
            continue
        x0, y0, x1, y1 = cbb(c)
        for x in xs:
            if x0 + t < x < x1 - t and min(x - x0, x1 - x) > rho * c["h"] * (1 + margin) + t:
                ps = find_parent(c, olds, t)
                ph = max((olds[i]["h"] for i in ps), default=c["h"])
                ctx.spec_fail("griddify_aligned:x", inp,
                              {"step": idx, "op": op, "cell": small(c), "line_x": float(x), "parent_h": float(ph),
                               "sliver_for_parent": bool(min(x - x0, x1 - x) <= rho * ph * (1 + margin) + t and ph > c["h"])}, size)
                return
        for y in ys:
            if y0 + t < y < y1 - t and min(y - y0, y1 - y) > rho * c["w"] * (1 + margin) + t:
                ps = find_parent(c, olds, t)
                pw = max((olds[i]["w"] for i in ps), default=c["w"])
                ctx.spec_fail("griddify_aligned:y", inp, {"step": idx, "op": op, "cell": small(c), "line_y": float(y),
                                                           "parent_w": float(pw)}, size)
                return

"""
Tie specifications: for every translated Python function, the hand-written model function it must equal.

Each area module defines
  MODE     keyword arguments of `pytrans.Mode` (how effects / math functions / `**2` are translated for this file)
  ENTRIES  list of dicts
     name    key in the result of `tie.run`
     py      path of the Python file below the repository root
     qual    `function` or `Class.member`
     param_types  (optional) types of parameters whose annotation says nothing (`other: Any`)
     vars    universally quantified variables of the tie statement: [(name, type)] with type one of
             S (scalar), Bool, Str, Loc, Rect, Point, Shape, BoundingBox, Fops (the ops record)
     lhs/rhs the two sides of the tie statement (Lean text; generated definitions live in namespace `Gen`;
             `@F@` = the generated function applied to the extra parameters it currently needs, in the order
             Fops, eps, epsA — the variables of these names must be in `vars`; `@A@` = the scalar type)
     free / expr_target / lean_name / py_env   (optional) nested functions and single assignments, see force.py
     deep    (optional) case-split budget of the last tactic of the portfolio (0 = do not try it)
     aux     (optional) an additional statement about the same function (e.g. its default argument): no Float
             self-check, not used as a rewrite rule; `@A@` in lhs/rhs stands for the scalar type
     no_float (optional) skip the Float self-check
     hyp     (optional) hypothesis of the statement, a decidable proposition over `vars`
     tactic  (optional) tactic text replacing the portfolio `tie_tac`
`BY_PROPERTY` says which entries are checked for which property.
"""
from . import geometry, disc, force

AREAS = {"geometry": geometry, "disc": disc, "force": force}

_GEOM_ALL = [e["name"] for e in geometry.ENTRIES]

BY_PROPERTY = {
    "C18": [("geometry", _GEOM_ALL)],
    "C17": [("disc", [e["name"] for e in disc.ENTRIES])],
    "C13": [("force", [e["name"] for e in force.ENTRIES])],
    "C06": [("geometry", ["bounding_box", "area", "area_overlap", "almost_eq", "find_location"])],
    "C02": [("geometry", ["bounding_box", "x_cuttable", "y_cuttable", "x_cuttable.default_ratio", "y_cuttable.default_ratio", "split_horizontal", "split_vertical",
                          "duplicate"])],
    "C12": [("geometry", ["bounding_box", "x_cuttable", "y_cuttable", "x_cuttable.default_ratio",
                          "y_cuttable.default_ratio"])],
    "C11": [("geometry", ["bounding_box", "area", "aspect_ratio", "split_horizontal", "split_vertical", "split",
                          "duplicate"])],
    "C03": [("geometry", ["bounding_box", "area", "area_overlap", "__mul__"])],
    "C01": [("geometry", ["bounding_box", "area", "area_overlap", "is_inside", "overlap"])],
}

"""tools/force/fruchterman_reingold.py circle_circle_intersection_area against lean/FV/Model/Disc.lean."""
MODE = {"monad": "Except", "ops": "FV.Disc.Fns", "raising_ops": ("acos",), "pow2": "ops"}
F = "tools/force/fruchterman_reingold.py"
S = "S"

ENTRIES = [
    {"name": "circle_circle_intersection_area", "py": F, "qual": "circle_circle_intersection_area",
     "vars": [("Fops", "Fops"), ("x1", S), ("y1", S), ("r1", S), ("x2", S), ("y2", S), ("r2", S)],
     "lhs": "@F@ (FV.Tie.Point.mk x1 y1) r1 (FV.Tie.Point.mk x2 y2) r2",
     "rhs": "FV.Disc.area Fops x1 y1 r1 x2 y2 r2",
     "deep": 0},      # a failing deep `grind` on this long monadic chain takes minutes
]

"""tools/force/fruchterman_reingold.py (fruchterman_reingold_layout) against lean/FV/Model/Force.lean.

The layout function itself is a loop nest (not in the translator's subset); its straight-line kernels are tied:
the nested force functions `f_att`, `f_rep` (free variable `k`), the initial temperature and the two clamp statements
that keep a moved centre inside the die (`expr_target`: the right-hand side of the assignment to that target).
`free` maps the source text of the free sub-expressions to (parameter name, type); `py_env` rebuilds, for the Float
self-check, the Python objects those texts refer to from the parameter values.
"""
MODE = {"monad": "Option", "ops": "FV.Force.Ops", "pow2": "ops"}
F = "tools/force/fruchterman_reingold.py"
L = "fruchterman_reingold_layout"
S = "S"
DIE = {"die.width": ("W", S), "die.height": ("H", S)}
ENV = "die = NS(width=W, height=H)"

ENTRIES = [
    {"name": "f_att", "py": F, "qual": L + ".f_att", "param_types": {"x": S, "w": S}, "free": {"k": ("k", S)},
     "vars": [("Fops", "Fops"), ("k", S), ("x", S), ("w", S)],
     "lhs": "@F@ k x w", "rhs": "FV.Force.fAtt Fops k x w", "py_env": ""},
    {"name": "f_rep", "py": F, "qual": L + ".f_rep", "param_types": {"x": S, "w": S}, "free": {"k": ("k", S)},
     "vars": [("Fops", "Fops"), ("k", S), ("x", S), ("w", S)],
     "lhs": "@F@ k x w", "rhs": "FV.Force.fRep Fops k x w", "py_env": ""},
    {"name": "temperature", "py": F, "qual": L, "expr_target": "t", "lean_name": "layout_t0", "free": dict(DIE),
     "vars": [("W", S), ("H", S)],
     "lhs": "@F@ W H", "rhs": "FV.pyMax W H * FV.Force.tenth", "py_env": ENV},
    {"name": "clamp_x", "py": F, "qual": L, "expr_target": "pos[v].x", "lean_name": "layout_clamp_x",
     "free": {**DIE, "pos[v].x": ("px", S)}, "vars": [("W", S), ("H", S), ("px", S)],
     "lhs": "@F@ W H px", "rhs": "FV.Force.clamp (-W / FV.Force.two) (W / FV.Force.two) px",
     "py_env": ENV + "; v = 0; pos = [NS(x=px)]"},
    {"name": "clamp_y", "py": F, "qual": L, "expr_target": "pos[v].y", "lean_name": "layout_clamp_y",
     "free": {**DIE, "pos[v].y": ("py", S)}, "vars": [("W", S), ("H", S), ("py", S)],
     "lhs": "@F@ W H py", "rhs": "FV.Force.clamp (-H / FV.Force.two) (H / FV.Force.two) py",
     "py_env": ENV + "; v = 0; pos = [NS(y=py)]"},
]

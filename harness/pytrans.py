"""
pytrans.py — a small Python → Lean 4 translator for the straight-line numeric kernels of FRAME.

It works on the `ast` of the source FILE TEXT (the module is never imported) and emits scalar-polymorphic Lean
definitions of the same shape as `lean/FV/Model/Geom.lean`, so that they can be
  * executed at `Float` and `Rat` (`#eval`), and
  * proved equal to the hand-written model over every linearly ordered field (`harness/tie.py`).
It is part of the trusted base of the tie: keep it small.  Anything outside the subset below raises
`Untranslatable(reason)`; the caller records it, it is not an error.

SUBSET
  statements   docstrings (ignored), `pass`, `x = e`, `x: T = e`, tuple unpacking `a, b = e1, e2` (right-hand sides are
               all evaluated first), `a, b = f(..)`, attribute assignment on a model record through its property setter
               (`r.center = p`  →  functional record update), `if/elif/else` (the statements that follow an `if`
               are copied into both branches), `return e`, `return` / falling off the end (= `None`), `assert c`.
  expressions  int/float literals, names, `+ - * /`, unary `-`, `e ** 2`, comparisons (also chained), `and/or/not`,
               `a if c else b`, two-argument `max/min` (→ `FV.pyMax/pyMin`, CPython's argument-order semantics), `abs`,
               `x in [a, b]`, `isinstance(x, C)` (decided statically from the types), `x is None`, constructor calls and
               field access of the value classes of RECORDS, `Rectangle(**{KW_…: e, …})`, attribute chains of the model
               record (MODEL_RECORD), enum constants (ENUMS), class-level tolerances (CLASS_PARAMS → extra leading
               parameters `eps`, `epsA`), `math.f(..)` / `math.pi` (→ fields of the ops record parameter `Fops`),
               module-level string/number constants (also imported with `from m import NAME`), calls to other functions,
               methods and properties of the same subset (translated on demand, default arguments filled in).
  fragments    `outer.inner` names a nested function; `free` maps the source text of its free sub-expressions
               (`k`, `die.width`, `pos[v].x`) to (parameter name, type) — they become leading parameters;
               `expr_target="t"` translates the right-hand side of the unique assignment to `t` inside a function that is
               itself outside the subset (a loop nest).  `x ** (1 / 2)` is `Fops.powHalf x` in mode `pow2="ops"`.
  effects      a function that contains an `assert` (or calls such a function) returns `Option T`; `none` is the
               AssertionError.  `return None` in an `Optional[..]` function is the value `none` of `Option T`.
               In mode `monad="Except"` (used for circle_circle_intersection_area) float division is `FV.Tie.pyDiv`
               (ZeroDivisionError on a zero divisor) and the `math` functions named in `raising_ops` return
               `Except PyErr`; the function then returns `Except FV.Disc.PyErr T`.
               An effect under `and/or`/a conditional expression operand is not supported (except `return a if c else b`).

NAME RESOLUTION  is Python's or nothing: a translated function / method / property / constant / class must be bound exactly
               once in its scope (Python takes the LAST binding — a second `def`, an assignment, an import of the same name,
               a star import, `global`, `globals()`/`exec` make it untranslatable); the builtins the translator interprets
               (max, min, abs, float, isinstance, …) and `math` must not be re-bound in the module or an enclosing function;
               a class must be plain (no bases, metaclass, `__getattr__`-like hooks) and must not be patched from outside its
               body anywhere in the file (`Rectangle.is_inside = …`, `setattr(Rectangle, …)`).  Patching from OTHER files
               is not looked for.  Attribute assignment is accepted only on a local bound to a fresh object (the result of
               a call such as `self.duplicate()`), never on a parameter or an alias: the tie statement is about return
               values and says nothing about the final state of the arguments.
  trusted leaves `Point` (constructor, x/y accessors) must match POINT_EXPECTED statement for statement, `Shape` /
               `BoundingBox` must be plain dataclasses with exactly the table's fields; otherwise every function whose
               generated definition mentions them is `untranslatable: trusted leaf changed`.

SEMANTIC CHOICES (documented because they are trusted)
  * literals: an integral literal `n` (also `2.0`) is `((n : Nat) : α)`; a non-integral decimal literal `p/q` (exactly,
    from the source text) is `((p : Nat) : α) / ((q : Nat) : α)` — at `Float` this is the correctly rounded quotient of two
    exactly representable integers (p, q < 2^53), i.e. the double CPython parses the literal to.
  * float `a == b` is `FV.Tie.pyEq a b` (`a ≤ b ∧ b ≤ a`: IEEE equality; `=` in a linear order); `!=` its negation.
  * `x ** 2` is `x * x` (mode `pow2="mul"`) or `Fops.sq x` (mode `pow2="ops"`).
  * `/` outside the `Except` mode is the field division (a zero divisor is NOT modelled, exactly as in the hand models).
  * `Rectangle(**{…})`: the attribute defaults are read from the leading `self._x = e` statements of `__init__`, the
    keys are mapped by MODEL_RECORD[..]["ctor_keys"]; the constructor's own type/positivity assertions are not translated
    (class invariant: rectangles have positive sides and a valid region).
  * `Point(a, b)`, `Shape(w, h)`, `BoundingBox(ll, ur)` are plain records (the translator checks that the dataclasses
    have exactly these fields; `Point`'s two-argument constructor is trusted).
  * `Rectangle.distance_epsilon()/area_epsilon()` are parameters (the "tolerance is defined" assertion is not modelled).
  Every one of these choices is exercised on each run by the Float self-check of `tie.py` (generated definition executed
  at `Float` against the real Python function, bit for bit).
"""
from __future__ import annotations
import ast
import decimal
import os
from dataclasses import dataclass, field


class Untranslatable(Exception):
    pass


# ----------------------------------------------------------------------------------------------------------- tables
S, PROP, BOOL, STR, LOC, NONE, ANY = "S", "Prop", "Bool", "Str", "Loc", "None", "Any"

# value classes: python class -> (lean structure, [(field, type)])
RECORDS = {
    "Point": ("FV.Tie.Point", [("x", S), ("y", S)]),
    "Shape": ("FV.Tie.Shape", [("w", S), ("h", S)]),
    "BoundingBox": ("FV.Tie.BoundingBox", [("ll", "Point"), ("ur", "Point")]),
}
DATACLASSES = {"Shape", "BoundingBox"}      # checked against the source; `==` is field-wise

# the model record: python class -> lean record, raw attributes (type, read template, update [(field, template)])
MODEL_RECORD = {
    "Rectangle": {
        "lean": "FV.Rect", "ty": "Rect",
        "fields": ["cx", "cy", "w", "h", "region", "fixed", "hard", "loc"],
        "attrs": {
            "_center": ("Point", "(FV.Tie.Point.mk {o}.cx {o}.cy)", [("cx", "{v}.x"), ("cy", "{v}.y")]),
            "_shape": ("Shape", "(FV.Tie.Shape.mk {o}.w {o}.h)", [("w", "{v}.w"), ("h", "{v}.h")]),
            "_fixed": (BOOL, "{o}.fixed", [("fixed", "{v}")]),
            "_hard": (BOOL, "{o}.hard", [("hard", "{v}")]),
            "_region": (STR, "{o}.region", [("region", "{v}")]),
            "_location": (LOC, "{o}.loc", [("loc", "{v}")]),
        },
        "ctor_keys": {"KW_CENTER": "_center", "KW_SHAPE": "_shape", "KW_FIXED": "_fixed", "KW_HARD": "_hard",
                      "KW_REGION": "_region"},
    }
}
# names the translator interprets itself: a module that re-binds one of them is outside the subset
INTERPRETED = ("max", "min", "abs", "float", "isinstance", "int", "bool", "str", "tuple", "True", "False", "None")
HOOKS = ("__getattr__", "__getattribute__", "__setattr__", "__delattr__", "__init_subclass__", "__class_getitem__",
         "__new__")

# trusted leaf: `Point` is read as a plain record (x, y).  Its constructor and accessors must have exactly this shape
# (annotations, docstrings and comments aside); anything else makes every function that uses a Point untranslatable.
POINT_EXPECTED = '''
class Point:
    def __init__(self, x=None, y=None):
        if x is None:
            self.x, self.y = 0, 0
        elif y is None:
            if isinstance(x, Point):
                self.x, self.y = x.x, x.y
            elif isinstance(x, tuple):
                self.x, self.y = x
            else:
                self.x, self.y = x, x
        else:
            assert isinstance(x, (int, float)) and isinstance(y, (int, float))
            self.x, self.y = x, y

    @property
    def x(self):
        return self._x

    @x.setter
    def x(self, value):
        self._x = value

    @property
    def y(self):
        return self._y

    @y.setter
    def y(self, value):
        self._y = value
'''


def _shape_of(fn: ast.FunctionDef) -> str:
    """a function up to annotations and docstring: decorators, parameter names, defaults, body."""
    body = [st for st in fn.body if not (isinstance(st, ast.Expr) and isinstance(st.value, ast.Constant)
                                          and isinstance(st.value.value, str))]
    a = fn.args
    return "|".join([",".join(ast.dump(d) for d in fn.decorator_list), ",".join(x.arg for x in a.args),
                     ",".join(ast.dump(d) for d in a.defaults), str(bool(a.vararg or a.kwarg or a.kwonlyargs)),
                     ";".join(ast.dump(st) for st in body)])


CLASS_TY = {"Rectangle": "Rect", "Point": "Point", "Shape": "Shape", "BoundingBox": "BoundingBox"}
TY_CLASS = {v: k for k, v in CLASS_TY.items()}

ENUMS = {
    ("Rectangle", "StogLocation"): {"TRUNK": "FV.Loc.trunk", "NORTH": "FV.Loc.north", "SOUTH": "FV.Loc.south",
                                    "EAST": "FV.Loc.east", "WEST": "FV.Loc.west", "NO_POLYGON": "FV.Loc.nopoly"},
}
CLASS_PARAMS = {("Rectangle", "distance_epsilon"): "eps", ("Rectangle", "area_epsilon"): "epsA"}
EXTRA_ORDER = ["Fops", "eps", "epsA"]

LEAN_RESERVED = {"end", "at", "from", "have", "show", "fun", "then", "else", "if", "open", "in", "do", "by", "with",
                 "match", "let", "def", "theorem", "where", "namespace", "section", "variable", "instance", "class",
                 "structure", "Type", "Prop", "Sort", "import", "mut", "for", "return", "deriving", "using", "calc",
                 "Fops", "eps", "epsA", "α", "some", "none", "true", "false"}

VARIABLES = ("variable {α : Type} [Add α] [Sub α] [Mul α] [Div α] [Neg α] [LT α] [LE α]\n"
             "  [DecidableLT α] [DecidableLE α] [NatCast α] [DecidableEq α]")


def Tup(*ts):
    return ("Tup",) + tuple(ts)


def Opt(t):
    return ("Opt", t)


def lean_ty(t, a="α") -> str:
    if t == S:
        return a
    if t in (BOOL, PROP):
        return "Bool"
    if t == STR:
        return "String"
    if t == LOC:
        return "FV.Loc"
    if t == "Rect":
        return f"(FV.Rect {a})"
    if t in RECORDS:
        return f"({RECORDS[t][0]} {a})"
    if isinstance(t, tuple) and t[0] == "Tup":
        return "(" + " × ".join(lean_ty(x, a) for x in t[1:]) + ")"
    if isinstance(t, tuple) and t[0] == "Opt":
        return f"(Option {lean_ty(t[1], a)})"
    raise Untranslatable(f"no Lean type for {t}")


def lname(n: str) -> str:
    return n + "_" if n in LEAN_RESERVED else n


@dataclass
class E:
    """a translated expression: atomic Lean text + type (+ constant truth value when statically known)."""
    code: str
    ty: object
    const: object = None


@dataclass
class Fn:
    py_file: str
    qualname: str
    lean: str                                     # name inside namespace Gen
    params: list                                  # [(python name, type)]
    defaults: dict = field(default_factory=dict)  # python name -> ast node
    ret: object = None                            # value type (before the monad)
    effect: bool = False
    needs: list = field(default_factory=list)     # subset of EXTRA_ORDER
    deps: list = field(default_factory=list)      # lean names of the callees (transitively)
    text: str = ""                                # the Lean definition(s)
    lines: tuple = (0, 0)                         # source line range
    kind: str = "function"                        # function / method / property / static / expr
    free: dict = field(default_factory=dict)      # source text -> (lean name, type) of the free sub-expressions
    source: str = ""                              # source text of the function / of the expression


@dataclass
class Mode:
    monad: str = "Option"            # "Option" | "Except"
    ops: str | None = None           # lean type of the ops record, e.g. "FV.Disc.Fns"
    raising_ops: tuple = ()          # math functions returning Except in the ops record
    pow2: str = "mul"                # "mul" | "ops"


# ------------------------------------------------------------------------------------------------------- translator
class Translator:
    def __init__(self, repo: str, mode: Mode | None = None):
        self.repo = repo
        self.mode = mode or Mode()
        self.files: dict[str, ast.Module] = {}
        self.src: dict[str, str] = {}
        self.fns: dict[tuple, Fn] = {}
        self.order: list[Fn] = []
        self.busy: set = set()
        self.scopes: dict = {}
        self.tmp = 0

    # ---- source access
    def module(self, rel: str) -> ast.Module:
        if rel not in self.files:
            path = os.path.join(self.repo, rel)
            try:
                with open(path, encoding="utf-8") as f:
                    self.src[rel] = f.read()
                self.files[rel] = ast.parse(self.src[rel])
            except (OSError, SyntaxError) as ex:
                raise Untranslatable(f"cannot read/parse {rel}: {ex}")
        return self.files[rel]

    def scope(self, rel: str) -> dict:
        """module-level bindings of a file: how often each name is bound (def / class / import / assignment / del /
        `global` re-binding anywhere), whether there is a star import, and which `Name.attr` are assigned anywhere in
        the file (`Rectangle.is_inside = …`, `setattr(Rectangle, …)` → (`Rectangle`, `*`))."""
        if rel in self.scopes:
            return self.scopes[rel]
        mod = self.module(rel)
        counts: dict = {}
        info = {"counts": counts, "star": False, "patched": set()}

        def bind(name):
            counts[name] = counts.get(name, 0) + 1

        def top(stmts):
            for st in stmts:
                if isinstance(st, (ast.FunctionDef, ast.AsyncFunctionDef, ast.ClassDef)):
                    bind(st.name)
                elif isinstance(st, ast.Import):
                    for a in st.names:
                        bind((a.asname or a.name).split(".")[0])
                elif isinstance(st, ast.ImportFrom):
                    for a in st.names:
                        if a.name == "*":
                            info["star"] = True
                        else:
                            bind(a.asname or a.name)
                else:
                    for n in ast.walk(st):
                        if isinstance(n, ast.Name) and isinstance(n.ctx, (ast.Store, ast.Del)):
                            bind(n.id)
                        elif isinstance(n, (ast.FunctionDef, ast.AsyncFunctionDef, ast.ClassDef)):
                            bind(n.name)
                        elif isinstance(n, (ast.Import, ast.ImportFrom)):
                            top([n])
        top(mod.body)
        for n in ast.walk(mod):          # anywhere in the file
            if isinstance(n, ast.Global):
                for name in n.names:
                    bind(name)
            elif isinstance(n, ast.Attribute) and isinstance(n.ctx, (ast.Store, ast.Del)) and isinstance(n.value, ast.Name):
                info["patched"].add((n.value.id, n.attr))
            elif isinstance(n, ast.Call) and isinstance(n.func, ast.Name) and n.func.id in ("setattr", "delattr") \
                    and n.args and isinstance(n.args[0], ast.Name):
                info["patched"].add((n.args[0].id, "*"))
            elif isinstance(n, ast.Call) and isinstance(n.func, ast.Name) and n.func.id in ("globals", "vars", "exec", "eval"):
                info["star"] = True       # dynamic re-binding cannot be excluded
        self.scopes[rel] = info
        return info

    def once(self, rel: str, name: str):
        """`name` must be bound exactly once at module level of `rel` (Python takes the LAST binding; a second one, or a
        star import that may hide it, is outside the subset)."""
        sc = self.scope(rel)
        if sc["counts"].get(name, 0) != 1 or sc["star"]:
            raise Untranslatable(f"{name} is bound {sc['counts'].get(name, 0)} times in {rel}"
                                 + (" (star import / dynamic globals)" if sc["star"] else ""))

    def unshadowed(self, rel: str, name: str, enclosing=()):
        """an interpreted builtin must not be re-bound in the module (or in an enclosing function)."""
        sc = self.scope(rel)
        if sc["counts"].get(name, 0) or sc["star"] or name in enclosing:
            raise Untranslatable(f"builtin {name} is re-bound in {rel}")

    def class_ok(self, rel: str, cls: str, member: str | None = None):
        """the class is a plain class (no bases / metaclass / attribute hooks), and `member` is not re-bound from outside
        (`Cls.member = …`, `setattr(Cls, …)`) in its own file."""
        rel2 = self.class_file(rel, cls)
        node = self.resolve_class(rel2, cls)
        self.once(rel2, cls)
        if rel2 != rel:
            self.once(rel, cls)
        decos = [ast.unparse(d) for d in node.decorator_list]
        if node.bases or node.keywords or (decos and decos != ["dataclass"]):
            raise Untranslatable(f"class {cls} has bases / a metaclass / decorators")
        for st in node.body:
            if isinstance(st, ast.FunctionDef) and st.name in HOOKS:
                raise Untranslatable(f"class {cls} defines {st.name}")
        for r in {rel, rel2}:
            pat = self.scope(r)["patched"]
            if (cls, "*") in pat or (member is not None and (cls, member) in pat):
                raise Untranslatable(f"{cls}.{member or '*'} is re-bound outside the class body in {r}")

    def check_leaves(self, rel: str, text: str):
        """trusted leaves used by a generated definition must still have the expected source shape."""
        if "FV.Tie.Point" in text:
            try:
                self.class_ok(rel, "Point")
                node = self.resolve_class(rel, "Point")
                want = {}
                for st in ast.parse(POINT_EXPECTED).body[0].body:
                    want.setdefault(st.name, []).append(_shape_of(st))
                have = {}
                for st in node.body:
                    if isinstance(st, ast.FunctionDef) and st.name in want:
                        have.setdefault(st.name, []).append(_shape_of(st))
                    elif not isinstance(st, ast.FunctionDef):
                        for n in ast.walk(st):
                            if isinstance(n, ast.Name) and isinstance(n.ctx, ast.Store) and n.id in ("x", "y", "__init__"):
                                raise Untranslatable("Point: class-level binding of " + n.id)
                if have != want:
                    bad = [k for k in want if have.get(k) != want[k]]
                    raise Untranslatable(f"Point.{bad[0]} is not the plain record member the translator assumes")
                pat = self.scope(self.class_file(rel, "Point"))["patched"]
                if any(c == "Point" for c, _ in pat):
                    raise Untranslatable("Point is patched outside its class body")
            except Untranslatable as ex:
                raise Untranslatable(f"trusted leaf changed: {ex}")
        for cls in DATACLASSES:
            if RECORDS[cls][0] in text:
                try:
                    self.class_ok(rel, cls)
                    self.check_dataclass(rel, cls)
                except Untranslatable as ex:
                    raise Untranslatable(f"trusted leaf changed: {ex}")

    def find_def(self, rel: str, qual: str, accessor: str = "get"):
        """the FunctionDef for `f` or `Class.f` (for a property: the getter, or the setter with accessor='set')."""
        mod = self.module(rel)
        parts = qual.split(".")
        body = mod.body
        cls = None
        for p in parts[:-1]:
            outer = next((n for n in body if isinstance(n, (ast.ClassDef, ast.FunctionDef)) and n.name == p), None)
            if outer is None:
                raise Untranslatable(f"{p} not found in {rel}")
            cls = outer if isinstance(outer, ast.ClassDef) else None      # a nested function has no class
            body = outer.body
        name = parts[-1]
        if len(parts) == 1:
            self.once(rel, name)
        elif cls is not None:
            self.class_ok(rel, cls.name, name)
        found = []
        for n in body:
            if isinstance(n, ast.FunctionDef) and n.name == name:
                decos = [ast.unparse(d) for d in n.decorator_list]
                is_setter = any(d.endswith(".setter") for d in decos)
                if (accessor == "set") == is_setter:
                    kind = ("property" if "property" in decos else "static" if "staticmethod" in decos
                            else "setter" if is_setter else "method" if cls is not None else "function")
                    if any(d not in ("property", "staticmethod") and not d.endswith(".setter") for d in decos):
                        raise Untranslatable(f"{qual}: decorator {decos}")
                    found.append((n, kind))
            elif not isinstance(n, ast.FunctionDef):      # any other binding of the name in this scope
                for m in ast.walk(n):
                    if (isinstance(m, ast.Name) and isinstance(m.ctx, (ast.Store, ast.Del)) and m.id == name) or \
                            (isinstance(m, (ast.FunctionDef, ast.ClassDef)) and m.name == name) or \
                            (isinstance(m, (ast.Import, ast.ImportFrom))
                             and any((a.asname or a.name).split(".")[0] == name for a in m.names)):
                        raise Untranslatable(f"{qual}: {name} is also bound by another statement of its scope")
        if len(found) > 1:
            raise Untranslatable(f"{qual}: defined {len(found)} times (Python takes the last definition)")
        if not found:
            raise Untranslatable(f"{qual} not found in {rel}")
        return found[0]

    def resolve_name(self, rel: str, name: str):
        """module-level name (followed through `from m import name`): ('const', file, value node) | ('def', file, name)."""
        mod = self.module(rel)
        for n in mod.body:
            if isinstance(n, ast.FunctionDef) and n.name == name:
                self.once(rel, name)
                return ("def", rel, name)
            if isinstance(n, ast.Assign) and len(n.targets) == 1 and isinstance(n.targets[0], ast.Name) \
                    and n.targets[0].id == name:
                self.once(rel, name)
                return ("const", rel, n.value)
            if isinstance(n, ast.ImportFrom) and n.level == 0 and any((a.asname or a.name) == name for a in n.names):
                self.once(rel, name)
                orig = next(a.name for a in n.names if (a.asname or a.name) == name)
                rel2 = n.module.replace(".", "/") + ".py"
                if os.path.exists(os.path.join(self.repo, rel2)):
                    return self.resolve_name(rel2, orig)
        if self.scope(rel)["counts"].get(name):
            raise Untranslatable(f"{name} is bound in {rel} by a statement the translator does not read")
        return None

    def check_dataclass(self, rel: str, cls: str):
        """the value classes must still be what RECORDS says."""
        node = self.resolve_class(rel, cls)
        if node is None:
            raise Untranslatable(f"class {cls} not found from {rel}")
        if cls in DATACLASSES:
            if [ast.unparse(d) for d in node.decorator_list] != ["dataclass"]:
                raise Untranslatable(f"{cls} is not a plain @dataclass")
            flds = [n.target.id for n in node.body if isinstance(n, ast.AnnAssign) and isinstance(n.target, ast.Name)]
            if flds != [f for f, _ in RECORDS[cls][1]] or any(isinstance(n, ast.FunctionDef) for n in node.body):
                raise Untranslatable(f"{cls}: fields {flds} differ from the table")

    def resolve_class(self, rel: str, cls: str):
        mod = self.module(rel)
        for n in mod.body:
            if isinstance(n, ast.ClassDef) and n.name == cls:
                return n
            if isinstance(n, ast.ImportFrom) and n.level == 0 and any((a.asname or a.name) == cls for a in n.names):
                rel2 = n.module.replace(".", "/") + ".py"
                if os.path.exists(os.path.join(self.repo, rel2)):
                    return self.resolve_class(rel2, cls)
        return None

    def class_file(self, rel: str, cls: str) -> str:
        mod = self.module(rel)
        for n in mod.body:
            if isinstance(n, ast.ClassDef) and n.name == cls:
                return rel
            if isinstance(n, ast.ImportFrom) and n.level == 0 and any((a.asname or a.name) == cls for a in n.names):
                rel2 = n.module.replace(".", "/") + ".py"
                if os.path.exists(os.path.join(self.repo, rel2)):
                    return self.class_file(rel2, cls)
        raise Untranslatable(f"class {cls} not found from {rel}")

    # ---- types from annotations
    def ann(self, node):
        if node is None:
            return ANY
        if isinstance(node, ast.Constant) and isinstance(node.value, str):
            try:
                return self.ann(ast.parse(node.value, mode="eval").body)
            except SyntaxError:
                return ANY
        if isinstance(node, ast.Name):
            if node.id in ("float", "int"):
                return S
            if node.id == "bool":
                return BOOL
            if node.id == "str":
                return STR
            if node.id in CLASS_TY:
                return CLASS_TY[node.id]
            if node.id == "StogLocation":
                return LOC
            return ANY
        if isinstance(node, ast.Attribute) and node.attr == "StogLocation":
            return LOC
        if isinstance(node, ast.Subscript):
            base = ast.unparse(node.value)
            args = node.slice.elts if isinstance(node.slice, ast.Tuple) else [node.slice]
            if base in ("tuple", "Tuple"):
                return Tup(*[self.ann(a) for a in args])
            if base == "Optional":
                return Opt(self.ann(args[0]))
        if isinstance(node, ast.BinOp) and isinstance(node.op, ast.BitOr):
            l, r = node.left, node.right
            if isinstance(r, ast.Constant) and r.value is None:
                return Opt(self.ann(l))
        return ANY

    # ---- function translation
    def get(self, rel: str, qual: str, overrides: dict | None = None, accessor: str = "get",
            free: dict | None = None, expr_target: str | None = None, lean_name: str | None = None) -> Fn:
        """`free` maps source text of sub-expressions (free variables of a nested function, attribute chains such as
        `die.width`, `pos[v].x`) to (lean name, type): they become leading parameters.  With `expr_target` the
        translated object is the right-hand side of the unique assignment to that target inside function `qual`."""
        key = (rel, qual, accessor, expr_target)
        ov = tuple(sorted((overrides or {}).items()))
        if key in self.fns:
            fn = self.fns[key]
            if isinstance(fn, Untranslatable):
                raise fn
            if ov and any(dict(fn.params).get(k) != v for k, v in ov):
                raise Untranslatable(f"{qual}: two different specialisations")
            return fn
        if key in self.busy:
            raise Untranslatable(f"{qual}: recursion")
        self.busy.add(key)
        try:
            fn = self.translate(rel, qual, dict(ov), accessor, free or {}, expr_target, lean_name)
        except Untranslatable as ex:
            self.fns[key] = ex
            raise
        finally:
            self.busy.discard(key)
        self.fns[key] = fn
        self.order.append(fn)
        return fn

    def translate(self, rel: str, qual: str, overrides: dict, accessor: str, free: dict, expr_target, lean_name) -> Fn:
        node, kind = self.find_def(rel, qual, accessor)
        cls = qual.split(".")[-2] if "." in qual else None
        if cls is not None and cls not in CLASS_TY and kind == "function":
            cls = None                                      # nested function: `outer.inner`
        self.enclosing = set()
        if "." in qual and cls is None or expr_target is not None:      # names bound in the enclosing function(s)
            outer = self.module(rel)
            for p in (qual.split(".") if expr_target is not None else qual.split(".")[:-1]):
                outer = next(n for n in outer.body if isinstance(n, (ast.FunctionDef, ast.ClassDef)) and n.name == p)
                if isinstance(outer, ast.FunctionDef):
                    self.enclosing |= {a.arg for a in outer.args.args}
                    self.enclosing |= {n.id for n in ast.walk(outer)
                                       if isinstance(n, ast.Name) and isinstance(n.ctx, (ast.Store, ast.Del))}
                    self.enclosing |= {n.name for n in ast.walk(outer)
                                       if isinstance(n, (ast.FunctionDef, ast.ClassDef)) and n is not outer}
        if expr_target is not None:
            return self.translate_expr(rel, qual, node, free, expr_target, lean_name)
        a = node.args
        if a.vararg or a.kwarg or a.kwonlyargs or a.posonlyargs:
            raise Untranslatable(f"{qual}: unsupported parameter kinds")
        params = []
        for i, p in enumerate(a.args):
            if i == 0 and cls is not None and kind != "static":
                if cls not in CLASS_TY:
                    raise Untranslatable(f"{qual}: methods of class {cls} are not in the table")
                t = CLASS_TY[cls]
            else:
                t = overrides.get(p.arg) or self.ann(p.annotation)
            if p.arg in overrides:
                t = overrides[p.arg]
            if t == ANY:
                raise Untranslatable(f"{qual}: parameter {p.arg} has no translatable type")
            params.append((p.arg, t))
        params = [(nm, t) for nm, t in free.values()] + params
        fn = Fn(py_file=rel, qualname=qual, lean=lean_name or qual.replace(".", "_"), params=params, kind=kind,
                lines=(node.lineno, node.end_lineno))
        fn.free = dict(free)
        fn.source = ast.get_source_segment(self.src[rel], node) or ""
        nd = len(a.defaults)
        for p, d in zip(a.args[len(a.args) - nd:], a.defaults):
            fn.defaults[p.arg] = d
        ctx = Ctx(self, fn, rel, cls)
        env = {p: t for p, t in params}
        ir = ctx.block(node.body, env)
        return self.finish(fn, ctx, ir, rel, cls)

    def translate_expr(self, rel, qual, node, free, target, lean_name) -> Fn:
        hits = [st for st in ast.walk(node) if isinstance(st, ast.Assign) and len(st.targets) == 1
                and ast.unparse(st.targets[0]) == target]
        if len(hits) != 1:
            raise Untranslatable(f"{qual}: {len(hits)} assignments to `{target}`")
        fn = Fn(py_file=rel, qualname=f"{qual}::{target}", lean=lean_name or (qual + "_" + target).replace(".", "_"),
                params=[(nm, t) for nm, t in free.values()], kind="expr",
                lines=(hits[0].lineno, hits[0].end_lineno))
        fn.free = dict(free)
        fn.source = ast.get_source_segment(self.src[rel], hits[0].value) or ""
        ctx = Ctx(self, fn, rel, None)
        ir = ctx.block([ast.Return(value=hits[0].value, lineno=hits[0].lineno)], {p: t for p, t in fn.params})
        return self.finish(fn, ctx, ir, rel, None)

    def finish(self, fn, ctx, ir, rel, cls) -> Fn:
        params = fn.params
        fn.needs = [x for x in EXTRA_ORDER if x in ctx.needs]
        fn.effect = ctx.effect
        fn.deps = ctx.deps
        fn.ret = ctx.unify_ret()
        binders = []
        if "Fops" in fn.needs:
            binders.append(f"(Fops : {self.mode.ops} α)")
        binders += [f"({x} : α)" for x in fn.needs if x != "Fops"]
        binders += [f"({lname(p)} : {lean_ty(t)})" for p, t in params]
        rty = lean_ty(fn.ret)
        if fn.effect:
            rty = f"(Option {rty})" if self.mode.monad == "Option" else f"(Except FV.Disc.PyErr {rty})"
        body = ctx.render(ir, "  ")
        text = f"def {fn.lean} {' '.join(binders)} : {rty} :=\n  {body}\n"
        self.check_leaves(rel, text)
        # defaults as separate constants (so that a tie statement can mention them)
        for p, d in fn.defaults.items():
            try:
                c2 = Ctx(self, fn, rel, cls)
                e = c2.value(c2.expr(d, {}, None))
                if not c2.needs and not c2.effect:
                    text += f"def {fn.lean}__dflt_{p} : {lean_ty(e.ty)} := {e.code}\n"
            except Untranslatable:
                pass
        fn.text = text
        return fn


class Ctx:
    """translation of one function body."""

    def __init__(self, tr: Translator, fn: Fn, rel: str, cls: str | None):
        self.tr, self.fn, self.rel, self.cls = tr, fn, rel, cls
        self.enclosing = set(getattr(tr, "enclosing", ()))
        self.needs: set = set()
        self.effect = False
        self.deps: list = []
        self.rets: list = []       # types of the return values
        self.size = 0

    def fresh(self, base="t"):
        self.tr.tmp += 1
        return f"{base}_{self.tr.tmp}"

    def fail(self, node, why):
        raise Untranslatable(f"{self.fn.qualname} line {getattr(node, 'lineno', '?')}: {why}")

    # ---- statements → IR
    def wrap(self, binds, ir):
        for name, m in reversed(binds):
            ir = ("bind", name, m, ir)
        return ir

    def block(self, body, env):
        self.size += 1
        if self.size > 400:
            raise Untranslatable(f"{self.fn.qualname}: too many paths")
        if not body:
            self.rets.append(NONE)
            return ("ret", E("none", NONE))
        st, rest = body[0], body[1:]
        if isinstance(st, ast.Expr) and isinstance(st.value, ast.Constant) and isinstance(st.value.value, str):
            return self.block(rest, env)
        if isinstance(st, ast.Pass):
            return self.block(rest, env)
        if isinstance(st, ast.Return):
            if st.value is None or (isinstance(st.value, ast.Constant) and st.value.value is None):
                self.rets.append(NONE)
                return ("ret", E("none", NONE))
            if isinstance(st.value, ast.IfExp):      # `return a if c else b` = statement-level if
                v = st.value
                return self.block([ast.If(test=v.test, body=[ast.Return(value=v.body)],
                                          orelse=[ast.Return(value=v.orelse)])], env)
            binds = []
            e = self.value(self.expr(st.value, env, binds))
            self.rets.append(e.ty)
            return self.wrap(binds, ("ret", e))
        if isinstance(st, ast.Assert):
            binds = []
            c = self.expr(st.test, env, binds)
            if c.const is True:
                return self.block(rest, env)
            if self.tr.mode.monad != "Option":
                self.fail(st, "assert in Except mode")
            self.effect = True
            return self.wrap(binds, ("if", self.prop(c, st), self.block(rest, env), ("fail",)))
        if isinstance(st, ast.If):
            binds = []
            c = self.expr(st.test, env, binds)
            if c.const is True:
                return self.wrap(binds, self.block(st.body + rest, env))
            if c.const is False:
                return self.wrap(binds, self.block(st.orelse + rest, env))
            a = self.block(st.body + rest, dict(env))
            b = self.block(st.orelse + rest, dict(env))
            return self.wrap(binds, ("if", self.prop(c, st), a, b))
        if isinstance(st, ast.FunctionDef):          # local helper (closure over parameters / locals): a Lean `fun`
            return self.local_def(st, rest, env)
        if isinstance(st, ast.AnnAssign) and st.value is not None and isinstance(st.target, ast.Name):
            st = ast.Assign(targets=[st.target], value=st.value, lineno=st.lineno)
        if isinstance(st, ast.Assign) and len(st.targets) == 1:
            return self.assign(st.targets[0], st.value, rest, env, st)
        self.fail(st, f"statement {type(st).__name__}")

    def local_def(self, st, rest, env):
        """`def helper(a: float, …): …` inside a function body becomes `let helper := fun a … => body`.  The helper must
        be effect-free, must not be recursive, and the variables it captures must not be re-bound after the `def`
        (Python closures see later re-bindings, a Lean `fun` does not)."""
        a = st.args
        if st.decorator_list or a.vararg or a.kwarg or a.kwonlyargs or a.posonlyargs or a.defaults:
            self.fail(st, "local function with decorators / special parameters")
        params = [(p.arg, self.tr.ann(p.annotation)) for p in a.args]
        if any(t == ANY for _, t in params):
            self.fail(st, f"local function {st.name}: parameters need type annotations")
        sub = Ctx(self.tr, self.fn, self.rel, self.cls)
        sub.needs, sub.deps = self.needs, self.deps
        inner = dict(env)
        inner.pop(st.name, None)
        inner.update(params)
        ir = sub.block(st.body, inner)
        if sub.effect:
            self.fail(st, f"local function {st.name} has an effect (assert / raising operation)")
        ret = sub.unify_ret()
        captured = {n.id for n in ast.walk(st) if isinstance(n, ast.Name)} - {p for p, _ in params}
        for later in rest:
            for n in ast.walk(later):
                if isinstance(n, ast.Name) and isinstance(n.ctx, ast.Store) and n.id in captured:
                    self.fail(st, f"variable {n.id} captured by {st.name} is re-bound later")
        binders = " ".join(f"({lname(p)} : {lean_ty(t)})" for p, t in params)
        env = dict(env)
        env[st.name] = ("Fun", tuple(t for _, t in params), ret)
        body = sub.render(ir, "      ")
        return ("let", lname(st.name), f"(fun {binders} =>\n      {body})", self.block(rest, env))

    def assign(self, target, value, rest, env, st):
        binds = []
        lets = []       # (lean name, code)
        env = dict(env)

        def bind_target(t, e: E, fresh=False):
            if isinstance(t, ast.Name):
                lets.append((lname(t.id), e.code))
                env[t.id] = e.ty
                env["@fresh"] = (env.get("@fresh", frozenset()) | {t.id}) if fresh else \
                    (env.get("@fresh", frozenset()) - {t.id})
            elif isinstance(t, ast.Attribute) and isinstance(t.value, ast.Name) and t.value.id in env:
                obj = t.value.id
                oty = env[obj]
                if obj not in env.get("@fresh", frozenset()):
                    # the tie statement says nothing about the state of the arguments: no mutation of a parameter / alias
                    self.fail(st, f"attribute assignment on {obj}, which is not a local bound to a fresh object (call result)")
                cls = TY_CLASS.get(oty)
                if cls not in MODEL_RECORD:
                    self.fail(st, f"attribute assignment on {oty}")
                raw = self.setter_field(cls, t.attr, st)
                ty, _, upd = MODEL_RECORD[cls]["attrs"][raw]
                if e.ty != ty:
                    self.fail(st, f"assigning {e.ty} to {t.attr}")
                ups = ", ".join(f"{f} := {tpl.format(v=e.code)}" for f, tpl in upd)
                lets.append((lname(obj), f"{{ {lname(obj)} with {ups} }}"))
            else:
                self.fail(st, "assignment target")

        if isinstance(target, (ast.Tuple, ast.List)):
            n = len(target.elts)
            if isinstance(value, (ast.Tuple, ast.List)) and len(value.elts) == n:
                tmps = []
                for v in value.elts:          # all right-hand sides first
                    e = self.value(self.expr(v, env, binds))
                    if isinstance(v, ast.Constant):
                        tmps.append(e)
                    else:
                        nm = self.fresh("rhs")
                        lets.append((nm, e.code))
                        tmps.append(E(nm, e.ty))
                for t, e, v in zip(target.elts, tmps, value.elts):
                    bind_target(t, e, isinstance(v, ast.Call))
            else:
                e = self.value(self.expr(value, env, binds))
                if not (isinstance(e.ty, tuple) and e.ty[0] == "Tup" and len(e.ty) - 1 == n):
                    self.fail(st, f"unpacking a value of type {e.ty}")
                nm = self.fresh("tup")
                lets.append((nm, e.code))
                for i, t in enumerate(target.elts):
                    proj = nm + ".2" * i + (".1" if i < n - 1 else "")
                    bind_target(t, E(proj, e.ty[1 + i]))
        else:
            e = self.value(self.expr(value, env, binds))
            bind_target(target, e, isinstance(value, ast.Call))
        ir = self.block(rest, env)
        for nm, code in reversed(lets):
            ir = ("let", nm, code, ir)
        return self.wrap(binds, ir)

    def setter_field(self, cls, attr, st):
        """`obj.attr = v`: a raw attribute of the table, or a property whose setter is `self._raw = <param>`."""
        attrs = MODEL_RECORD[cls]["attrs"]
        if attr in attrs:
            return attr
        rel = self.tr.class_file(self.rel, cls)
        node, _ = self.tr.find_def(rel, f"{cls}.{attr}", accessor="set")
        body = [s for s in node.body if not (isinstance(s, ast.Expr) and isinstance(s.value, ast.Constant))]
        if len(node.args.args) == 2 and len(body) == 1 and isinstance(body[0], ast.Assign):
            t, v = body[0].targets[0], body[0].value
            if isinstance(t, ast.Attribute) and isinstance(t.value, ast.Name) and t.value.id == node.args.args[0].arg \
                    and t.attr in attrs and isinstance(v, ast.Name) and v.id == node.args.args[1].arg:
                return t.attr
        self.fail(st, f"setter of {cls}.{attr} is not a plain field assignment")

    def unify_ret(self):
        ts = [t for t in self.rets if t != NONE]
        if not ts:
            raise Untranslatable(f"{self.fn.qualname}: returns nothing")
        base = ts[0]
        for t in ts[1:]:
            if t != base:
                raise Untranslatable(f"{self.fn.qualname}: return types {base} / {t}")
        self.opt_ret = len(ts) != len(self.rets)
        return Opt(base) if self.opt_ret else base

    # ---- IR → Lean text
    def render(self, ir, ind):
        k = ir[0]
        if k == "let":
            return f"let {ir[1]} := {ir[2]}\n{ind}{self.render(ir[3], ind)}"
        if k == "bind":
            return f"Bind.bind ({ir[2]}) (fun {ir[1]} =>\n{ind}  {self.render(ir[3], ind + '  ')})"
        if k == "if":
            return (f"if {ir[1]} then\n{ind}  {self.render(ir[2], ind + '  ')}\n{ind}else\n{ind}  "
                    f"{self.render(ir[3], ind + '  ')}")
        if k == "fail":
            return "none"
        if k == "ret":
            e = ir[1]
            code = e.code
            if self.opt_ret and e.ty != NONE:
                code = f"(some {code})"
            if self.fn.effect or self.effect:
                return f"some {code}" if self.tr.mode.monad == "Option" else f"Except.ok {code}"
            return code
        raise AssertionError(k)

    # ---- expressions
    def prop(self, e: E, node=None) -> str:
        if e.const is not None:
            return "True" if e.const else "False"
        if e.ty == PROP:
            return e.code
        if e.ty == BOOL:
            return f"({e.code} = true)"
        self.fail(node, f"truth value of a {e.ty}")

    def value(self, e: E) -> E:
        """a first-class value (Bool instead of Prop)."""
        if e.ty == PROP:
            if e.const is not None:
                return E("true" if e.const else "false", BOOL, e.const)
            return E(f"(decide {e.code})", BOOL)
        return e

    def lit(self, node) -> E:
        v = node.value
        if isinstance(v, bool):
            return E("True" if v else "False", PROP, v)
        if isinstance(v, str):
            return E('"' + v.replace("\\", "\\\\").replace('"', '\\"') + '"', STR)
        if isinstance(v, (int, float)):
            text = ast.get_source_segment(self.tr.src[self.rel], node) if hasattr(node, "lineno") else None
            try:
                d = decimal.Decimal(text if text is not None else repr(v))
            except (decimal.InvalidOperation, ValueError, TypeError):
                self.fail(node, f"literal {v!r}")
            if not d.is_finite() or d < 0:
                self.fail(node, f"literal {v!r}")
            p, q = d.as_integer_ratio()
            if p >= 2 ** 53 or q >= 2 ** 53:
                self.fail(node, f"literal {text} is not a quotient of two doubles")
            if q == 1:
                return E(f"(({p} : Nat) : α)", S)
            return E(f"((({p} : Nat) : α) / (({q} : Nat) : α))", S)
        self.fail(node, f"literal {v!r}")

    def dotted(self, n):
        parts = []
        while isinstance(n, ast.Attribute):
            parts.append(n.attr)
            n = n.value
        if isinstance(n, ast.Name):
            parts.append(n.id)
            return parts[::-1]
        return None

    def expr(self, n, env, binds) -> E:
        """binds = list collecting monadic bindings, or None where an effect is not allowed."""
        if self.fn.free and not isinstance(n, ast.Constant):
            hit = self.fn.free.get(ast.unparse(n))
            if hit:
                return E(lname(hit[0]), hit[1])
        if isinstance(n, ast.Constant):
            if n.value is None:
                return E("none", NONE)
            return self.lit(n)
        if isinstance(n, ast.Name):
            if n.id in env:
                return E(lname(n.id), env[n.id])
            r = self.tr.resolve_name(self.rel, n.id)
            if r and r[0] == "const":
                sub = Ctx(self.tr, self.fn, r[1], None)
                return sub.expr(r[2], {}, None)
            self.fail(n, f"unknown name {n.id}")
        if isinstance(n, ast.UnaryOp):
            a = self.expr(n.operand, env, binds)
            if isinstance(n.op, ast.USub) and a.ty == S:
                return E(f"(-{a.code})", S)
            if isinstance(n.op, ast.UAdd) and a.ty == S:
                return a
            if isinstance(n.op, ast.Not):
                if a.const is not None:
                    return E("True" if not a.const else "False", PROP, not a.const)
                return E(f"(¬ {self.prop(a, n)})", PROP)
            self.fail(n, "unary operator")
        if isinstance(n, ast.BinOp):
            if isinstance(n.op, ast.Pow):
                a = self.expr(n.left, env, binds)
                if a.ty == S and isinstance(n.right, ast.Constant) and n.right.value == 2 \
                        and not isinstance(n.right.value, bool):
                    if self.tr.mode.pow2 == "ops":
                        self.needs.add("Fops")
                        return E(f"(Fops.sq {a.code})", S)
                    return E(f"({a.code} * {a.code})", S)
                if a.ty == S and ast.unparse(n.right) in ("1 / 2", "0.5") and self.tr.mode.pow2 == "ops":
                    self.needs.add("Fops")
                    return E(f"(Fops.powHalf {a.code})", S)
                self.fail(n, "power other than ** 2")
            a = self.expr(n.left, env, binds)
            b = self.expr(n.right, env, binds)
            ops = {ast.Add: "+", ast.Sub: "-", ast.Mult: "*", ast.Div: "/"}
            if type(n.op) in ops and a.ty == S and b.ty == S:
                if isinstance(n.op, ast.Div) and self.tr.mode.monad == "Except":
                    return self.effectful(f"FV.Tie.pyDiv {a.code} {b.code}", S, binds, n)
                return E(f"({a.code} {ops[type(n.op)]} {b.code})", S)
            self.fail(n, f"operator {type(n.op).__name__} on {a.ty}, {b.ty}")
        if isinstance(n, ast.BoolOp):
            first = self.expr(n.values[0], env, binds)
            parts = [first] + [self.expr(v, env, None) for v in n.values[1:]]
            sym = "∧" if isinstance(n.op, ast.And) else "∨"
            return E("(" + f" {sym} ".join(self.prop(p, n) for p in parts) + ")", PROP)
        if isinstance(n, ast.Compare):
            items = [self.expr(n.left, env, binds)]
            for i, c in enumerate(n.comparators):
                if isinstance(n.ops[i], (ast.In, ast.NotIn)):
                    items.append(c)
                else:
                    items.append(self.expr(c, env, binds if i == 0 else None))
            parts = []
            for i, op in enumerate(n.ops):
                parts.append(self.compare(op, items[i], items[i + 1], env, n))
            if len(parts) == 1:
                return parts[0]
            return E("(" + " ∧ ".join(self.prop(p, n) for p in parts) + ")", PROP)
        if isinstance(n, ast.IfExp):
            c = self.expr(n.test, env, binds)
            a = self.value(self.expr(n.body, env, None))
            b = self.value(self.expr(n.orelse, env, None))
            if c.const is not None:
                return a if c.const else b
            if a.ty != b.ty:
                self.fail(n, f"conditional expression of types {a.ty} / {b.ty}")
            return E(f"(if {self.prop(c, n)} then {a.code} else {b.code})", a.ty)
        if isinstance(n, ast.Tuple):
            es = [self.value(self.expr(v, env, binds)) for v in n.elts]
            return E("(" + ", ".join(e.code for e in es) + ")", Tup(*[e.ty for e in es]))
        if isinstance(n, ast.Attribute):
            return self.attribute(n, env, binds)
        if isinstance(n, ast.Call):
            return self.call(n, env, binds)
        self.fail(n, f"expression {type(n).__name__}")

    def effectful(self, mcode, ty, binds, node) -> E:
        if binds is None:
            self.fail(node, "effect under a short-circuit operator / conditional expression")
        self.effect = True
        nm = self.fresh("t")
        binds.append((nm, mcode))
        return E(nm, ty)

    def eq(self, a: E, b: E, node) -> str:
        """Python `a == b` as a decidable proposition."""
        if a.ty != b.ty:
            self.fail(node, f"== between {a.ty} and {b.ty}")
        t = a.ty
        if t == S:
            return f"(FV.Tie.pyEq {a.code} {b.code})"
        if t in (STR, LOC, BOOL):
            return f"({a.code} = {b.code})"
        if t in DATACLASSES:
            self.tr.check_dataclass(self.rel, t)
            return "(" + " ∧ ".join(self.eq(E(f"{a.code}.{f}", ft), E(f"{b.code}.{f}", ft), node)
                                    for f, ft in RECORDS[t][1]) + ")"
        if t in TY_CLASS:     # a class with its own __eq__
            cls = TY_CLASS[t]
            rel = self.tr.class_file(self.rel, cls)
            fn = self.tr.get(rel, f"{cls}.__eq__", {self.tr.find_def(rel, f"{cls}.__eq__")[0].args.args[1].arg: t})
            return self.prop(self.apply(fn, [a, b], None, node), node)
        self.fail(node, f"== on {t}")

    def compare(self, op, a, b, env, node) -> E:
        if isinstance(op, (ast.In, ast.NotIn)):
            if not isinstance(b, (ast.List, ast.Tuple)) or not b.elts:
                self.fail(node, "`in` needs a literal list")
            alts = [self.eq(a, self.expr(x, env, None), node) for x in b.elts]
            code = "(" + " ∨ ".join(alts) + ")"
            return E(code if isinstance(op, ast.In) else f"(¬ {code})", PROP)
        if isinstance(op, (ast.Is, ast.IsNot)):
            if b.ty == NONE and isinstance(a.ty, tuple) and a.ty[0] == "Opt":
                return E(f"({a.code}.{'isNone' if isinstance(op, ast.Is) else 'isSome'} = true)", PROP)
            self.fail(node, "`is` other than `is None` on an Optional")
        a, b = self.value(a), self.value(b)
        if isinstance(op, ast.Eq):
            return E(self.eq(a, b, node), PROP)
        if isinstance(op, ast.NotEq):
            return E(f"(¬ {self.eq(a, b, node)})", PROP)
        sym = {ast.Lt: "<", ast.LtE: "≤", ast.Gt: ">", ast.GtE: "≥"}.get(type(op))
        if sym and a.ty == S and b.ty == S:
            return E(f"({a.code} {sym} {b.code})", PROP)
        self.fail(node, f"comparison {type(op).__name__} on {a.ty}, {b.ty}")

    def attribute(self, n, env, binds) -> E:
        chain = self.dotted(n)
        if chain and chain[0] not in env:
            if len(chain) == 3 and (chain[0], chain[1]) in ENUMS and chain[2] in ENUMS[(chain[0], chain[1])]:
                self.tr.class_ok(self.rel, chain[0], chain[1])
                return E(ENUMS[(chain[0], chain[1])][chain[2]], LOC)
            if chain == ["math", "pi"] and self.tr.mode.ops:
                self.math_ok(n)
                self.needs.add("Fops")
                return E("Fops.pi", S)
            self.fail(n, f"unknown attribute chain {'.'.join(chain)}")
        obj = self.expr(n.value, env, binds)
        return self.getattr(obj, n.attr, binds, n)

    def math_ok(self, node):
        """`math` must be the module bound once by `import math` and nothing in this file may assign `math.x`."""
        self.tr.once(self.rel, "math")
        mod = self.tr.module(self.rel)
        if not any(isinstance(st, ast.Import) and any(a.name == "math" and a.asname is None for a in st.names)
                   for st in mod.body) or "math" in self.enclosing \
                or any(c == "math" for c, _ in self.tr.scope(self.rel)["patched"]):
            self.fail(node, "`math` is not (only) the module imported by `import math`")

    def getattr(self, obj: E, attr: str, binds, node) -> E:
        t = obj.ty
        if t in RECORDS:
            for f, ft in RECORDS[t][1]:
                if f == attr:
                    if t in DATACLASSES:
                        self.tr.check_dataclass(self.rel, t)
                    return E(f"{obj.code}.{f}", ft)
        cls = TY_CLASS.get(t)
        if cls in MODEL_RECORD and attr in MODEL_RECORD[cls]["attrs"]:
            ty, tpl, _ = MODEL_RECORD[cls]["attrs"][attr]
            return E(tpl.format(o=obj.code), ty)
        if cls is not None:
            rel = self.tr.class_file(self.rel, cls)
            fn = self.tr.get(rel, f"{cls}.{attr}")
            if fn.kind != "property":
                self.fail(node, f"{cls}.{attr} is not a property")
            return self.apply(fn, [obj], binds, node)
        self.fail(node, f"attribute {attr} of a {t}")

    def apply(self, fn: Fn, args: list, binds, node) -> E:
        """call of a translated function with positional argument expressions (defaults already filled in)."""
        if len(args) != len(fn.params):
            self.fail(node, f"call of {fn.qualname} with {len(args)} arguments")
        for a, (p, t) in zip(args, fn.params):
            if a.ty != t:
                self.fail(node, f"argument {p} of {fn.qualname}: {a.ty} for {t}")
        for x in fn.needs:
            self.needs.add(x)
        for d in fn.deps + [fn.lean]:
            if d not in self.deps:
                self.deps.append(d)
        code = " ".join([fn.lean] + [x for x in fn.needs] + [a.code for a in args])
        if fn.effect:
            return self.effectful(code, fn.ret, binds, node)
        return E(f"({code})", fn.ret)

    def call_fn(self, fn: Fn, pos: list, kws: dict, env, binds, node) -> E:
        args = list(pos)
        names = [p for p, _ in fn.params]
        for p in names[len(args):]:
            if p in kws:
                args.append(kws.pop(p))
            elif p in fn.defaults:
                sub = Ctx(self.tr, self.fn, fn.py_file, None)
                e = sub.value(sub.expr(fn.defaults[p], {}, None))
                args.append(e)
            else:
                self.fail(node, f"missing argument {p} of {fn.qualname}")
        if kws:
            self.fail(node, f"unexpected keyword arguments {list(kws)}")
        return self.apply(fn, args, binds, node)

    def call(self, n, env, binds) -> E:
        f = n.func
        if any(isinstance(a, ast.Starred) for a in n.args):
            self.fail(n, "starred argument")
        dstar = [k for k in n.keywords if k.arg is None]
        # constructor of the model record: Rectangle(**{KW_…: e, …})
        if isinstance(f, ast.Name) and f.id in MODEL_RECORD and f.id not in env:
            self.tr.class_ok(self.rel, f.id, "__init__")
            if f.id in self.enclosing:
                self.fail(n, f"{f.id} is re-bound in an enclosing function")
            return self.construct(f.id, n, env, binds)
        if dstar:
            self.fail(n, "** argument")
        if isinstance(f, ast.Name) and f.id in INTERPRETED + tuple(RECORDS) + tuple(MODEL_RECORD) and f.id not in env:
            if f.id in INTERPRETED:
                self.tr.unshadowed(self.rel, f.id, self.enclosing)
            else:
                self.tr.class_ok(self.rel, f.id)
                if f.id in self.enclosing:
                    self.fail(n, f"{f.id} is re-bound in an enclosing function")
        if isinstance(f, ast.Name) and f.id == "isinstance" and f.id not in env and len(n.args) == 2:
            want = n.args[1]
            names = [ast.unparse(w) for w in (want.elts if isinstance(want, ast.Tuple) else [want])]
            tys = {CLASS_TY.get(x, {"float": S, "int": S, "bool": BOOL, "str": STR}.get(x)) for x in names}
            if None in tys:
                self.fail(n, f"isinstance against {names}")
            ok = self.value(self.expr(n.args[0], env, binds)).ty in tys
            return E("True" if ok else "False", PROP, ok)
        pos = [self.value(self.expr(a, env, binds)) for a in n.args]
        kws = {k.arg: self.value(self.expr(k.value, env, binds)) for k in n.keywords}
        if isinstance(f, ast.Name) and isinstance(env.get(f.id), tuple) and env[f.id][0] == "Fun":
            _, ptys, ret = env[f.id]
            if kws or tuple(a.ty for a in pos) != ptys:
                self.fail(n, f"call of local function {f.id} with these arguments")
            return E("(" + " ".join([lname(f.id)] + [a.code for a in pos]) + ")", ret)
        if isinstance(f, ast.Name) and f.id not in env:
            if f.id in ("max", "min") and len(pos) == 2 and not kws and pos[0].ty == S and pos[1].ty == S:
                return E(f"(FV.{'pyMax' if f.id == 'max' else 'pyMin'} {pos[0].code} {pos[1].code})", S)
            if f.id == "abs" and len(pos) == 1 and pos[0].ty == S:
                return E(f"(FV.Tie.pyAbs {pos[0].code})", S)
            if f.id == "float" and len(pos) == 1 and pos[0].ty == S:
                return pos[0]
            if f.id in RECORDS:
                flds = RECORDS[f.id][1]
                if f.id in DATACLASSES:
                    self.tr.check_dataclass(self.rel, f.id)
                args = list(pos)
                for fname, _ in flds[len(args):]:
                    if fname not in kws:
                        self.fail(n, f"{f.id}(…) needs {len(flds)} fields")
                    args.append(kws.pop(fname))
                if kws or len(args) != len(flds) or any(a.ty != ft for a, (_, ft) in zip(args, flds)):
                    self.fail(n, f"constructor {f.id} with these arguments")
                return E(f"({RECORDS[f.id][0]}.mk {' '.join(a.code for a in args)})", f.id)
            r = self.tr.resolve_name(self.rel, f.id)
            if r and r[0] == "def":
                return self.call_fn(self.tr.get(r[1], r[2]), pos, kws, env, binds, n)
            self.fail(n, f"call of unknown function {f.id}")
        if isinstance(f, ast.Attribute):
            chain = self.dotted(f)
            if chain and chain[0] not in env:
                if len(chain) == 2 and (chain[0], chain[1]) in CLASS_PARAMS and not pos and not kws:
                    self.tr.find_def(self.tr.class_file(self.rel, chain[0]), f"{chain[0]}.{chain[1]}")   # unique, unpatched
                    x = CLASS_PARAMS[(chain[0], chain[1])]
                    self.needs.add(x)
                    return E(x, S)
                if len(chain) == 2 and chain[0] == "math" and self.tr.mode.ops and not kws \
                        and all(a.ty == S for a in pos):
                    self.math_ok(n)
                    self.needs.add("Fops")
                    code = " ".join([f"Fops.{chain[1]}"] + [a.code for a in pos])
                    if chain[1] in self.tr.mode.raising_ops:
                        return self.effectful(code, S, binds, n)
                    return E(f"({code})", S)
                if len(chain) == 2 and chain[0] in CLASS_TY:      # Class.method(obj, …) / static method
                    rel = self.tr.class_file(self.rel, chain[0])
                    return self.call_fn(self.tr.get(rel, f"{chain[0]}.{chain[1]}"), pos, kws, env, binds, n)
                self.fail(n, f"call of {'.'.join(chain)}")
            obj = self.value(self.expr(f.value, env, binds))
            cls = TY_CLASS.get(obj.ty)
            if cls is None:
                self.fail(n, f"method {f.attr} of a {obj.ty}")
            rel = self.tr.class_file(self.rel, cls)
            fn = self.tr.get(rel, f"{cls}.{f.attr}")
            if fn.kind != "method":
                self.fail(n, f"{cls}.{f.attr} is not a method")
            return self.call_fn(fn, [obj] + pos, kws, env, binds, n)
        self.fail(n, "call")

    def construct(self, cls, n, env, binds) -> E:
        """Rectangle(**{KW_X: e, …}) / Rectangle(center=…, …): defaults of __init__, then the given attributes."""
        spec = MODEL_RECORD[cls]
        rel = self.tr.class_file(self.rel, cls)
        init, _ = self.tr.find_def(rel, f"{cls}.__init__")
        sub = Ctx(self.tr, self.fn, rel, cls)
        vals = {}
        for st in init.body:      # leading attribute defaults
            if isinstance(st, ast.Expr) and isinstance(st.value, ast.Constant):
                continue
            if isinstance(st, ast.AnnAssign) and st.value is not None:
                tgt, val = st.target, st.value
            elif isinstance(st, ast.Assign) and len(st.targets) == 1:
                tgt, val = st.targets[0], st.value
            else:
                break
            if not (isinstance(tgt, ast.Attribute) and isinstance(tgt.value, ast.Name) and tgt.value.id == "self"
                    and tgt.attr in spec["attrs"]):
                break
            e = sub.value(sub.expr(val, {}, None))
            ty, _, upd = spec["attrs"][tgt.attr]
            if e.ty != ty:
                self.fail(n, f"default of {tgt.attr} has type {e.ty}")
            for fld, tpl in upd:
                vals[fld] = tpl.format(v=e.code)
        if set(vals) != set(spec["fields"]):
            self.fail(n, f"{cls}.__init__ does not start with defaults for all attributes")
        items = []
        if n.args:
            self.fail(n, "positional constructor argument")
        for k in n.keywords:
            if k.arg is None:
                if not isinstance(k.value, ast.Dict):
                    self.fail(n, "** of a non-literal")
                for kk, vv in zip(k.value.keys, k.value.values):
                    if not (isinstance(kk, ast.Name) and kk.id in spec["ctor_keys"]):
                        self.fail(n, f"constructor key {ast.unparse(kk) if kk else '**'}")
                    items.append((spec["ctor_keys"][kk.id], vv))
            else:
                raw = "_" + k.arg
                if raw not in spec["attrs"] or raw not in spec["ctor_keys"].values():
                    self.fail(n, f"constructor keyword {k.arg}")
                items.append((raw, k.value))
        for raw, vv in items:
            e = self.value(self.expr(vv, env, binds))
            ty, _, upd = spec["attrs"][raw]
            if e.ty != ty:
                self.fail(n, f"constructor attribute {raw} of type {e.ty}")
            for fld, tpl in upd:
                vals[fld] = tpl.format(v=e.code)
        body = ", ".join(f"{f} := {vals[f]}" for f in spec["fields"])
        return E(f"({{ {body} }} : {spec['lean']} α)", spec["ty"])

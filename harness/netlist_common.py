"""Shared helpers for C04 / C05 (netlist reader and writer).

* wire format of document trees for the Lean driver `drv_netlist` (prefix token stream, see FV/Drv/Netlist.lean);
* rendering of an implementation `Netlist` in the driver's reply format;
* type-aware comparison of trees (`True`, `1`, `1.0` are different documents);
* structured generator of netlist documents covering every attribute combination of the format;
* a separate generator that injects exactly one defect into a well-formed document;
* an independent oracle for the derived quantities, evaluated on the *document* with `fractions.Fraction`.
"""
from __future__ import annotations

import copy
import io
import math
from fractions import Fraction
from typing import Any

from vcheck import f2hex, hex2f, q2s

from frame.geometry.geometry import Rectangle
from frame.netlist.netlist import Netlist
from frame.netlist.yaml_write_netlist import dump_yaml_modules, dump_yaml_edges
from frame.utils.utils import write_yaml, valid_identifier
from ruamel.yaml import YAML

LOC = {"TRUNK": "T", "NORTH": "N", "SOUTH": "S", "EAST": "E", "WEST": "W", "NO_POLYGON": "X"}


# ------------------------------------------------------------------------------------------ wire format
def sc(x, mode: str) -> str:
    return f2hex(x) if mode == "F" else q2s(Fraction(x))


def enc_str(s: str) -> str:
    return "x" + s.encode("utf-8").hex()


def enc_tree(v: Any, mode: str) -> str:
    if v is None:
        return "N"
    if v is True:
        return "T"
    if v is False:
        return "F"
    if isinstance(v, int):
        return f"I {v}"
    if isinstance(v, float):
        return f"D {sc(v, mode)}"
    if isinstance(v, str):
        return f"S {enc_str(v)}"
    if isinstance(v, (list, tuple)):
        return " ".join([f"L {len(v)}"] + [enc_tree(x, mode) for x in v])
    if isinstance(v, dict):
        out = [f"M {len(v)}"]
        for k, x in v.items():
            out.append(enc_tree(k, mode))
            out.append(enc_tree(x, mode))
        return " ".join(out)
    raise TypeError(type(v))


def dec_tree(toks: list[str], i: int, mode: str):
    """returns (value, next index); floats stay exact (`Fraction` in Q mode)."""
    t = toks[i]
    if t == "N":
        return None, i + 1
    if t == "T":
        return True, i + 1
    if t == "F":
        return False, i + 1
    if t == "I":
        return int(toks[i + 1]), i + 2
    if t == "D":
        return FloatTag(hex2f(toks[i + 1]) if mode == "F" else Fraction(toks[i + 1])), i + 2
    if t == "S":
        return bytes.fromhex(toks[i + 1][1:]).decode("utf-8"), i + 2
    if t == "L":
        n, i = int(toks[i + 1]), i + 2
        out = []
        for _ in range(n):
            v, i = dec_tree(toks, i, mode)
            out.append(v)
        return out, i
    if t == "M":
        n, i = int(toks[i + 1]), i + 2
        d = []
        for _ in range(n):
            k, i = dec_tree(toks, i, mode)
            v, i = dec_tree(toks, i, mode)
            d.append((k, v))
        return MapTag(d), i
    raise ValueError(t)


class FloatTag:
    """a float node of a tree decoded from the driver (value exact)."""
    def __init__(self, v):
        self.v = v

    def __repr__(self):
        return f"F({float(self.v)!r})"


class MapTag:
    def __init__(self, items):
        self.items = items

    def __repr__(self):
        return "M" + repr(self.items)


def tree_diff(impl: Any, model: Any, tol: float, path="") -> tuple[str | None, bool]:
    """type-aware comparison of an implementation tree (Python objects) with a decoded model tree.
    Returns (first difference or None, exactly equal)."""
    if isinstance(model, MapTag):
        if not isinstance(impl, dict) or len(impl) != len(model.items):
            return f"{path}: dict shape", False
        exact = True
        for (k1, v1), (k2, v2) in zip(impl.items(), model.items):
            d, e = tree_diff(k1, k2, tol, path + "/key")
            if d:
                return d, False
            d, e2 = tree_diff(v1, v2, tol, f"{path}/{k1}")
            if d:
                return d, False
            exact = exact and e and e2
        return None, exact
    if isinstance(model, list):
        if not isinstance(impl, (list, tuple)) or len(impl) != len(model):
            return f"{path}: list shape", False
        exact = True
        for j, (a, b) in enumerate(zip(impl, model)):
            d, e = tree_diff(a, b, tol, f"{path}[{j}]")
            if d:
                return d, False
            exact = exact and e
        return None, exact
    if isinstance(model, FloatTag):
        if not isinstance(impl, float):
            return f"{path}: expected float, got {type(impl).__name__} {impl!r}", False
        if Fraction(impl) == Fraction(model.v):
            return None, True
        if abs(float(impl) - float(model.v)) <= tol * max(1.0, abs(float(impl))):
            return None, False
        return f"{path}: {impl!r} != {float(model.v)!r}", False
    if type(impl) is not type(model) or impl != model:
        return f"{path}: {impl!r} ({type(impl).__name__}) != {model!r} ({type(model).__name__})", False
    return None, True


def typed_eq(a: Any, b: Any) -> bool:
    """equality of two Python trees that distinguishes bool / int / float and keeps dict order."""
    if type(a) is not type(b):
        return False
    if isinstance(a, dict):
        return len(a) == len(b) and all(typed_eq(k1, k2) and typed_eq(v1, v2)
                                        for (k1, v1), (k2, v2) in zip(a.items(), b.items()))
    if isinstance(a, (list, tuple)):
        return len(a) == len(b) and all(typed_eq(x, y) for x, y in zip(a, b))
    if isinstance(a, float):
        return a == b or (a != a and b != b)
    return a == b


def plain(v: Any) -> Any:
    """ruamel round-trip containers / scalar subclasses → plain Python objects."""
    if isinstance(v, dict):
        return {plain(k): plain(x) for k, x in v.items()}
    if isinstance(v, (list, tuple)):
        return [plain(x) for x in v]
    if isinstance(v, bool) or v is None:
        return v
    if isinstance(v, int):
        return int(v)
    if isinstance(v, float):
        return float(v)
    if isinstance(v, str):
        return str(v)
    return v


def safe_load(text: str) -> Any:
    return YAML(typ="safe").load(text)


# ------------------------------------------------------------------------------------------ text layer (mode T)
class LitTag(str):
    """a float node of a tree decoded from the text model: the string `float()` receives."""


def enc_text_tree(v: Any) -> str:
    """tree for the text model `FV/Model/YamlText.lean`: a float travels as Python's `repr(x)` (hex of its utf-8)."""
    if v is None:
        return "N"
    if v is True:
        return "T"
    if v is False:
        return "F"
    if isinstance(v, int):
        return f"I {v}"
    if isinstance(v, float):
        return "D " + enc_str(repr(v))
    if isinstance(v, str):
        return "S " + enc_str(v)
    if isinstance(v, (list, tuple)):
        return " ".join([f"L {len(v)}"] + [enc_text_tree(x) for x in v])
    if isinstance(v, dict):
        out = [f"M {len(v)}"]
        for k, x in v.items():
            out.append(enc_text_tree(k))
            out.append(enc_text_tree(x))
        return " ".join(out)
    raise TypeError(type(v))


def dec_text_tree(toks: list[str], i: int):
    t = toks[i]
    if t == "N":
        return None, i + 1
    if t == "T":
        return True, i + 1
    if t == "F":
        return False, i + 1
    if t == "I":
        return int(toks[i + 1]), i + 2
    if t == "D":
        return LitTag(bytes.fromhex(toks[i + 1][1:]).decode("utf-8")), i + 2
    if t == "S":
        return bytes.fromhex(toks[i + 1][1:]).decode("utf-8"), i + 2
    if t == "L":
        n, i = int(toks[i + 1]), i + 2
        out = []
        for _ in range(n):
            v, i = dec_text_tree(toks, i)
            out.append(v)
        return out, i
    if t == "M":
        n, i = int(toks[i + 1]), i + 2
        d = []
        for _ in range(n):
            k, i = dec_text_tree(toks, i)
            v, i = dec_text_tree(toks, i)
            d.append((k, v))
        return MapTag(d), i
    raise ValueError(t)


def text_tree_to_python(v: Any) -> Any:
    """decoded text-model tree → plain Python objects (floats through `float()`)."""
    if isinstance(v, MapTag):
        return {text_tree_to_python(k): text_tree_to_python(x) for k, x in v.items}
    if isinstance(v, list):
        return [text_tree_to_python(x) for x in v]
    if isinstance(v, LitTag):
        return float(v)
    return v


def text_tree_diff(model: Any, impl: Any, path="") -> str | None:
    """tree of the text model against the tree the YAML loader built (plain Python objects): types, order of keys, and
    for a float the BITS of `float(literal)` (sign of zero included; nan matches nan)."""
    if isinstance(model, MapTag):
        if not isinstance(impl, dict) or len(impl) != len(model.items):
            return f"{path}: dict shape ({len(model.items)} model entries)"
        for (k1, v1), (k2, v2) in zip(model.items, impl.items()):
            d = text_tree_diff(k1, k2, path + "/key") or text_tree_diff(v1, v2, f"{path}/{k2}")
            if d:
                return d
        return None
    if isinstance(model, list):
        if not isinstance(impl, list) or len(impl) != len(model):
            return f"{path}: list shape"
        for j, (a, b) in enumerate(zip(model, impl)):
            d = text_tree_diff(a, b, f"{path}[{j}]")
            if d:
                return d
        return None
    if isinstance(model, LitTag):
        if type(impl) is not float:
            return f"{path}: model float {model!r}, loader {type(impl).__name__} {impl!r}"
        try:
            f = float(model)
        except ValueError:
            return f"{path}: model float literal {model!r} is not accepted by float()"
        if (f != f and impl != impl) or (f == impl and math.copysign(1.0, f) == math.copysign(1.0, impl)):
            return None
        return f"{path}: float({model!r}) = {f!r} != {impl!r}"
    if type(model) is not type(impl) or model != impl:
        return f"{path}: {model!r} ({type(model).__name__}) != {impl!r} ({type(impl).__name__})"
    return None


def model_tree_has_dup(m: Any) -> bool:
    if isinstance(m, MapTag):
        ks = [(type(k).__name__, repr(k)) for k, _ in m.items]
        return len(set(ks)) != len(ks) or any(model_tree_has_dup(v) for _, v in m.items)
    if isinstance(m, list):
        return any(model_tree_has_dup(v) for v in m)
    return False


TEXT_IDENTS = ["a", "B", "k_1", "_", "_x9", "true", "True", "TRUE", "false", "False", "FALSE", "null", "Null", "NULL", "yes", "no",
               "on", "off", "y", "n", "Y", "N", "inf", "nan", "e1", "E5", "x" * 40, "Modules", "area", "tRUE", "nULL", "Yes"]
TEXT_FLOATS = [0.0, -0.0, 1.0, -1.5, 0.1, 1e-05, 0.0001, 1e16, 1e+22, 9999999999999998.0, 123456789.12345679, 5e-324,
               1.7976931348623157e308, -2.5e-07, float("inf"), float("-inf"), float("nan"), 1 / 3, 2.0 ** 70, 2.0 ** -40]


def gen_text_ident(rng) -> str:
    """an identifier: one of the fixed pool (reserved words included) or a long one (line-width effects)."""
    if rng.random() < 0.75:
        return rng.choice(TEXT_IDENTS)
    return rng.choice("abXY_") + "".join(rng.choice("abcXYZ_019") for _ in range(rng.choice([20, 50, 60, 66, 70, 72, 74, 76, 78, 90, 121])))


def gen_text_scalar(rng):
    k = rng.random()
    if k < 0.3:
        return gen_text_ident(rng)
    if k < 0.5:
        return rng.choice([0, 1, -1, 7, 10, 12345678901234567890, -99, 100, 2 ** 64])
    if k < 0.8:
        return rng.choice(TEXT_FLOATS) if rng.random() < 0.6 else rng.uniform(-1e3, 1e3) * 10 ** rng.randint(-20, 20)
    if k < 0.9:
        return rng.choice([True, False])
    return rng.choice([[], {}])


def gen_text_tree(rng, depth: int = 0):
    """a random tree of the text model's subset `wfRoot` (any nesting of non-empty block mappings / sequences, scalars of
    every class, keys = identifiers incl. the reserved words); fresh containers everywhere (no aliasing)."""
    def node(d):
        if d >= rng.choice([3, 4, 6]) or (d > 0 and rng.random() < 0.4):
            return gen_text_scalar(rng)
        n = rng.randint(1, 4)
        if rng.random() < 0.5:
            keys = []
            while len(keys) < n:
                k = gen_text_ident(rng)
                if k not in keys:
                    keys.append(k)
            return {k: node(d + 1) for k in keys}
        return [node(d + 1) for _ in range(n)]
    t = node(0)
    while not isinstance(t, (list, dict)) or len(t) == 0:
        t = node(0)
    return t


def mutate_text(rng, text: str) -> str:
    """one small edit of a YAML text: a character deleted / inserted / replaced, a line duplicated / deleted / swapped /
    indented / dedented (most results are outside the text model's subset: only the accepted ones are compared)."""
    k = rng.choice(["del", "ins", "dupline", "swap", "indent", "dedent", "repl", "delline", "tok"])
    lines = text.split("\n")[:-1]
    if not text or not lines:
        return text + "a: 1\n"
    if k in ("del", "ins", "repl"):
        p = rng.randrange(len(text))
        c = rng.choice(" -:'.e_a0T1\n#[]{},~+")
        if k == "del":
            return text[:p] + text[p + 1:]
        if k == "ins":
            return text[:p] + c + text[p:]
        return text[:p] + c + text[p + 1:]
    i = rng.randrange(len(lines))
    if k == "dupline":
        lines.insert(i, lines[i])
    elif k == "delline":
        del lines[i]
    elif k == "swap" and len(lines) > 1:
        j = rng.randrange(len(lines))
        lines[i], lines[j] = lines[j], lines[i]
    elif k == "indent":
        lines[i] = " " * rng.choice([1, 2, 2, 4]) + lines[i]
    elif k == "dedent" and lines[i].startswith("  "):
        lines[i] = lines[i][2:]
    elif k == "tok":       # replace the last token of a line by another scalar
        head, sep, _ = lines[i].rpartition(" ")
        lines[i] = head + sep + rng.choice(["null", "~", "True", "FALSE", "'null'", "-0", "007", "1_0", "0x1f", "1e5", "1.5e+3",
                                            ".inf", "-.inf", ".nan", ".5", "5.", "yes", "No", "[]", "{}", "''", "'a b'", "+1",
                                            "12", "-3.25", "1e-07", "Null", "a-b", "_", "x:y", "@", "0o17", "2024-01-01"])
    return "\n".join(lines) + "\n"


# ------------------------------------------------------------------------------------------ implementation side
def set_eps(eps) -> None:
    if eps is None:
        Rectangle.undefine_epsilon()
    else:
        Rectangle.set_epsilon(float(eps[0]), float(eps[1]))


def eps_tokens(eps, mode: str) -> str:
    return "U" if eps is None else f"E {sc(eps[0], mode)} {sc(eps[1], mode)}"


def load_impl(src: Any, eps):
    """`Netlist(src)` under the tolerance state `eps`; returns ("ok", netlist) or ("err", exception class name)."""
    set_eps(eps)
    try:
        n = Netlist(copy.deepcopy(src) if not isinstance(src, str) else src)
        return "ok", n
    except AssertionError:
        return "err", "Assert"
    except Exception as e:  # any other class is reported as such (the model only knows AssertionError)
        return "err", type(e).__name__
    finally:
        Rectangle.undefine_epsilon()


def _num_tok(v, mode: str) -> str:
    if isinstance(v, bool):
        return "b1" if v else "b0"
    if isinstance(v, int):
        return f"i{v}"
    return "d" + sc(v, mode)


def _d(v, mode: str) -> str:
    return "d" + sc(float(v), mode)


def render_rect(r: Rectangle, mode: str) -> str:
    return " ".join([_num_tok(r.center.x, mode), _num_tok(r.center.y, mode), _num_tok(r.shape.w, mode),
                     _num_tok(r.shape.h, mode), enc_str(r.region), str(int(r.fixed)), str(int(r.hard)),
                     LOC[r.location.name]])


def render_impl(n: Netlist, mode: str) -> str:
    """the driver's `showNetlist` for an implementation netlist."""
    out = [f"ok {len(n.modules)}"]
    for m in n.modules:
        flags = "".join(str(int(b)) for b in (m.is_terminal, m.is_hard, m.is_fixed, m.flip))
        c = "-" if m.center is None else f"{_d(m.center.x, mode)} {_d(m.center.y, mode)}"
        a = "-" if m.aspect_ratio is None else f"{_d(m.aspect_ratio.min_wh, mode)} {_d(m.aspect_ratio.max_wh, mode)}"
        s = f"mod {enc_str(m.name)} {flags} C {c} A {a} G {len(m.area_regions)}"
        for reg, ar in m.area_regions.items():
            s += f" {enc_str(reg)} {_d(ar, mode)}"
        s += f" R {len(m.rectangles)}"
        for r in m.rectangles:
            s += " " + render_rect(r, mode)
        s += f" area {_d(m.area(), mode)} S {int(m.has_stog)}"
        out.append(s)
    out.append(f"nets {len(n.edges)}")
    for e in n.edges:
        out.append(" ".join([f"net {len(e.modules)}"] + [enc_str(b.name) for b in e.modules] + [_d(e.weight, mode)]))
    rs = n.rectangles       # flat list: roles are not modelled there (shown as `?`)
    out.append(" ".join([f"rects {len(rs)}"] + [render_rect(r, mode)[:-1] + "?" for r in rs]))
    fr = n.fixed_rectangles()
    out.append(" ".join([f"fixed {len(fr)}"] + [render_rect(r, mode)[:-1] + "?" for r in fr]))
    try:
        wl = _d(n.wire_length, mode)
    except AssertionError:
        wl = "none"
    out.append("wl " + wl)
    return " ".join(out)


def wl_scale(n) -> float:
    """magnitude against which the wire length is compared: rounding of the mean of the centres is amplified by the
    weight, so the natural scale is Σ_nets w · k · max|coordinate| (not the wire length itself, which may be 0)."""
    if n is None or isinstance(n, str):
        return 1.0
    cmax = max([1.0] + [abs(float(v)) for m in n.modules if m.center is not None for v in (m.center.x, m.center.y)])
    return max(1.0, sum(abs(float(e.weight)) * len(e.modules) * cmax for e in n.edges))


def cmp_lines(impl: str, model: str, mode: str, tol: float, wlscale: float = 1.0) -> tuple[bool, bool, str]:
    """(close enough, exactly equal, first difference); `wlscale` = scale of the token after `wl`."""
    if impl == model:
        return True, True, ""
    ta, tb = impl.split(), model.split()
    if len(ta) != len(tb):
        return False, False, f"token count {len(ta)} vs {len(tb)}"
    for j, (x, y) in enumerate(zip(ta, tb)):
        if x == y:
            continue
        if x[:1] == "d" and y[:1] == "d" and len(x) > 1 and len(y) > 1:
            try:
                fx, fy = (hex2f(x[1:]), hex2f(y[1:])) if mode == "F" else (Fraction(x[1:]), Fraction(y[1:]))
            except Exception:
                return False, False, f"token {j}: {x} vs {y}"
            scale = max(1.0, abs(float(fx)), abs(float(fy)), wlscale if j > 0 and ta[j - 1] == "wl" else 1.0)
            if abs(float(fx) - float(fy)) <= tol * scale:
                continue
            return False, False, f"token {j}: {float(fx)!r} vs {float(fy)!r} (context {' '.join(ta[max(0, j - 6):j])})"
        return False, False, f"token {j}: {x} vs {y} (context {' '.join(ta[max(0, j - 6):j])})"
    return True, False, ""


def impl_tree(n: Netlist) -> dict:
    """the tree `Netlist.write_yaml` hands to the YAML dumper."""
    return {"Modules": dump_yaml_modules(n.modules), "Nets": dump_yaml_edges(n.edges)}


# ------------------------------------------------------------------------------------------ generators
NAMES = ["A", "B", "C", "M1", "M2", "_x", "null", "true", "yes", "no", "on", "y", "n", "_", "e1", "inf", "nan",
         "Modules", "area", "x_9", "Zz", "a" * 12, "N0", "off", "NULL", "True", "_1", "k"]
REGIONS = ["dsp", "bram", "lut", "_", "R2", "null", "on"]


def value(rng, mode: str, lo: float, hi: float, as_int_ok=True):
    """a coordinate / size in [lo, hi] (lo > 0 for sizes), with a random Python type tag."""
    if mode == "Q":
        fam = rng.choice(["int", "half", "eighth"])
    else:
        fam = rng.choice(["int", "dec", "third", "float", "half"])
    lo_i, hi_i = int(math.ceil(lo)), int(math.floor(hi))
    if fam == "int" and lo_i <= hi_i:
        v = rng.randint(lo_i, hi_i)
        return v if (as_int_ok and rng.random() < 0.6) else float(v)
    den = {"half": 2, "eighth": 8, "dec": 10, "third": 3, "int": 2}.get(fam)
    if den:
        a, b = int(math.ceil(lo * den)), int(math.floor(hi * den))
        if a > b:
            return float(lo)
        return rng.randint(a, b) / den
    return rng.uniform(lo, hi)


def retag(rng, x):
    """integral floats may become ints (or `True` for 1): same value, different tag."""
    if isinstance(x, float) and x == int(x) and rng.random() < 0.5:
        if x == 1 and rng.random() < 0.15:
            return True
        return int(x)
    return x


def rect_from_box(rng, x0, y0, x1, y1, region=None):
    r = [retag(rng, (x0 + x1) / 2), retag(rng, (y0 + y1) / 2), retag(rng, x1 - x0), retag(rng, y1 - y0)]
    if region is not None:
        r.append(region)
    return r


def gen_hard_rects(rng, mode: str):
    """rectangles of a hard module and whether they were built as a STOG (trunk + branches)."""
    u = 1.0 if mode == "Q" else rng.choice([1.0, 0.1, 1 / 3, 2.5])
    ox, oy = (rng.randint(0, 6) * u, rng.randint(0, 6) * u)
    kind = rng.choice(["single", "stog", "stog", "twin", "scattered", "chain"] * 4 + ["branch-overlap", "dup-branch"])
    tw, th = rng.randint(2, 6), rng.randint(2, 6)
    X0, Y0 = ox + 4 * u, oy + 4 * u
    trunk = (X0, Y0, X0 + tw * u, Y0 + th * u)
    if kind == "single":
        return [rect_from_box(rng, *trunk)], True
    if kind == "stog":
        rects = [trunk]
        for side in rng.sample(["N", "S", "E", "W"], rng.randint(1, 4)):
            d = rng.randint(1, 3) * u
            if side in "NS":
                a = rng.randint(0, tw - 1)
                b = rng.randint(a + 1, tw)
                xa, xb = X0 + a * u, X0 + b * u
                rects.append((xa, trunk[3], xb, trunk[3] + d) if side == "N" else (xa, Y0 - d, xb, Y0))
            else:
                a = rng.randint(0, th - 1)
                b = rng.randint(a + 1, th)
                ya, yb = Y0 + a * u, Y0 + b * u
                rects.append((trunk[2], ya, trunk[2] + d, yb) if side == "E" else (X0 - d, ya, X0, yb))
        rng.shuffle(rects)
        return [rect_from_box(rng, *r) for r in rects], True
    if kind in ("branch-overlap", "dup-branch"):
        # ILL-FORMED on purpose (also in the "valid" stream, where only the verdicts are compared): a proper trunk whose
        # branches overlap EACH OTHER -- no branch overlaps the trunk, so the module still is a STOG
        return [rect_from_box(rng, *r) for r in overlapping_branches(rng, u, X0, Y0, tw, th, kind)], True
    if kind == "twin":   # two rectangles with a full common side: both are trunk candidates
        h2 = rng.randint(1, 6)
        rects = [trunk, (X0, trunk[3], trunk[2], trunk[3] + h2 * u)]
        rng.shuffle(rects)
        return [rect_from_box(rng, *r) for r in rects], True
    if kind == "chain":  # three in a row: only the middle one can be the trunk; ends may be larger
        w1, w3 = rng.randint(1, 7), rng.randint(1, 7)
        rects = [(X0 - w1 * u, Y0, X0, trunk[3]), trunk, (trunk[2], Y0, trunk[2] + w3 * u, trunk[3])]
        rng.shuffle(rects)
        return [rect_from_box(rng, *r) for r in rects], True
    gap = rng.randint(1, 3) * u
    rects = [trunk, (trunk[2] + gap, Y0, trunk[2] + gap + 2 * u, Y0 + 2 * u)]
    return [rect_from_box(rng, *r) for r in rects], False


def overlapping_branches(rng, u, X0, Y0, tw, th, kind="branch-overlap"):
    """boxes of a trunk (tw×th units at (X0, Y0)) with two branches on one side that overlap each other (intersecting
    spans, or the same branch twice), possibly a further clean branch; shuffled."""
    tw = max(tw, 3)
    trunk = (X0, Y0, X0 + tw * u, Y0 + th * u)
    d1, d2 = rng.randint(1, 3) * u, rng.randint(1, 3) * u
    side = rng.choice("NS")
    a, b = 0, rng.randint(2, tw - 1)            # first span  [a, b]
    c, d = rng.randint(1, b - 1), tw            # second span [c, d], c < b: they intersect on [c, b]
    if kind == "dup-branch":
        c, d, d2 = a, b, d1
    if side == "N":
        b1 = (X0 + a * u, trunk[3], X0 + b * u, trunk[3] + d1)
        b2 = (X0 + c * u, trunk[3], X0 + d * u, trunk[3] + d2)
        other = (X0, Y0 - u, X0 + u, Y0)
    else:
        b1 = (X0 + a * u, Y0 - d1, X0 + b * u, Y0)
        b2 = (X0 + c * u, Y0 - d2, X0 + d * u, Y0)
        other = (X0, trunk[3], X0 + u, trunk[3] + u)
    rects = [trunk, b1, b2] + ([other] if rng.random() < 0.4 else [])
    rng.shuffle(rects)
    return rects


def gen_soft_rects(rng, mode: str):
    k = rng.choice([1, 1, 2, 3])
    out = []
    for _ in range(k):
        w, h = value(rng, mode, 0.5, 6, False), value(rng, mode, 0.5, 6, False)
        x0, y0 = value(rng, mode, 0, 8, False), value(rng, mode, 0, 8, False)
        reg = rng.choice([None, None, rng.choice(REGIONS)])
        out.append(rect_from_box(rng, x0, y0, x0 + w, y0 + h, reg))
    if rng.random() < 0.1:      # the same rectangle twice (create_stog tells them apart by identity, not by value)
        out.insert(rng.randint(0, len(out)), list(rng.choice(out)))
    return out


def maybe_flat(rng, rects):
    """a single rectangle may be written without the outer list."""
    if len(rects) == 1 and rng.random() < 0.4:
        return rects[0]
    return rects


def shuffled(rng, d: dict, p=0.5) -> dict:
    items = list(d.items())
    if rng.random() < p:
        rng.shuffle(items)
    return dict(items)


def gen_center(rng, mode):
    return [retag(rng, float(value(rng, mode, 0, 12))), value(rng, mode, 0, 12)]


def gen_module(rng, mode: str) -> tuple[dict, str]:
    kind = rng.choice(["soft", "soft", "soft", "hard", "hard", "fixed", "terminal", "terminal"])
    info: dict[str, Any] = {}
    if kind == "soft":
        form = rng.choice(["scalar", "scalar", "ground-dict", "multi", "noground", "bool"])
        if form == "scalar":
            info["area"] = value(rng, mode, 0.5, 40)
        elif form == "bool":
            info["area"] = True
        elif form == "ground-dict":
            info["area"] = {"_": value(rng, mode, 0.5, 40)}
        else:
            regs = rng.sample([r for r in REGIONS if r != "_"], rng.randint(1, 3))
            if form == "multi":
                regs.insert(rng.randint(0, len(regs)), "_")
            info["area"] = {r: value(rng, mode, 0.5, 20) for r in regs}
        if rng.random() < 0.5:
            info["center"] = gen_center(rng, mode)
        if rng.random() < 0.5:
            f = rng.choice(["scalar", "pair", "one", "zero-lo"])
            if f == "scalar":
                info["aspect_ratio"] = rng.choice([2, 3, 0.5, 0.25, 4.0, 1, True, 8] if mode == "Q"
                                                  else [2, 3, 0.5, 0.3, 1.7, 1, True, 2.5, 7,
                                                        # arbitrary doubles: 1/(1/r) need not be r
                                                        rng.uniform(0.05, 1.0), rng.uniform(0.05, 1.0),
                                                        rng.uniform(1.0, 20.0), rng.randint(1, 99) / 100])
            elif f == "pair" and mode == "F" and rng.random() < 0.4:
                lo = rng.uniform(0.05, 1.0)     # a symmetric interval [r, 1/r] written out in full
                info["aspect_ratio"] = [lo, 1 / lo]
            elif f == "pair":
                info["aspect_ratio"] = [rng.choice([0.5, 0.25, 1, 1.0, 0.125] if mode == "Q" else [0.5, 0.3, 1, 1 / 3]),
                                        rng.choice([1, 2, 4.0, 1.5] if mode == "Q" else [1, 2, 3.3, 1.1])]
            elif f == "one":
                info["aspect_ratio"] = [1, 1]
            else:
                info["aspect_ratio"] = [0, rng.choice([1, 2.5])]
        if rng.random() < 0.45:
            if rng.random() < 0.5:
                rects = gen_soft_rects(rng, mode)
            else:   # a trunk with branches in random order: create_stog will reorder the list of a soft module too
                rects = [r + ([rng.choice(REGIONS)] if rng.random() < 0.2 else []) for r in gen_hard_rects(rng, mode)[0]]
            info["rectangles"] = maybe_flat(rng, rects)
        if rng.random() < 0.15:
            info[rng.choice(["hard", "fixed", "flip"])] = False
    elif kind in ("hard", "fixed"):
        rects, is_stog = gen_hard_rects(rng, mode)
        if kind == "fixed":
            info["fixed"] = True
            if rng.random() < 0.2:
                info["terminal"] = False
        else:
            how = rng.choice(["hard", "hard", "hard", "terminal-false"])
            if how == "terminal-false":
                info["terminal"] = False     # any `terminal:` forces hard=True
            else:
                info["hard"] = True
            if is_stog and rng.random() < 0.5:
                info["flip"] = True
            elif rng.random() < 0.15:
                info["flip"] = False
        info["rectangles"] = maybe_flat(rng, rects)
    else:
        info["terminal"] = True
        r = rng.random()
        if r < 0.3:
            info["fixed"] = True
            info["center"] = gen_center(rng, mode)
        elif r < 0.4:
            info = {"fixed": False, "terminal": True}
        elif r < 0.5:
            info = {"hard": rng.choice([True, False]), "terminal": True}
        if "center" not in info and rng.random() < 0.6:
            info["center"] = gen_center(rng, mode)
        if rng.random() < 0.15:
            info["rectangles"] = maybe_flat(rng, gen_hard_rects(rng, mode)[0])
    # key order matters for the reader (kwargs are processed in document order): shuffle, but keep the
    # combinations whose meaning depends on the order as generated
    if not ({"fixed", "hard", "terminal"} & set(info) and len({"fixed", "hard", "terminal"} & set(info)) > 1):
        info = shuffled(rng, info)
    return info, kind


def gen_doc(rng, mode: str, max_modules=12) -> dict:
    nm = rng.choice([0, 1, 2, 3, 3, 4, 5, 6, 8, max_modules])
    names = rng.sample(NAMES, min(nm, len(NAMES)))
    mods = {}
    for name in names:
        mods[name] = gen_module(rng, mode)[0]
    nets = []
    if len(names) >= 1:
        for _ in range(rng.choice([0, 1, 2, 3, 5])):
            k = rng.choice([2, 2, 3, 4, 5])
            members = [rng.choice(names) for _ in range(k)]
            w = rng.choice([None, None, 1, 1.0, True, 2, 3.0, 0.5, 7.25] if mode == "Q"
                           else [None, None, 1, 1.0, True, 2, 0.1, 3.3, 1e-05, 2.5e+20])
            nets.append(members if w is None else members + [w])
    doc: dict[str, Any] = {}
    r = rng.random()
    if r < 0.8:
        doc = {"Modules": mods, "Nets": nets}
    elif r < 0.9:
        doc = {"Nets": nets, "Modules": mods}
    elif nets == [] and r < 0.95:
        doc = {"Modules": mods}
    else:
        doc = {"Modules": mods, "Nets": nets}
    return doc


def _scale_num(v, k):
    """a coordinate / area times `k`; the Python tag is kept when the product is still integral (`True` becomes a number)."""
    if isinstance(v, bool):
        v = int(v)
    if not isinstance(v, (int, float)):
        return v
    r = v * k
    if isinstance(v, int) and float(r) == int(r) and abs(r) < 2 ** 53:
        return int(r)
    return float(r)


def scale_doc(doc, s: float):
    """the same design in another UNIT: lengths (centres, rectangle coordinates and sizes) × s, areas × s²; aspect ratios
    and net weights are unit-free."""
    d = copy.deepcopy(doc)
    mods = d.get("Modules") if isinstance(d, dict) else None
    if not isinstance(mods, dict):
        return d
    for info in mods.values():
        if not isinstance(info, dict):
            continue
        if "area" in info:
            a = info["area"]
            info["area"] = {k: _scale_num(v, s * s) for k, v in a.items()} if isinstance(a, dict) else _scale_num(a, s * s)
        if isinstance(info.get("center"), list):
            info["center"] = [_scale_num(v, s) for v in info["center"]]
        r = info.get("rectangles")
        if isinstance(r, list) and r:
            if isinstance(r[0], list):
                info["rectangles"] = [[_scale_num(v, s) for v in q[:4]] + list(q[4:]) if isinstance(q, list) else q for q in r]
            else:
                info["rectangles"] = [_scale_num(v, s) for v in r[:4]] + list(r[4:])
    return d


def maybe_rescale(rng, doc, eps, mode: str, p: float = 0.25):
    """unit families: with probability `p` the design is re-expressed in a small unit (areas 1e-13 … 1e-9, coordinates
    1e-7 … 1e-4: a chip written in metres) or in a large one (areas 1e6 … 1e9); an explicit tolerance is rescaled with it.
    Powers of two on the exact stream.  Returns (doc, eps, family)."""
    if rng.random() >= p:
        return doc, eps, "unit:1"
    small = rng.random() < 0.65
    if mode == "Q":
        s = 2.0 ** (-rng.choice([17, 18, 19, 20, 21, 22]) if small else rng.choice([10, 12, 14, 15]))
    else:
        s = rng.choice([1e-6, 2e-6, 5e-7, 1e-5, 3e-7]) if small else rng.choice([1e3, 5e3, 1e4, 3e4])
    e = None if eps is None else (eps[0] * s, eps[1] * s * s)
    return scale_doc(doc, s), e, "unit:small" if small else "unit:large"


def gen_eps(rng, mode: str):
    if mode == "Q":
        return rng.choice([(0.0, 0.0), (2.0 ** -30, 2.0 ** -20), (2.0 ** -30, 2.0 ** -20), (0.125, 0.25)])
    return rng.choice([None, None, None, (1e-9, 1e-6), (0.0, 0.0)])


# ------------------------------------------------------------------------------------------ defects
LISTED = ["unknown-module", "weight", "area", "soft-no-area", "hard-area", "hard-no-rects", "hard-overlap",
          "unknown-attr", "bad-name", "one-pin", "rect-size"]
MUST_LOAD = ["sliver-below-tol"]     # injected variations that are NOT defects: the document must still load
OTHER = ["flag-type", "fixed-hard", "center-form", "aspect-form", "hard-center", "hard-aspect", "flip-soft",
         "hard-region", "rect-form", "net-form", "root-form", "terminal-area", "rect-negative"]


def _pick(rng, doc, pred):
    names = [k for k, v in doc.get("Modules", {}).items() if isinstance(v, dict) and pred(v)]
    return rng.choice(names) if names else None


def _is_soft(v):
    return "area" in v


def _is_hardnt(v):
    return "area" not in v and v.get("terminal") is not True and "rectangles" in v


def _rect_list(v):
    r = v["rectangles"]
    return [r] if not isinstance(r[0], list) else r


def doc_default_eps(doc):
    """the tolerance a well-formed netlist DOCUMENT proposes when none is defined, computed on the spec side from the
    document alone (never read from the implementation): distance ε = 1e-12 × the smallest of all rectangle sides and of
    sqrt(area) of the modules with positive area (soft: Σ region areas; hard: Σ rectangle areas), area ε = sqrt(distance ε).
    Returns (εd, εA) as floats, or None when there is no dimension at all (`math.inf` in the implementation)."""
    orc = oracle(doc)
    dims = []
    for m in orc["modules"]:
        for r in m["rects"]:
            dims += [float(r[2]), float(r[3])]
    for m in orc["modules"]:
        if m["area"] > 0:
            dims.append(math.sqrt(float(m["area"])))
    if not dims:
        return None
    d = min(dims) * 1e-12
    return d, math.sqrt(d)


def installed_eps(doc):
    """the tolerance the implementation installs when `doc` is loaded in a process without one: (εd, εA), or None when
    the document does not load."""
    Rectangle.undefine_epsilon()
    try:
        Netlist(copy.deepcopy(doc))
        return float(Rectangle.distance_epsilon()), float(Rectangle.area_epsilon())
    except AssertionError:
        return None
    finally:
        Rectangle.undefine_epsilon()


def _float_overlap(a, b):
    """`Rectangle.area_overlap` of two [cx, cy, w, h] lists in double arithmetic (reference formula, spec side)."""
    ax0, ax1, ay0, ay1 = a[0] - a[2] / 2, a[0] + a[2] / 2, a[1] - a[3] / 2, a[1] + a[3] / 2
    bx0, bx1, by0, by1 = b[0] - b[2] / 2, b[0] + b[2] / 2, b[1] - b[3] / 2, b[1] + b[3] / 2
    dx, dy = min(ax1, bx1) - max(ax0, bx0), min(ay1, by1) - max(ay0, by0)
    return dx * dy if dx > 0 and dy > 0 else 0.0


def max_hard_overlap(doc) -> Fraction:
    """largest exact pairwise overlap area among the rectangles of one hard, non-terminal module of a (otherwise
    well-formed) document."""
    best = Fraction(0)
    for name, info in doc.get("Modules", {}).items():
        if not isinstance(info, dict) or "area" in info or info.get("terminal") is True or "rectangles" not in info:
            continue
        rl = [[Fraction(v) for v in r[:4]] for r in _rect_list(info)]
        for i in range(len(rl)):
            for j in range(i + 1, len(rl)):
                a, b = rl[i], rl[j]
                dx = min(a[0] + a[2] / 2, b[0] + b[2] / 2) - max(a[0] - a[2] / 2, b[0] - b[2] / 2)
                dy = min(a[1] + a[3] / 2, b[1] + b[3] / 2) - max(a[1] - a[3] / 2, b[1] - b[3] / 2)
                if dx > 0 and dy > 0:
                    best = max(best, dx * dy)
    return best


def overlap_above_tolerance(doc, eps) -> bool:
    """is the hard-overlap defect of `doc` a defect under the AREA TOLERANCE IN FORCE (explicit, or — undefined — the one
    the document proposes, derived on the spec side)?  The proposed area tolerance is sqrt(1e-12 × smallest dimension): it
    does not scale with the unit, so in a design written in a small unit (metres) it exceeds whole rectangles and an
    overlap is, by the reader's definition, none (known open finding C20-sticky-tolerance-nonrobust-design)."""
    try:
        tol = float(eps[1]) if eps is not None else (doc_default_eps(doc) or (0.0, 0.0))[1]
        return max_hard_overlap(doc) >= Fraction(1.5) * Fraction(tol) and max_hard_overlap(doc) > 0
    except Exception:
        return True


SLIVER_REJECT = [2, 1000]           # overlap / area tolerance: must be rejected
SLIVER_ACCEPT = [0.5, 0.25]         # must load


def sliver_overlap(rng, d, m, mode: str, eps, factors):
    """two squares of module `m` (side 1 … 10^6) overlapping in a thin sliver whose area is `factor` × the area tolerance
    IN FORCE, the tolerance being the explicit one or — tolerance undefined — the one the DOCUMENT proposes, computed on
    the spec side (`doc_default_eps`).  The overlap is checked exactly (Fractions on the numbers written) and in double
    arithmetic; both must be on the same side of the tolerance by a factor 1.5, else the case is dropped."""
    mods = d["Modules"]
    if mode == "Q":
        side = float(rng.choice([1, 2, 16, 1024, 65536, 1048576]))
    else:
        side = float(rng.choice([1.0, 2.0, 10.0, 37.5, 1e3, 1e4, 1e5, 1e6, 2.5e3, 3e5]))
    x0, y0 = rng.randint(0, 3) * side, rng.randint(0, 3) * side
    a = [x0 + side / 2, y0 + side / 2, side, side]
    mods[m]["rectangles"] = [list(a), [x0 + side + side / 2, y0 + side / 2, side, side]]
    mods[m].pop("flip", None)
    if eps is not None:
        tol = float(eps[1])
    else:
        de = doc_default_eps(d)              # the sliver does not change any dimension
        if de is None:
            return None
        tol = de[1]
    factor = rng.choice(factors)
    if tol == 0:
        if factor < 1:
            return None
        delta = side * 2.0 ** -20
    else:
        delta = factor * tol / side
        if mode == "Q":                      # keep the numbers dyadic: round δ to a power of two on the safe side
            e = math.floor(math.log2(delta)) if factor < 1 else math.ceil(math.log2(delta))
            delta = 2.0 ** e
    if not (0 < delta < side / 4):
        return None
    b = [x0 + side - delta + side / 2, y0 + side / 2, side, side]
    fa, fb = [Fraction(v) for v in a], [Fraction(v) for v in b]
    dx = (fa[0] + fa[2] / 2) - (fb[0] - fb[2] / 2)
    ov_exact, ov_float = dx * Fraction(side), _float_overlap(a, b)
    if factor >= 1:
        if not (dx > 0 and ov_exact > 0 and ov_exact >= 1.5 * Fraction(tol) and ov_float >= 1.5 * tol and ov_float > 0):
            return None
    else:
        if not (dx > 0 and ov_exact * 3 <= 2 * Fraction(tol) and ov_float * 1.5 <= tol):
            return None
    rl = [list(a), b]
    if rng.random() < 0.5:
        rl.reverse()
    mods[m]["rectangles"] = rl
    return d


def inject(rng, doc: dict, mode: str, cls: str, eps="unknown"):
    """returns the document with one defect of class `cls`, or None when the base document offers no place for it.
    `eps` = the tolerance state the document will be loaded under (needed for defects defined relative to it)."""
    d = copy.deepcopy(doc)
    mods = d.setdefault("Modules", {})
    nets = d.setdefault("Nets", [])
    names = list(mods)
    if cls == "unknown-module":
        if not names:
            return None
        bogus = rng.choice(["Q_unknown", "zz9", names[0] + "_", names[0].swapcase() + "0"])
        if bogus in mods:
            return None
        if nets and rng.random() < 0.7:
            e = rng.choice(nets)
            k = len(e) - (1 if not isinstance(e[-1], str) else 0)
            e[rng.randrange(k)] = bogus
        else:
            nets.insert(rng.randint(0, len(nets)), [names[0], bogus])
        return d
    if cls == "weight":
        if not names:
            return None
        w = rng.choice([0, -1, 0.0, -0.5, False, -2.5])
        if nets and rng.random() < 0.7:
            e = rng.choice(nets)
            if isinstance(e[-1], str):
                e.append(w)
            else:
                e[-1] = w
        else:
            nets.insert(rng.randint(0, len(nets)), [names[0], names[-1], w])
        return d
    if cls == "one-pin":
        if not names:
            return None
        e = rng.choice([[names[0]], [names[0], 3.0], [names[-1], 1], [names[0], True], [names[0], 2.5]])
        nets.insert(rng.randint(0, len(nets)), e)
        return d
    if cls == "area":
        m = _pick(rng, d, _is_soft)
        if m is None:
            return None
        bad = rng.choice([0, -1, 0.0, -2.5, False])
        if isinstance(mods[m]["area"], dict) and rng.random() < 0.7:
            k = rng.choice(list(mods[m]["area"]))
            mods[m]["area"][k] = bad
        else:
            mods[m]["area"] = rng.choice([bad, {"_": 2, "dsp": bad}, {"dsp": bad}])
        return d
    if cls == "soft-no-area":
        m = _pick(rng, d, _is_soft)
        if m is None:
            return None
        if rng.random() < 0.3:
            mods[m]["area"] = {}
        else:
            del mods[m]["area"]
            if rng.random() < 0.2:
                mods[m] = {}
        return d
    if cls == "hard-area":
        m = _pick(rng, d, lambda v: "area" not in v)
        if m is None:
            return None
        items = list(mods[m].items())
        items.insert(rng.randint(0, len(items)), ("area", rng.choice([4, 2.5, {"_": 3}, {"dsp": 1, "_": 2}])))
        mods[m] = dict(items)
        return d
    if cls == "hard-no-rects":
        m = _pick(rng, d, _is_hardnt)
        if m is None:
            return None
        del mods[m]["rectangles"]
        mods[m].pop("flip", None)
        return d
    if cls == "hard-overlap":
        m = _pick(rng, d, _is_hardnt)
        if m is None:
            return None
        rl = copy.deepcopy(_rect_list(mods[m]))
        how = rng.choice(["shifted-copy", "branch-overlap", "dup-branch", "dup-any"] + (["sliver-large"] * 3 if eps != "unknown" else []))
        if how == "sliver-large":
            return sliver_overlap(rng, d, m, mode, eps, SLIVER_REJECT)
        if how == "shifted-copy":
            r = rng.choice(rl)
            x, y, w, h = (float(v) for v in r[:4])
            # a copy shifted by a quarter of its size: overlaps the original on 9/16 of its area
            rl.insert(rng.randint(0, len(rl)), [x + w / 4, y + h / 4, w, h])
            mods[m].pop("flip", None)
        elif how == "dup-any":
            # the same rectangle twice (a duplicated branch keeps the module a STOG: only the pairwise check sees it)
            rl.insert(rng.randint(0, len(rl)), list(rng.choice(rl)))
        else:
            # a proper trunk with two branches that overlap each other (never the trunk): still a STOG
            u = 1.0 if mode == "Q" else rng.choice([1.0, 0.1, 2.5])
            X0, Y0 = (4 + rng.randint(0, 6)) * u, (4 + rng.randint(0, 6)) * u
            rl = [rect_from_box(rng, *r) for r in
                  overlapping_branches(rng, u, X0, Y0, rng.randint(3, 6), rng.randint(2, 6), how)]
        mods[m]["rectangles"] = rl
        return d
    if cls == "sliver-below-tol":    # NOT a defect: an overlap of ½ or ¼ of the area tolerance in force must load
        m = _pick(rng, d, _is_hardnt)
        if m is None or eps == "unknown":
            return None
        return sliver_overlap(rng, d, m, mode, eps, SLIVER_ACCEPT)
    if cls == "unknown-attr":
        if names and rng.random() < 0.8:
            m = rng.choice(names)
            items = list(mods[m].items())
            items.insert(rng.randint(0, len(items)),
                         (rng.choice(["Area", "min_shape", "centre", "foo", "aspect-ratio", "rectangle", "", "name", 7]), 1))
            mods[m] = dict(items)
        else:
            items = list(d.items())
            items.insert(rng.randint(0, len(items)), (rng.choice(["modules", "Edges", "nets", "Die", 3]), []))
            d = dict(items)
        return d
    if cls == "bad-name":
        bad = rng.choice(["L1-Cache", "1", "9a", "a b", "", "a.b", "é", "x\n", "-", "a,b", 1, 2.5, None, True])
        r = rng.random()
        soft = _pick(rng, d, lambda v: isinstance(v.get("area"), dict))
        withr = _pick(rng, d, lambda v: _is_soft(v) and "rectangles" in v)
        if r < 0.25 and soft is not None and isinstance(bad, str):
            a = mods[soft]["area"]
            k = rng.choice(list(a))
            mods[soft]["area"] = {(bad if kk == k else kk): vv for kk, vv in a.items()}
        elif r < 0.5 and withr is not None and isinstance(bad, str):
            rl = copy.deepcopy(_rect_list(mods[withr]))
            q = rng.choice(rl)
            q[4:] = [bad]
            mods[withr]["rectangles"] = rl
        else:
            if not names:
                mods_items = [(bad, {"area": 1})]
            else:
                tgt = rng.choice(names)
                mods_items = [((bad if k == tgt else k), v) for k, v in mods.items()]
                for e in nets:   # keep the nets consistent so that the name is the only defect
                    for i, x in enumerate(e):
                        if x == tgt and isinstance(x, str) and isinstance(bad, str):
                            e[i] = bad
                if not isinstance(bad, str):
                    d["Nets"] = [e for e in nets if tgt not in [x for x in e if isinstance(x, str)]]
            d["Modules"] = dict(mods_items)
        return d
    if cls in ("rect-size", "rect-negative"):
        m = _pick(rng, d, lambda v: "rectangles" in v)
        if m is None:
            return None
        rl = copy.deepcopy(_rect_list(mods[m]))
        q = rng.choice(rl)
        if cls == "rect-size":
            q[rng.choice([2, 3])] = rng.choice([0, 0.0, False, -1, -0.5])
        else:
            q[rng.choice([0, 1])] = rng.choice([-1, -0.5])
        mods[m]["rectangles"] = rl
        return d
    # ---- the other (unlisted) ill-formed shapes of Appendix B
    if cls == "flag-type":
        if not names:
            return None
        m = rng.choice(names)
        k = rng.choice(["fixed", "hard", "flip", "terminal"])
        mods[m][k] = rng.choice([1, 0, "true", None, 1.0, [True]])
        return d
    if cls == "fixed-hard":
        m = _pick(rng, d, lambda v: "fixed" in v and "hard" not in v)
        if m is None:
            return None
        items = list(mods[m].items())
        items.insert(rng.randint(0, len(items)), ("hard", rng.choice([True, False])))
        mods[m] = dict(items)
        return d
    if cls == "center-form":
        m = _pick(rng, d, lambda v: _is_soft(v))
        if m is None:
            return None
        mods[m]["center"] = rng.choice([[1], [1, 2, 3], ["a", 1], 3, None, {"x": 1, "y": 2}, [1, None], "1,2", []])
        return d
    if cls == "aspect-form":
        m = _pick(rng, d, lambda v: _is_soft(v))
        if m is None:
            return None
        mods[m]["aspect_ratio"] = rng.choice([0, -1, 0.0, [2, 3], [0.5, 0.75], [-1, 2], [0.5], [0.5, 2, 3], "2", None,
                                             [1.5, 2], ["a", 2], False, [0.5, "2"]])
        return d
    if cls in ("hard-center", "hard-aspect"):
        m = _pick(rng, d, _is_hardnt)
        if m is None:
            return None
        if cls == "hard-center":
            mods[m]["center"] = [1, 2]
        else:
            mods[m]["aspect_ratio"] = rng.choice([2, [0.5, 2]])
        return d
    if cls == "flip-soft":
        m = _pick(rng, d, lambda v: _is_soft(v) or v.get("fixed") is True or "terminal" in v)
        if m is None:
            return None
        mods[m]["flip"] = True
        return d
    if cls == "hard-region":
        m = _pick(rng, d, lambda v: "area" not in v and "rectangles" in v)
        if m is None:
            return None
        rl = copy.deepcopy(_rect_list(mods[m]))
        q = rng.choice(rl)
        q[4:] = [rng.choice(["dsp", "_"])]
        mods[m]["rectangles"] = rl
        return d
    if cls == "rect-form":
        m = _pick(rng, d, lambda v: "rectangles" in v)
        if m is None:
            return None
        rl = copy.deepcopy(_rect_list(mods[m]))
        mods[m]["rectangles"] = rng.choice([[], [1, 2, 3], rl + [5], rl + ["r"], [rl[0][:3]], [rl[0][:4] + ["dsp", 1]],
                                            None, 4, "[1,1,2,2]", [rl[0][:3] + ["2"]], [1, rl[0]], {"a": rl[0]},
                                            [rl[0][:4] + [3]], [[None, 1, 2, 2]]])
        return d
    if cls == "net-form":
        if not names:
            return None
        a = names[0]
        choice = rng.choice(["member-num", "member-list", "net-str", "nets-dict", "nets-null", "empty-net", "last-null",
                             "two-weights"])
        if choice == "member-num":
            nets.append([a, 2, 3])
        elif choice == "member-list":
            nets.append([[a], a])
        elif choice == "net-str":
            nets.append(a)
        elif choice == "nets-dict":
            d["Nets"] = {"e": [a, a]}
        elif choice == "nets-null":
            d["Nets"] = None
        elif choice == "empty-net":
            nets.append([])
        elif choice == "last-null":
            nets.append([a, a, None])
        else:
            nets.append([a, a, 2.0, 2.0])
        return d
    if cls == "root-form":
        choice = rng.choice(["list", "mods-list", "mods-null", "info-null", "info-list", "info-num"])
        if choice == "list":
            return [d]
        if choice == "mods-list":
            d["Modules"] = [mods]
        elif choice == "mods-null":
            d["Modules"] = None
        else:
            if not names:
                return None
            d["Modules"][rng.choice(names)] = {"info-null": None, "info-list": [["area", 3]], "info-num": 3}[choice]
        return d
    if cls == "terminal-area":
        m = _pick(rng, d, lambda v: v.get("terminal") is True)
        if m is None:
            return None
        mods[m][rng.choice(["aspect_ratio", "flip"])] = rng.choice([2, False])
        return d
    raise ValueError(cls)


# ------------------------------------------------------------------------------------------ oracle on the document
def doc_size(doc) -> int:
    if not isinstance(doc, dict):
        return 1
    mods = doc.get("Modules") or {}
    nets = doc.get("Nets") or []
    n = 0
    if isinstance(mods, dict):
        for v in mods.values():
            n += 1 + (len(v) if isinstance(v, dict) else 0)
            if isinstance(v, dict) and isinstance(v.get("rectangles"), list):
                n += len(v["rectangles"])
    if isinstance(nets, list):
        n += len(nets)
    return n


def oracle(doc: dict) -> dict:
    """derived quantities by their *definition*, from a well-formed document, in exact arithmetic.
    Per module: kind, per-region areas, total area, centre (centroid of rectangles when there are any, else the given
    centre), rectangles (as a sorted multiset: the reader may reorder them), fixed flag."""
    out = {"modules": [], "nets": []}
    for name, info in doc.get("Modules", {}).items():
        fr = lambda v: Fraction(v)  # noqa: E731  (bool/int/float → exact)
        rl = []
        if "rectangles" in info:
            for r in _rect_list(info):
                rl.append((fr(r[0]), fr(r[1]), fr(r[2]), fr(r[3]), r[4] if len(r) == 5 else "_"))
        soft = "area" in info
        if soft:
            a = info["area"]
            regs = {"_": fr(a)} if not isinstance(a, dict) else {k: fr(v) for k, v in a.items()}
            area = sum(regs.values(), Fraction(0))
        else:
            area = sum((r[2] * r[3] for r in rl), Fraction(0))
            regs = {"_": area}
        if rl:
            tot = sum((r[2] * r[3] for r in rl), Fraction(0))
            center = (sum((r[2] * r[3] * r[0] for r in rl), Fraction(0)) / tot,
                      sum((r[2] * r[3] * r[1] for r in rl), Fraction(0)) / tot)
        elif "center" in info:
            center = (fr(info["center"][0]), fr(info["center"][1]))
        else:
            center = None
        ar = None
        if "aspect_ratio" in info:
            v = info["aspect_ratio"]
            if isinstance(v, list):
                ar = (fr(v[0]), fr(v[1]))
            else:
                ar = (min(fr(v), 1 / fr(v)), max(fr(v), 1 / fr(v)))
        fixed = info.get("fixed") is True
        terminal = info.get("terminal") is True
        out["modules"].append({"name": name, "soft": soft, "fixed": fixed, "terminal": terminal,
                               "flip": info.get("flip") is True, "regions": regs, "area": area, "center": center,
                               "aspect": ar, "rects": sorted(rl), "hard": not soft})
    for e in doc.get("Nets", []):
        if isinstance(e[-1], str):
            out["nets"].append((list(e), Fraction(1)))
        else:
            out["nets"].append((list(e[:-1]), Fraction(e[-1])))
    return out


def wire_length_exact(orc: dict) -> float | None:
    """Σ_nets w · Σ_i dist(centre_i, mean of centres) with 50-digit square roots; None when a member has no centre."""
    import mpmath
    mpmath.mp.dps = 50
    centers = {m["name"]: m["center"] for m in orc["modules"]}
    total = mpmath.mpf(0)
    for members, w in orc["nets"]:
        cs = [centers[b] for b in members]
        if any(c is None for c in cs):
            return None
        mx = sum((c[0] for c in cs), Fraction(0)) / len(cs)
        my = sum((c[1] for c in cs), Fraction(0)) / len(cs)
        s = mpmath.mpf(0)
        for c in cs:
            d2 = (mx - c[0]) ** 2 + (my - c[1]) ** 2
            s += mpmath.sqrt(mpmath.mpf(d2.numerator) / mpmath.mpf(d2.denominator))
        total += s * (mpmath.mpf(w.numerator) / mpmath.mpf(w.denominator))
    return float(total)


# ------------------------------------------------------------------------------------------ replay support / shrinking
def to_plain(v: Any) -> Any:
    """decoded model tree → plain Python objects (floats as `float`)."""
    if isinstance(v, MapTag):
        return {to_plain(k): to_plain(x) for k, x in v.items}
    if isinstance(v, list):
        return [to_plain(x) for x in v]
    if isinstance(v, FloatTag):
        return float(v.v)
    return v


def decode_doc(tokens: str, mode: str) -> Any:
    v, _ = dec_tree(tokens.split(), 0, mode)
    return to_plain(v)


def make_input(doc: Any, eps, mode: str, **extra) -> dict:
    """JSON-serialisable, loss-free description of a case (documents may have non-string keys)."""
    d = {"mode": mode, "eps": None if eps is None else [float(eps[0]), float(eps[1])],
         "tree": enc_tree(doc, mode), "doc_repr": repr(doc)[:1500]}
    d.update(extra)
    return d


def read_input(inp: dict):
    eps = None if inp["eps"] is None else (inp["eps"][0], inp["eps"][1])
    return decode_doc(inp["tree"], inp["mode"]), eps, inp["mode"]


def shrink(doc: Any, fails) -> Any:
    """greedy reduction of a failing document: drop nets, then modules (with the nets that mention them), then
    attributes, as long as `fails(doc)` stays true."""
    if not isinstance(doc, dict):
        return doc
    cur = copy.deepcopy(doc)

    def attempt(cand) -> bool:
        nonlocal cur
        try:
            if fails(cand):
                cur = cand
                return True
        except Exception:
            pass
        return False

    changed = True
    rounds = 0
    while changed and rounds < 6:
        changed = False
        rounds += 1
        nets = cur.get("Nets")
        if isinstance(nets, list):
            for i in range(len(nets) - 1, -1, -1):
                cand = copy.deepcopy(cur)
                del cand["Nets"][i]
                changed |= attempt(cand)
        mods = cur.get("Modules")
        if isinstance(mods, dict):
            for name in list(mods):
                cand = copy.deepcopy(cur)
                del cand["Modules"][name]
                if isinstance(cand.get("Nets"), list):
                    cand["Nets"] = [e for e in cand["Nets"] if not (isinstance(e, list) and name in [x for x in e if isinstance(x, str)])]
                changed |= attempt(cand)
            for name in list(cur["Modules"]):
                info = cur["Modules"][name]
                if isinstance(info, dict):
                    for k in list(info):
                        cand = copy.deepcopy(cur)
                        del cand["Modules"][name][k]
                        changed |= attempt(cand)
    return cur

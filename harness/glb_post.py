"""C10 helper: what `optimize_allocation` POSTS to GEKKO.

`RecGEKKO` is a recording subclass of `gekko.GEKKO` (installed as `tools.glbfloor.optimization.GEKKO` while a run is
observed): it records FRAME's own calls `g.Var(...)`, `g.sum([...])`, `g.Equation(...)`, `g.Minimize(...)` — not the
variables / equations GEKKO creates internally inside `sum` — and otherwise behaves like GEKKO.  The recorded strings
(GEKKO's fully parenthesised infix) are parsed into trees, sums are substituted back, and everything is printed in the
reply format of the Lean driver op `post` (`FV/Model/GlbOpt.lean`), variables named by role: `a:<module>:<cell>`,
`x:<module>`, `y:<module>`, `d:<module>`.  The same trees are evaluated on the solver's answer (monitor).
"""
from __future__ import annotations

import re

from gekko import GEKKO

from vcheck import f2hex


class RecGEKKO(GEKKO):
    def __init__(self, *a, **k):
        super().__init__(*a, **k)
        self.rec_vars = []      # (name kwarg, lb, ub, gekko name, object)
        self.rec_rows = []      # ("eq" | "min", string)
        self.rec_sums = {}      # gekko name of the sum variable -> element strings
        self._rec_off = 0

    def Var(self, value=None, lb=None, ub=None, integer=False, fixed_initial=True, name=None):
        v = super().Var(value=value, lb=lb, ub=ub, integer=integer, fixed_initial=fixed_initial, name=name)
        if not self._rec_off:
            self.rec_vars.append((name, lb, ub, str(v), v))
        return v

    def Equation(self, equation):
        r = super().Equation(equation)
        if not self._rec_off:
            self.rec_rows.append(("eq", str(equation)))
        return r

    def Minimize(self, obj):
        if not self._rec_off:
            self.rec_rows.append(("min", str(obj)))
        return super().Minimize(obj)

    def sum(self, x):
        elems = [str(xi) for xi in x] if isinstance(x, list) else None
        self._rec_off += 1
        try:
            y = super().sum(x)
        finally:
            self._rec_off -= 1
        if elems is not None:
            self.rec_sums[str(y)] = elems
        return y


# ------------------------------------------------------------------------------------------------ parsing
_TOK = re.compile(r"\s*(?:(\d+\.?\d*(?:[eE][+-]?\d+)?|\.\d+(?:[eE][+-]?\d+)?)|([A-Za-z_][A-Za-z0-9_]*)|(<=|>=|\^|[-+*/()=]))")


def _tokens(s: str):
    out, i = [], 0
    while i < len(s):
        m = _TOK.match(s, i)
        if not m:
            if s[i:].strip() == "":
                break
            raise ValueError(f"cannot tokenise {s[i:i + 20]!r}")
        i = m.end()
        if m.group(1) is not None:
            out.append(("num", float(m.group(1))))
        elif m.group(2) is not None:
            out.append(("id", m.group(2)))
        else:
            out.append(("op", m.group(3)))
    return out


class _P:
    def __init__(self, toks):
        self.t, self.i = toks, 0

    def peek(self):
        return self.t[self.i] if self.i < len(self.t) else ("end", None)

    def take(self):
        tok = self.peek()
        self.i += 1
        return tok

    def expr(self):
        a = self.term()
        while self.peek() in (("op", "+"), ("op", "-")):
            op = self.take()[1]
            b = self.term()
            a = ("add" if op == "+" else "sub", a, b)
        return a

    def term(self):
        a = self.factor()
        while self.peek() in (("op", "*"), ("op", "/")):
            op = self.take()[1]
            b = self.factor()
            a = ("mul" if op == "*" else "div", a, b)
        return a

    def factor(self):
        a = self.base()
        if self.peek() == ("op", "^"):
            self.take()
            return ("pow", a, self.factor())
        return a

    def base(self):
        k, v = self.take()
        if k == "num":
            return ("num", v)
        if k == "id":
            return ("var", v)
        if (k, v) == ("op", "("):
            e = self.expr()
            if self.take() != ("op", ")"):
                raise ValueError("expected )")
            return e
        if (k, v) == ("op", "-"):
            b = self.base()
            return ("num", -b[1]) if b[0] == "num" else ("neg", b)
        raise ValueError(f"unexpected token {k} {v}")


def parse_expr(s: str):
    p = _P(_tokens(s))
    e = p.expr()
    if p.peek()[0] != "end":
        raise ValueError("trailing tokens in " + s[:60])
    return e


def parse_relation(s: str):
    """(lhs tree, 'LE'|'GE'|'EQ', rhs tree)."""
    toks = _tokens(s)
    depth = 0
    for i, (k, v) in enumerate(toks):
        if k == "op" and v == "(":
            depth += 1
        elif k == "op" and v == ")":
            depth -= 1
        elif k == "op" and v in ("<=", ">=", "=") and depth == 0:
            l, r = _P(toks[:i]), _P(toks[i + 1:])
            return l.expr(), {"<=": "LE", ">=": "GE", "=": "EQ"}[v], r.expr()
    raise ValueError("no relation in " + s[:60])


def subst_sums(e, sums: dict, depth=0):
    """replace the variables GEKKO created for `g.sum` by ('sum', [elements])."""
    if e[0] == "var" and e[1] in sums and depth < 4:
        return ("sum", [subst_sums(parse_expr(x), sums, depth + 1) for x in sums[e[1]]])
    if e[0] in ("num", "var"):
        return e
    if e[0] == "sum":
        return ("sum", [subst_sums(x, sums, depth) for x in e[1]])
    return (e[0],) + tuple(subst_sums(x, sums, depth) for x in e[1:])


def evaluate(e, val):
    k = e[0]
    if k == "num":
        return e[1]
    if k == "var":
        return val[e[1]]
    if k == "sum":
        return sum(evaluate(x, val) for x in e[1])
    if k == "neg":
        return -evaluate(e[1], val)
    a, b = evaluate(e[1], val), evaluate(e[2], val)
    if k == "add":
        return a + b
    if k == "sub":
        return a - b
    if k == "mul":
        return a * b
    if k == "div":
        return a / b
    if k == "pow":
        return a ** b
    raise ValueError(k)


# ------------------------------------------------------------------------------------------------ canonical form
def norm_row(row: str) -> str:
    """equality rows are unordered: the simpler side (a number or a variable) goes to the right."""
    if row.startswith("E EQ ") and " ; " in row:
        a, b = row[5:].split(" ; ", 1)
        simple = lambda x: x.startswith(("n ", "v "))
        if simple(a) and not simple(b):
            a, b = b, a
        return f"E EQ {a} ; {b}"
    return row


def norm_posted(line: str) -> str:
    return " | ".join(norm_row(x) for x in line.split(" | "))


class Canon:
    """names of GEKKO variables -> role tokens; trees -> the `post` reply format."""

    def __init__(self, g: RecGEKKO):
        self.g = g
        self.role = {}
        for name, _lb, _ub, gk, _obj in g.rec_vars:
            if name is None:
                continue
            kind, rest = name[0], name[2:]
            if kind == "a":
                m, c = rest.rsplit("_", 1)
                self.role[gk] = f"a:{m}:{int(c)}"
            else:
                self.role[gk] = f"{kind}:{rest}"

    def v(self, gk: str):
        return self.role.get(gk)

    def t(self, e):
        if e[0] == "num":
            return f"n {f2hex(e[1])}"
        if e[0] == "var" and self.v(e[1]):
            return f"v {self.v(e[1])}"
        if e[0] == "mul" and e[1][0] == "num" and e[2][0] == "var" and self.v(e[2][1]):
            return f"l {f2hex(e[1][1])} {self.v(e[2][1])}"
        return None

    def ts(self, elems):
        out = [self.t(x) for x in elems]
        if any(o is None for o in out):
            return None
        return f"{len(out)}" + "".join(" " + o for o in out)

    def e(self, e):
        if e[0] == "num":
            return f"n {f2hex(e[1])}"
        if e[0] == "var" and self.v(e[1]):
            return f"v {self.v(e[1])}"
        if e[0] == "sum":
            s = self.ts(e[1])
            return None if s is None else "S " + s
        if e[0] == "mul" and e[1][0] == "num" and e[2][0] == "sum":
            s = self.ts(e[2][1])
            return None if s is None else f"K {f2hex(e[1][1])} " + s
        if e[0] == "sub" and e[1][0] == "var" and e[2][0] == "var" and self.v(e[1][1]) and self.v(e[2][1]):
            return f"D {self.v(e[1][1])} {self.v(e[2][1])}"
        if e[0] == "pow" and e[2] == ("num", 2.0) and e[1][0] == "sub":
            d = self.e(e[1])
            return None if d is None or not d.startswith("D ") else "Q" + d[1:]
        return None

    def _vars_in(self, e, acc):
        if e[0] == "var":
            acc.add(e[1])
        elif e[0] == "sum":
            for x in e[1]:
                self._vars_in(x, acc)
        elif e[0] != "num":
            for x in e[1:]:
                self._vars_in(x, acc)
        return acc

    def row(self, kind: str, s: str):
        sums = self.g.rec_sums
        if kind == "min":
            raw = self._vars_in(parse_expr(s), set())
            if any(v in sums for v in raw):
                return "stub minimize dispersion"
            if any(self.v(v) is None for v in raw):
                return "stub minimize hyper"
            return "stub minimize edge"
        l, cmp_, r = parse_relation(s)
        ls, rs = subst_sums(l, sums), subst_sums(r, sums)
        if cmp_ == "EQ":     # GEKKO may print `a == b` with the sides exchanged: equality rows are unordered
            for side, other in ((r, ls), (l, rs)):
                if side[0] == "var" and (self.v(side[1]) or "").startswith("d:"):
                    return "stub disp " + self.v(side[1])[2:]
                if side[0] == "var" and self.v(side[1]) is None and side[1] not in sums:
                    names = {self.v(x) or "" for x in self._vars_in(other, set())}
                    return "stub hyper " + ("x" if any(n.startswith("x:") for n in names) else "y")
        a, b = self.e(ls), self.e(rs)
        if a is None or b is None:
            return "?unrecognised " + s.replace(" ", "")[:120]
        return norm_row(f"E {cmp_} {a} ; {b}")

    def posted(self, model) -> str:
        def num(x):
            return "-" if x is None else f2hex(float(x))
        vs = [(self.role[gk], lb, ub) for name, lb, ub, gk, _o in self.g.rec_vars if name is not None]
        consts = []
        for d, k in ((model.x, "x"), (model.y, "y")):
            consts += [(f"{k}:{m}", v) for m, v in d.items() if isinstance(v, float)]
        for m, row in model.a.items():
            consts += [(f"a:{m}:{c}", v) for c, v in row.items() if isinstance(v, float)]
        rows = [self.row(k, s) for k, s in self.g.rec_rows]
        return (f"post {len(vs)}" + "".join(f" | {v} {num(lb)} {num(ub)}" for v, lb, ub in vs) +
                f" || {len(consts)}" + "".join(f" | {v} {f2hex(x)}" for v, x in consts) +
                f" || {len(rows)}" + "".join(" | " + r for r in rows))

    def residuals(self, get_value) -> dict:
        """evaluate every posted equation and bound on the solver's point; relative violations."""
        val = {gk: float(get_value(obj)) for _n, _lb, _ub, gk, obj in self.g.rec_vars}
        worst, worst_what, n = 0.0, None, 0
        for _name, lb, ub, gk, _o in self.g.rec_vars:
            x = val[gk]
            for viol in ((lb - x) if lb is not None else 0.0, (x - ub) if ub is not None else 0.0):
                if viol > worst:
                    worst, worst_what = viol, "bound " + (self.v(gk) or gk)
        for k, s in self.g.rec_rows:
            if k != "eq":
                continue
            l, cmp_, r = parse_relation(s)
            try:
                a = evaluate(subst_sums(l, self.g.rec_sums), val)
                b = evaluate(subst_sums(r, self.g.rec_sums), val)
            except KeyError:
                continue        # refers to a variable GEKKO created internally
            n += 1
            viol = (a - b) if cmp_ == "LE" else (b - a) if cmp_ == "GE" else abs(a - b)
            viol = viol / max(1.0, abs(a), abs(b))
            if viol > worst:
                worst, worst_what = viol, s.replace(" ", "")[:80]
        return {"equations": n, "worst": worst, "where": worst_what}

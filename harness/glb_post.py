"""C10 helper: what `optimize_allocation` POSTS to GEKKO.

`RecGEKKO` is a recording subclass of `gekko.GEKKO` (installed as `tools.glbfloor.optimization.GEKKO` while a run is
observed): it records FRAME's own calls `g.Var(...)`, `g.sum([...])`, `g.Equation(...)`, `g.Minimize(...)` — not the
variables / equations GEKKO creates internally inside `sum` — and otherwise behaves like GEKKO.  The recorded strings
(GEKKO's fully parenthesised infix) are parsed into trees, sums are substituted back, and everything is printed in the
reply format of the Lean driver op `post` (`FV/Model/GlbOpt.lean`), variables named by role: `a:<module>:<cell>`,
`x:<module>`, `y:<module>`, `d:<module>`.  The same trees are evaluated on the solver's answer (monitor).
"""
from __future__ import annotations

import re

from gekko import GEKKO

from vcheck import f2hex, hex2f


class RecGEKKO(GEKKO):
    def __init__(self, *a, **k):
        super().__init__(*a, **k)
        self.rec_vars = []      # (name kwarg, lb, ub, gekko name, object)
        self.rec_rows = []      # ("eq" | "min", string)
        self.rec_sums = {}      # gekko name of the sum variable -> element strings
        self._rec_off = 0

    def Var(self, value=None, lb=None, ub=None, integer=False, fixed_initial=True, name=None):
        v = super().Var(value=value, lb=lb, ub=ub, integer=integer, fixed_initial=fixed_initial, name=name)
        if not self._rec_off:
            self.rec_vars.append((name, lb, ub, str(v), v))
        return v

    def Equation(self, equation):
        r = super().Equation(equation)
        if not self._rec_off:
            self.rec_rows.append(("eq", str(equation)))
        return r

    def Minimize(self, obj):
        if not self._rec_off:
            self.rec_rows.append(("min", str(obj)))
        return super().Minimize(obj)

    def sum(self, x):
        elems = [str(xi) for xi in x] if isinstance(x, list) else None
        self._rec_off += 1
        try:
            y = super().sum(x)
        finally:
            self._rec_off -= 1
        if elems is not None:
            self.rec_sums[str(y)] = elems
        return y


# ------------------------------------------------------------------------------------------------ parsing
_TOK = re.compile(r"\s*(?:(\d+\.?\d*(?:[eE][+-]?\d+)?|\.\d+(?:[eE][+-]?\d+)?)|([A-Za-z_][A-Za-z0-9_]*)|(<=|>=|\^|[-+*/()=]))")


def _tokens(s: str):
    out, i = [], 0
    while i < len(s):
        m = _TOK.match(s, i)
        if not m:
            if s[i:].strip() == "":
                break
            raise ValueError(f"cannot tokenise {s[i:i + 20]!r}")
        i = m.end()
        if m.group(1) is not None:
            out.append(("num", float(m.group(1))))
        elif m.group(2) is not None:
            out.append(("id", m.group(2)))
        else:
            out.append(("op", m.group(3)))
    return out


class _P:
    def __init__(self, toks):
        self.t, self.i = toks, 0

    def peek(self):
        return self.t[self.i] if self.i < len(self.t) else ("end", None)

    def take(self):
        tok = self.peek()
        self.i += 1
        return tok

    def expr(self):
        a = self.term()
        while self.peek() in (("op", "+"), ("op", "-")):
            op = self.take()[1]
            b = self.term()
            a = ("add" if op == "+" else "sub", a, b)
        return a

    def term(self):
        a = self.factor()
        while self.peek() in (("op", "*"), ("op", "/")):
            op = self.take()[1]
            b = self.factor()
            a = ("mul" if op == "*" else "div", a, b)
        return a

    def factor(self):
        a = self.base()
        if self.peek() == ("op", "^"):
            self.take()
            return ("pow", a, self.factor())
        return a

    def base(self):
        k, v = self.take()
        if k == "num":
            return ("num", v)
        if k == "id":
            return ("var", v)
        if (k, v) == ("op", "("):
            e = self.expr()
            if self.take() != ("op", ")"):
                raise ValueError("expected )")
            return e
        if (k, v) == ("op", "-"):
            b = self.base()
            return ("num", -b[1]) if b[0] == "num" else ("neg", b)
        raise ValueError(f"unexpected token {k} {v}")


def parse_expr(s: str):
    p = _P(_tokens(s))
    e = p.expr()
    if p.peek()[0] != "end":
        raise ValueError("trailing tokens in " + s[:60])
    return e


def parse_relation(s: str):
    """(lhs tree, 'LE'|'GE'|'EQ', rhs tree)."""
    toks = _tokens(s)
    depth = 0
    for i, (k, v) in enumerate(toks):
        if k == "op" and v == "(":
            depth += 1
        elif k == "op" and v == ")":
            depth -= 1
        elif k == "op" and v in ("<=", ">=", "=") and depth == 0:
            l, r = _P(toks[:i]), _P(toks[i + 1:])
            return l.expr(), {"<=": "LE", ">=": "GE", "=": "EQ"}[v], r.expr()
    raise ValueError("no relation in " + s[:60])


def subst_sums(e, sums: dict, depth=0):
    """replace the variables GEKKO created for `g.sum` by ('sum', [elements])."""
    if e[0] == "var" and e[1] in sums and depth < 4:
        return ("sum", [subst_sums(parse_expr(x), sums, depth + 1) for x in sums[e[1]]])
    if e[0] in ("num", "var"):
        return e
    if e[0] == "sum":
        return ("sum", [subst_sums(x, sums, depth) for x in e[1]])
    return (e[0],) + tuple(subst_sums(x, sums, depth) for x in e[1:])


def evaluate(e, val):
    k = e[0]
    if k == "num":
        return e[1]
    if k == "var":
        return val[e[1]]
    if k == "sum":
        return sum(evaluate(x, val) for x in e[1])
    if k == "neg":
        return -evaluate(e[1], val)
    a, b = evaluate(e[1], val), evaluate(e[2], val)
    if k == "add":
        return a + b
    if k == "sub":
        return a - b
    if k == "mul":
        return a * b
    if k == "div":
        return a / b
    if k == "pow":
        return a ** b
    raise ValueError(k)


# ------------------------------------------------------------------------------------------------ canonical form
def norm_row(row: str) -> str:
    """equality rows are unordered: the simpler side (a number or a variable) goes to the right."""
    if row.startswith("E EQ ") and " ; " in row:
        a, b = row[5:].split(" ; ", 1)
        simple = lambda x: x.startswith(("n ", "v "))
        if simple(a) and not simple(b):
            a, b = b, a
        return f"E EQ {a} ; {b}"
    return row


def norm_posted(line: str) -> str:
    return " | ".join(norm_row(x) for x in line.split(" | "))


_OPS = {"add": "+", "sub": "-", "mul": "*", "div": "/"}


class Canon:
    """names of GEKKO variables -> role tokens; trees -> the `post` reply format."""

    def __init__(self, g: RecGEKKO, hyper=()):
        """`hyper`: indices (in the netlist's edge list) of the nets with other than two pins — FRAME creates two
        anonymous variables (centre x, centre y) for each, in that order."""
        self.g = g
        self.role = {}
        anon = 0
        for name, _lb, _ub, gk, _obj in g.rec_vars:
            if name is None:
                if anon // 2 < len(hyper):
                    self.role[gk] = ("ex:" if anon % 2 == 0 else "ey:") + str(hyper[anon // 2])
                anon += 1
                continue
            kind, rest = name[0], name[2:]
            if kind == "a":
                m, c = rest.rsplit("_", 1)
                self.role[gk] = f"a:{m}:{int(c)}"
            else:
                self.role[gk] = f"{kind}:{rest}"

    def v(self, gk: str):
        return self.role.get(gk)

    def x(self, e):
        """a sum-free expression in the prefix notation of the driver (`showX`)."""
        k = e[0]
        if k == "num":
            return f"n {f2hex(e[1])}"
        if k == "var":
            return f"v {self.v(e[1])}" if self.v(e[1]) else None
        if k in ("add", "sub", "mul", "div"):
            a, b = self.x(e[1]), self.x(e[2])
            return None if a is None or b is None else f"{_OPS[k]} {a} {b}"
        if k == "pow" and e[2] == ("num", 2.0):
            a = self.x(e[1])
            return None if a is None else f"^2 {a}"
        if k == "neg":
            a = self.x(e[1])
            return None if a is None else f"- n {f2hex(0.0)} {a}"
        if k == "sum":      # a sum in a position where the generator never has one: printed for the semantic comparison
            s = self.ts(e[1])
            return None if s is None else "S " + s
        return None

    def t(self, e):
        if e[0] == "num":
            return f"n {f2hex(e[1])}"
        if e[0] == "var" and self.v(e[1]):
            return f"v {self.v(e[1])}"
        if e[0] == "mul" and e[1][0] == "num" and e[2][0] == "var" and self.v(e[2][1]):
            return f"l {f2hex(e[1][1])} {self.v(e[2][1])}"
        g = self.x(e)
        return None if g is None else "g " + g

    def ts(self, elems):
        out = [self.t(x) for x in elems]
        if any(o is None for o in out):
            return None
        return f"{len(out)}" + "".join(" " + o for o in out)

    def e(self, e):
        if e[0] == "num":
            return f"n {f2hex(e[1])}"
        if e[0] == "var" and self.v(e[1]):
            return f"v {self.v(e[1])}"
        if e[0] == "sum":
            s = self.ts(e[1])
            return None if s is None else "S " + s
        if e[0] == "mul" and e[1][0] == "num" and e[2][0] == "sum":
            s = self.ts(e[2][1])
            return None if s is None else f"K {f2hex(e[1][1])} " + s
        if e[0] == "sub" and e[1][0] == "var" and e[2][0] == "var" and self.v(e[1][1]) and self.v(e[2][1]):
            return f"D {self.v(e[1][1])} {self.v(e[2][1])}"
        if e[0] == "pow" and e[2] == ("num", 2.0) and e[1][0] == "sub" and e[1][1][0] == "var" and e[1][2][0] == "var":
            d = self.e(e[1])
            return None if d is None or not d.startswith("D ") else "Q" + d[1:]
        if e[0] == "div" and e[1][0] == "sum" and e[2][0] == "num":
            s = self.ts(e[1][1])
            return None if s is None else f"V {f2hex(e[2][1])} " + s
        g = self.x(e)
        return None if g is None else "G " + g

    def _vars_in(self, e, acc):
        if e[0] == "var":
            acc.add(e[1])
        elif e[0] == "sum":
            for x in e[1]:
                self._vars_in(x, acc)
        elif e[0] != "num":
            for x in e[1:]:
                self._vars_in(x, acc)
        return acc

    def row(self, kind: str, s: str):
        sums = self.g.rec_sums
        if kind == "min":
            a = self.e(subst_sums(parse_expr(s), sums))
            return "?unrecognised " + s.replace(" ", "")[:120] if a is None else "O " + a
        l, cmp_, r = parse_relation(s)
        a, b = self.e(subst_sums(l, sums)), self.e(subst_sums(r, sums))
        if a is None or b is None:
            return "?unrecognised " + s.replace(" ", "")[:120]
        return norm_row(f"E {cmp_} {a} ; {b}")     # GEKKO may print `a == b` with the sides exchanged

    def posted(self, model) -> str:
        def num(x):
            return "-" if x is None else f2hex(float(x))
        vs = [(self.role.get(gk, "?" + gk), lb, ub) for name, lb, ub, gk, _o in self.g.rec_vars]
        consts = []
        for d, k in ((model.x, "x"), (model.y, "y")):
            consts += [(f"{k}:{m}", v) for m, v in d.items() if isinstance(v, float)]
        for m, row in model.a.items():
            consts += [(f"a:{m}:{c}", v) for c, v in row.items() if isinstance(v, float)]
        rows = [self.row(k, s) for k, s in self.g.rec_rows]
        return (f"post {len(vs)}" + "".join(f" | {v} {num(lb)} {num(ub)}" for v, lb, ub in vs) +
                f" || {len(consts)}" + "".join(f" | {v} {f2hex(x)}" for v, x in consts) +
                f" || {len(rows)}" + "".join(" | " + r for r in rows))

    def residuals(self, get_value) -> dict:
        """evaluate every posted equation and bound on the solver's point; relative violations."""
        val = {gk: float(get_value(obj)) for _n, _lb, _ub, gk, obj in self.g.rec_vars}
        worst, worst_what, n = 0.0, None, 0
        for _name, lb, ub, gk, _o in self.g.rec_vars:
            x = val[gk]
            for viol in ((lb - x) if lb is not None else 0.0, (x - ub) if ub is not None else 0.0):
                if viol > worst:
                    worst, worst_what = viol, "bound " + (self.v(gk) or gk)
        for k, s in self.g.rec_rows:
            if k != "eq":
                continue
            l, cmp_, r = parse_relation(s)
            try:
                a = evaluate(subst_sums(l, self.g.rec_sums), val)
                b = evaluate(subst_sums(r, self.g.rec_sums), val)
            except KeyError:
                continue        # refers to a variable GEKKO created internally
            n += 1
            viol = (a - b) if cmp_ == "LE" else (b - a) if cmp_ == "GE" else abs(a - b)
            viol = viol / max(1.0, abs(a), abs(b))
            if viol > worst:
                worst, worst_what = viol, s.replace(" ", "")[:80]
        return {"equations": n, "worst": worst, "where": worst_what}


# ------------------------------------------------------------------------------------------------ meaning of a printed row
def _rd_ts(tk, i):
    n = int(tk[i]); i += 1
    out = []
    for _ in range(n):
        e, i = _rd_t(tk, i)
        out.append(e)
    return out, i


def _rd_x(tk, i):
    k = tk[i]
    if k == "n":
        return ("num", hex2f(tk[i + 1])), i + 2
    if k == "v":
        return ("var", tk[i + 1]), i + 2
    if k in ("+", "-", "*", "/"):
        a, i = _rd_x(tk, i + 1)
        b, i = _rd_x(tk, i)
        return ({"+": "add", "-": "sub", "*": "mul", "/": "div"}[k], a, b), i
    if k == "^2":
        a, i = _rd_x(tk, i + 1)
        return ("pow", a, ("num", 2.0)), i
    if k == "S":
        l, i = _rd_ts(tk, i + 1)
        return ("sum", l), i
    raise ValueError("bad expression token " + k)


def _rd_t(tk, i):
    k = tk[i]
    if k in ("n", "v"):
        return _rd_x(tk, i)
    if k == "l":
        return ("mul", ("num", hex2f(tk[i + 1])), ("var", tk[i + 2])), i + 3
    if k == "g":
        return _rd_x(tk, i + 1)
    raise ValueError("bad element token " + k)


def _rd_e(tk, i):
    k = tk[i]
    if k in ("n", "v"):
        return _rd_x(tk, i)
    if k == "S":
        l, i = _rd_ts(tk, i + 1)
        return ("sum", l), i
    if k in ("K", "V"):
        c = ("num", hex2f(tk[i + 1]))
        l, i = _rd_ts(tk, i + 2)
        return (("mul", c, ("sum", l)) if k == "K" else ("div", ("sum", l), c)), i
    if k in ("D", "Q"):
        d = ("sub", ("var", tk[i + 1]), ("var", tk[i + 2]))
        return (d if k == "D" else ("pow", d, ("num", 2.0))), i + 3
    if k == "G":
        return _rd_x(tk, i + 1)
    raise ValueError("bad row token " + k)


def row_tree(row: str):
    """a row of the `post` reply format -> ('O', tree) | ('LE'|'GE'|'EQ', lhs tree, rhs tree)."""
    tk = row.split()
    if tk[0] == "O":
        e, i = _rd_e(tk, 1)
        if i != len(tk):
            raise ValueError("trailing tokens")
        return ("O", e)
    if tk[0] == "E":
        semi = tk.index(";")
        a, i = _rd_e(tk[:semi], 2)
        b, j = _rd_e(tk[semi + 1:], 0)
        if i != semi or j != len(tk) - semi - 1:
            raise ValueError("trailing tokens")
        return (tk[1], a, b)
    raise ValueError("not a row")


def _vars_of(e, acc):
    if e[0] == "var":
        acc.add(e[1])
    elif e[0] == "sum":
        for x in e[1]:
            _vars_of(x, acc)
    elif e[0] != "num":
        for x in e[1:]:
            _vars_of(x, acc)
    return acc


def rows_same_meaning(a: str, b: str, rng) -> bool:
    """do two printed rows denote the same constraint / objective term?  (used only when they are not the same tree: an
    algebraically equivalent way of writing a row must not count as a difference.)  Objective terms: equal values at 4
    random points.  Relations: same comparison and `lhs - rhs` of one a positive constant multiple of the other's (any
    non-zero multiple for `==`) at those points."""
    try:
        ta, tb = row_tree(a), row_tree(b)
    except (ValueError, IndexError):
        return False
    if ta[0] != tb[0]:
        return False
    names = set()
    for t in (ta, tb):
        for e in t[1:]:
            _vars_of(e, names)
    pts = []
    for _ in range(4):
        val = {n: rng.uniform(0.05, 4.0) for n in sorted(names)}
        try:
            if ta[0] == "O":
                fa, fb = evaluate(ta[1], val), evaluate(tb[1], val)
            else:
                fa = evaluate(ta[1], val) - evaluate(ta[2], val)
                fb = evaluate(tb[1], val) - evaluate(tb[2], val)
        except (ZeroDivisionError, OverflowError, KeyError):
            return False
        pts.append((fa, fb))
    close = lambda x, y: abs(x - y) <= 1e-9 * max(1.0, abs(x), abs(y))
    if ta[0] == "O":
        return all(close(fa, fb) for fa, fb in pts)
    big = max(pts, key=lambda p: abs(p[1]))
    if abs(big[1]) < 1e-12:
        return all(abs(fa) < 1e-9 for fa, _fb in pts)
    lam = big[0] / big[1]
    if not (1e-9 < abs(lam) < 1e9) or (lam < 0 and ta[0] != "EQ"):
        return False
    return all(close(fa, lam * fb) for fa, fb in pts)


def self_test() -> None:
    """the semantic comparison must not swallow a real difference (wrong coefficient, wrong weight, wrong comparison) and must
    accept plain algebraic rewrites; raises (harness infrastructure error) otherwise."""
    import random
    h, r = f2hex, random.Random(7)
    same = [(f"E EQ V {h(3.0)} 2 v x:A v x:B ; v ex:0", f"E EQ S 2 v x:A v x:B ; G * n {h(3.0)} v ex:0"),
            (f"O K {h(0.7)} 2 v d:A v d:B", f"O G * S 2 v d:A v d:B n {h(0.7)}"),
            (f"E LE S 2 v a:A:0 v a:B:0 ; n {h(1.0)}", f"E LE G - S 2 v a:A:0 v a:B:0 n {h(1.0)} ; n {h(0.0)}"),
            (f"O G / * n {h(0.6)} + ^2 - v x:A v x:B ^2 - v y:A v y:B n {h(2.0)}",
             f"O G * n {h(0.3)} + ^2 - v x:B v x:A ^2 - v y:A v y:B")]
    differ = [(f"E EQ V {h(3.0)} 2 v x:A v x:B ; v ex:0", f"E EQ V {h(2.0)} 2 v x:A v x:B ; v ex:0"),
              (f"E EQ V {h(3.0)} 2 v x:A v x:B ; v ex:0", f"E EQ V {h(3.0)} 2 v x:A v y:B ; v ex:0"),
              (f"O K {h(0.7)} 2 v d:A v d:B", f"O K {h(0.3)} 2 v d:A v d:B"),
              (f"O K {h(0.7)} 2 v d:A v d:B", f"O K {h(0.7)} 1 v d:A"),
              (f"E LE S 2 v a:A:0 v a:B:0 ; n {h(1.0)}", f"E GE S 2 v a:A:0 v a:B:0 ; n {h(1.0)}"),
              (f"E LE S 2 v a:A:0 v a:B:0 ; n {h(1.0)}", f"E LE S 2 v a:A:0 v a:B:0 ; n {h(1.5)}"),
              (f"O G / * n {h(0.6)} + ^2 - v x:A v x:B ^2 - v y:A v y:B n {h(2.0)}",
               f"O G * n {h(0.6)} + ^2 - v x:A v x:B ^2 - v y:A v y:B")]
    for a, b in same:
        if not rows_same_meaning(a, b, r):
            raise RuntimeError("glb_post.self_test: equivalent rows reported different: " + a + " / " + b)
    for a, b in differ:
        if rows_same_meaning(a, b, r):
            raise RuntimeError("glb_post.self_test: different rows reported equivalent: " + a + " / " + b)

#!/venv/bin/python
"""
Source-level tie helpers (DESIGN §3 "change-directed escalation", §11.10).

1. FINGERPRINTS.  For every file a property is anchored in (properties.jsonl → anchors.files) the normalised AST of
   every function / method is hashed (docstrings, comments, line numbers and formatting do not matter).  The hashes of
   the tree the models were written against are committed in `harness/anchors_baseline.json`.  At check time the
   current working tree of the repository is fingerprinted again; functions whose hash differs, that are new or that
   disappeared are listed in the evidence and the case budget of the check is multiplied (the search effort goes where
   the code moved).  A changed fingerprint is NEVER a failure by itself.

2. ANCHORED-LINE COVERAGE.  `LineCoverage` records (with `sys.monitoring`, every location disabled after its first hit,
   so the overhead is negligible) which executable lines inside the line ranges named by the property's anchors
   (`mechanism[].where`, `state[].where`) the harness actually executed IN THIS PROCESS.  The evidence reports
   executed / executable lines per range and the lines never reached.  Code run in forked children or subprocesses
   is not seen (noted in the evidence).

  harness/anchors.py --write     regenerate the committed baseline from FRAME_REPO (after a `fix:` commit)
  harness/anchors.py [Cxx]       print what changed w.r.t. the baseline
"""
from __future__ import annotations

import ast
import hashlib
import json
import os
import re
import sys

VERIF = os.path.dirname(os.path.dirname(os.path.abspath(__file__)))
BASELINE = os.path.join(VERIF, "harness", "anchors_baseline.json")


def properties() -> dict:
    out = {}
    for line in open(os.path.join(VERIF, "properties.jsonl")):
        line = line.strip()
        if line:
            p = json.loads(line)
            out[p["id"]] = p
    return out


def anchor_files(pid: str) -> list[str]:
    return list(properties()[pid]["anchors"]["files"])


def anchor_ranges(pid: str) -> dict[str, list[tuple[int, int]]]:
    """file -> list of (first, last) line ranges named by the property's anchors."""
    a = properties()[pid]["anchors"]
    out: dict[str, list[tuple[int, int]]] = {}
    for m in list(a.get("mechanism", [])) + list(a.get("state", [])):
        for part in str(m.get("where", "")).split(";"):
            part = part.strip()
            mm = re.match(r"([^:]+):(.*)$", part)
            if not mm:
                continue
            f = mm.group(1).strip()
            for rg in mm.group(2).split(","):
                rg = rg.strip()
                m2 = re.match(r"(\d+)(?:-(\d+))?$", rg)
                if m2:
                    lo = int(m2.group(1))
                    hi = int(m2.group(2) or lo)
                    out.setdefault(f, []).append((lo, hi))
    return out


class _Strip(ast.NodeTransformer):
    """drop docstrings so that a comment/doc edit does not change the fingerprint."""

    def _strip(self, node):
        self.generic_visit(node)
        body = getattr(node, "body", None)
        if body and isinstance(body[0], ast.Expr) and isinstance(getattr(body[0], "value", None), ast.Constant) \
                and isinstance(body[0].value.value, str):
            node.body = body[1:] or [ast.Pass()]
        return node

    visit_FunctionDef = _strip
    visit_AsyncFunctionDef = _strip
    visit_ClassDef = _strip
    visit_Module = _strip


def fingerprint_file(path: str) -> dict[str, str]:
    """qualified name -> sha256 of the normalised AST, for every function/method plus '<module>' for the top-level
    statements that are not function or class definitions (module-level state, constants, imports)."""
    try:
        src = open(path, encoding="utf-8").read()
        tree = _Strip().visit(ast.parse(src))
    except Exception as ex:  # unparsable file: one pseudo entry, differs from every baseline
        return {"<unparsable>": hashlib.sha256(repr(ex).encode()).hexdigest()[:16]}
    out: dict[str, str] = {}

    def h(node) -> str:
        return hashlib.sha256(ast.dump(node, annotate_fields=True, include_attributes=False).encode()).hexdigest()[:16]

    def walk(body, prefix):
        rest = []
        for n in body:
            if isinstance(n, (ast.FunctionDef, ast.AsyncFunctionDef)):
                name = prefix + n.name
                k = name
                i = 2
                while k in out:     # property getter/setter pairs share a name
                    k = f"{name}#{i}"
                    i += 1
                out[k] = h(n)
            elif isinstance(n, ast.ClassDef):
                walk(n.body, prefix + n.name + ".")
                hdr = ast.ClassDef(name=n.name, bases=n.bases, keywords=n.keywords, body=[], decorator_list=n.decorator_list)
                out[prefix + n.name + ".<class>"] = h(hdr)
            else:
                rest.append(n)
        mod = ast.Module(body=rest, type_ignores=[])
        out[prefix + ("<module>" if not prefix else "<class-body>")] = h(mod)

    walk(tree.body, "")
    return out


def fingerprint(repo: str, files: list[str]) -> dict[str, dict[str, str]]:
    return {f: fingerprint_file(os.path.join(repo, f)) if os.path.exists(os.path.join(repo, f)) else {"<missing>": "-"}
            for f in files}


def all_files() -> list[str]:
    s = set()
    for p in properties().values():
        s.update(p["anchors"]["files"])
    return sorted(s)


def load_baseline() -> dict:
    try:
        return json.load(open(BASELINE))
    except Exception:
        return {}


def changed(pid: str, repo: str) -> list[str] | None:
    """list of 'file::qualname (changed|new|removed)' for the property's anchor files; None if there is no baseline."""
    base = load_baseline().get("files")
    if not base:
        return None
    out = []
    cur = fingerprint(repo, anchor_files(pid))
    for f, fp in cur.items():
        b = base.get(f)
        if b is None:
            out.append(f"{f}::<file> (no baseline)")
            continue
        for k, v in fp.items():
            if k not in b:
                out.append(f"{f}::{k} (new)")
            elif b[k] != v:
                out.append(f"{f}::{k} (changed)")
        for k in b:
            if k not in fp:
                out.append(f"{f}::{k} (removed)")
    return out


# ----------------------------------------------------------------------------- anchored-line coverage
class LineCoverage:
    def __init__(self, pid: str, repo: str):
        self.pid, self.repo = pid, os.path.realpath(repo)
        self.ranges = anchor_ranges(pid)
        self.files = {os.path.realpath(os.path.join(repo, f)): f for f in self.ranges}
        self.hits: set[tuple[str, int]] = set()
        self.active = False
        self._tool = None

    def start(self) -> None:
        mon = getattr(sys, "monitoring", None)
        if mon is None:
            return
        try:
            tool = mon.COVERAGE_ID
            mon.use_tool_id(tool, "frame-verif-anchors")
        except Exception:
            return
        files, hits = self.files, self.hits

        def on_line(code, line):
            fn = files.get(code.co_filename)
            if fn is None:
                rp = os.path.realpath(code.co_filename)
                fn = files.get(rp)
                if fn is not None:
                    files[code.co_filename] = fn
            if fn is not None:
                hits.add((fn, line))
            return mon.DISABLE

        mon.register_callback(tool, mon.events.LINE, on_line)
        mon.set_events(tool, mon.events.LINE)
        self._tool = tool
        self.active = True

    def stop(self) -> None:
        if not self.active:
            return
        mon = sys.monitoring
        try:
            mon.set_events(self._tool, 0)
            mon.register_callback(self._tool, mon.events.LINE, None)
            mon.free_tool_id(self._tool)
        except Exception:
            pass
        self.active = False

    @staticmethod
    def _executable_lines(path: str) -> set[int]:
        try:
            code = compile(open(path, encoding="utf-8").read(), path, "exec")
        except Exception:
            return set()
        lines: set[int] = set()
        todo = [code]
        while todo:
            c = todo.pop()
            first = c.co_firstlineno
            for _, _, ln in c.co_lines():
                if ln is not None and ln != first or (ln is not None and c.co_name == "<module>"):
                    lines.add(ln)
            for k in c.co_consts:
                if hasattr(k, "co_lines"):
                    todo.append(k)
        # docstring-only / def lines are not interesting: keep lines that carry a real statement
        try:
            tree = ast.parse(open(path, encoding="utf-8").read())
            stmt_lines = set()
            for n in ast.walk(tree):
                if isinstance(n, ast.stmt) and not isinstance(n, (ast.FunctionDef, ast.AsyncFunctionDef, ast.ClassDef)):
                    if isinstance(n, ast.Expr) and isinstance(getattr(n, "value", None), ast.Constant) and isinstance(n.value.value, str):
                        continue
                    stmt_lines.add(n.lineno)
            lines &= stmt_lines
        except Exception:
            pass
        return lines

    def report(self) -> dict:
        """per anchored range: executable statement lines, how many this process executed, which were never reached."""
        if not self.ranges:
            return {"measured": False, "why": "no line ranges in the property's anchors"}
        if not self.active and not self.hits:
            return {"measured": False, "why": "sys.monitoring unavailable or no anchored line executed in this process"}
        out = {"measured": True, "ranges": [], "note": "lines executed in THIS process only (forked children / subprocesses "
               "of the harness are not seen); line numbers refer to the current working tree"}
        tot = hit = 0
        for f, rgs in self.ranges.items():
            ex = self._executable_lines(os.path.join(self.repo, f))
            for lo, hi in rgs:
                lines = sorted(l for l in ex if lo <= l <= hi)
                got = [l for l in lines if (f, l) in self.hits]
                missed = [l for l in lines if (f, l) not in self.hits]
                tot += len(lines)
                hit += len(got)
                out["ranges"].append({"where": f"{f}:{lo}-{hi}", "statement_lines": len(lines), "executed": len(got),
                                      "never_reached": missed[:40]})
        out["statement_lines"] = tot
        out["executed"] = hit
        return out


def main(argv):
    repo = os.environ.get("FRAME_REPO", "/repo")
    if "--write" in argv:
        import subprocess
        try:
            head = subprocess.run(["git", "-C", repo, "rev-parse", "HEAD"], capture_output=True, text=True).stdout.strip()
        except Exception:
            head = ""
        data = {"repo_head": head, "files": fingerprint(repo, all_files())}
        with open(BASELINE, "w") as f:
            json.dump(data, f, indent=1, sort_keys=True)
        print("baseline written for", len(data["files"]), "files at", head[:10])
        return 0
    pids = [a for a in argv if a.startswith("C")] or sorted(properties())
    for p in pids:
        print(p, changed(p, repo))
    return 0


if __name__ == "__main__":
    sys.exit(main(sys.argv[1:]))

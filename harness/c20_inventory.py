"""C20 — static inventory of process-wide mutable state in the source of the library.

The property (C20) is about state that survives between operations.  The Lean model threads the pieces the property
names (Rectangle tolerances, the ROBDD store `memory`/`mmap`, the legaliser registers, the two mutable default
arguments).  This module ties the claim "there is no OTHER such state" to the source text: it walks the `ast` of every
module reachable (through imports that resolve inside the repository) from the property's anchored files and from the
modules the C20 harness executes, and lists every construct that creates state outliving a call:

  module-state     module-level binding of a mutable object: an empty container / container call / comprehension, a
                   non-empty container literal that the module mutates in place somewhere, an instance of a class that
                   is not known to be immutable (`X = SomeClass(...)`), or any module-level name that a function
                   rebinds through a `global` statement
  class-state      a class-body binding (outside every method) of a mutable object, as above
  attr-write       an assignment / augmented assignment / `del` / `setattr` whose target is an attribute of a class or
                   module object (`Rectangle._eps = …`, `cls._eps = …`, `type(self).n += 1`, `func.memo = {}`)
  mutable-default  a default argument value that is a container or an instance of a not-known-immutable class
  cache            a function decorated with a memoising decorator (`functools.lru_cache`, `functools.cache`, anything
                   whose name contains `cache`/`memo`, except the per-instance `cached_property`)
  container-write  a statement inside a function that writes into a module-state container (`mmap[k] = v`, `memory.append(x)`);
                   identified by container, function and ordinal — a NEW write site means a new kind of record in known state
  global-effect    a call that changes interpreter-wide settings (`random.seed`, `sys.setrecursionlimit`, `os.environ`…)

NOT state (so that harmless edits stay silent): numbers, strings, bytes, `None`, tuples / frozensets / arithmetic of
those, typing aliases (`dict[str, float]`, `Union[...]`, `TypeVar`), enum classes and their members, `NamedTuple` /
dataclass FIELD declarations, loggers, compiled regular expressions, lambdas, references to other names, `__all__`
and other dunder names, non-empty container literals that are never mutated in place (lookup tables).

Entries are identified by (file, category, name) — never by line number; the line is only reported.  Compared with the
committed expected list `harness/c20_state_expected.json`: an entry that is not expected and cannot be explained as a
rename of an expected entry of the same file and category that disappeared is NEW state.
"""
from __future__ import annotations

import ast
import json
import os

EXPECTED_PATH = os.path.join(os.path.dirname(os.path.abspath(__file__)), "c20_state_expected.json")

# files named by the property's anchors (state / mechanism) …
ANCHOR_FILES = [
    "frame/geometry/geometry.py", "frame/netlist/netlist.py", "frame/die/die.py", "frame/allocation/allocation.py",
    "tools/rect/pseudobool.py", "tools/legalfloor/expression_tree.py", "tools/floorset_parser/floor_set_manager/strop.py",
    "tools/rect/satmanager.py",
]
# … and the entry modules of the operations the harness executes as history / probe
OPERATION_FILES = [
    "tools/rect/rect.py", "tools/legalfloor/model.py", "tools/legalfloor/legalfloor.py", "tools/netgen/netgen.py",
    "tools/spectral/spectral.py", "tools/force/force.py", "tools/glbfloor/glbfloor.py",
    "tools/floorset_parser/floor_set_manager/manager.py",
]

IMMUTABLE_CALLS = {
    "int", "float", "str", "bool", "bytes", "complex", "tuple", "frozenset", "range", "slice", "Fraction", "Decimal",
    "TypeVar", "NewType", "ParamSpec", "TypeVarTuple", "TypeAlias", "NamedTuple", "namedtuple", "Enum", "IntEnum", "Flag",
    "getLogger", "compile", "Path", "PurePath", "object", "len", "min", "max", "abs", "sum", "round", "sqrt", "pow",
    "ord", "chr", "repr", "format", "hash", "type", "isinstance", "property", "staticmethod", "classmethod",
    "itemgetter", "attrgetter", "methodcaller", "partial", "timedelta", "date", "datetime", "cast", "field",
}
CONTAINER_CALLS = {
    "list", "dict", "set", "bytearray", "defaultdict", "OrderedDict", "Counter", "deque", "ChainMap", "array",
    "WeakValueDictionary", "WeakKeyDictionary", "WeakSet", "zeros", "ones", "empty", "full", "ndarray", "SimpleNamespace",
}
MUTATORS = {
    "append", "extend", "insert", "remove", "pop", "clear", "sort", "reverse", "add", "discard", "update", "setdefault",
    "popitem", "appendleft", "extendleft", "popleft", "rotate", "intersection_update", "difference_update",
    "symmetric_difference_update", "subtract", "move_to_end", "fill", "put", "itemset", "resize",
}
ENUM_BASES = {"Enum", "IntEnum", "StrEnum", "Flag", "IntFlag", "ReprEnum"}
DECL_BASES = {"NamedTuple", "TypedDict", "Protocol"}
GLOBAL_EFFECT = {
    "random.seed", "np.random.seed", "numpy.random.seed", "sys.setrecursionlimit", "sys.setswitchinterval",
    "os.chdir", "os.putenv", "os.unsetenv", "os.umask", "locale.setlocale", "np.seterr", "numpy.seterr",
    "np.set_printoptions", "numpy.set_printoptions", "warnings.filterwarnings", "warnings.simplefilter",
    "warnings.resetwarnings", "signal.signal", "atexit.register", "sys.path.append", "sys.path.insert",
    "sys.path.extend", "sys.path.remove", "gc.disable", "gc.enable", "gc.set_threshold", "setcontext", "decimal.setcontext",
    "sys.setprofile", "sys.settrace", "torch.manual_seed", "faulthandler.enable",
}
GLOBAL_EFFECT_SUBSCRIPT = {"os.environ", "sys.modules"}


def dotted(node) -> str | None:
    if isinstance(node, ast.Name):
        return node.id
    if isinstance(node, ast.Attribute):
        b = dotted(node.value)
        return None if b is None else b + "." + node.attr
    return None


def last_name(node) -> str | None:
    d = dotted(node)
    return None if d is None else d.split(".")[-1]


class Scan(ast.NodeVisitor):
    """one module."""

    def __init__(self, rel: str, tree: ast.Module):
        self.rel = rel
        self.tree = tree
        self.entries: list[dict] = []
        self.module_names: set[str] = set()      # names bound at module level (imports, defs, classes, assignments)
        self.immutable_classes: set[str] = set()  # classes of this module whose instances cannot change
        self.candidates: dict[str, tuple[int, str]] = {}   # module-level name -> (line, value kind)
        self.mutated: dict[str, int] = {}         # module-level name -> line of an in-place mutation / global rebinding
        self.writes: list[tuple[str, str, int]] = []   # (module-level container, function that writes into it, line)
        self._collect_module_level()
        self._walk_body(tree.body, scope=None, cls=None, shadow=frozenset())
        self._finish()

    # -------------------------------------------------------------- helpers
    def add(self, cat: str, name: str, line: int, kind: str) -> None:
        for e in self.entries:
            if e["cat"] == cat and e["name"] == name:
                return
        self.entries.append({"file": self.rel, "cat": cat, "name": name, "line": line, "kind": kind})

    def classify(self, v) -> str:
        """'imm' | 'ref' | 'empty' (empty / computed container) | 'table' (non-empty literal) | 'instance'"""
        if v is None:
            return "imm"
        if isinstance(v, (ast.Constant, ast.Lambda, ast.JoinedStr, ast.FormattedValue)):
            return "imm"
        if isinstance(v, (ast.Name, ast.Attribute, ast.Subscript)):
            return "ref"
        if isinstance(v, ast.Tuple):
            ks = [self.classify(e) for e in v.elts]
            for bad in ("empty", "table", "instance"):
                if bad in ks:
                    return bad
            return "imm"
        if isinstance(v, (ast.UnaryOp,)):
            return self.classify(v.operand)
        if isinstance(v, ast.BinOp):
            ks = {self.classify(v.left), self.classify(v.right)}
            for bad in ("empty", "table", "instance"):
                if bad in ks:
                    return "empty" if bad != "instance" else "instance"
            return "imm"
        if isinstance(v, (ast.Compare, ast.BoolOp)):
            return "imm"
        if isinstance(v, ast.IfExp):
            ks = {self.classify(v.body), self.classify(v.orelse)}
            for bad in ("empty", "table", "instance"):
                if bad in ks:
                    return bad
            return "imm"
        if isinstance(v, (ast.List, ast.Set)):
            return "table" if v.elts else "empty"
        if isinstance(v, ast.Dict):
            return "table" if v.keys else "empty"
        if isinstance(v, (ast.ListComp, ast.SetComp, ast.DictComp)):
            return "table"
        if isinstance(v, ast.GeneratorExp):
            return "instance"
        if isinstance(v, ast.Call):
            fn = last_name(v.func)
            if fn is None:
                return "instance"
            if fn in IMMUTABLE_CALLS or fn in self.immutable_classes or fn in ENUM_BASES:
                return "imm"
            if fn in CONTAINER_CALLS:
                return "table" if (v.args or v.keywords) else "empty"
            return "instance"
        if isinstance(v, (ast.Starred,)):
            return self.classify(v.value)
        return "instance"

    # -------------------------------------------------------------- pass 1: module-level bindings
    def _is_frozen_dataclass(self, node: ast.ClassDef) -> bool:
        for d in node.decorator_list:
            if isinstance(d, ast.Call) and last_name(d.func) == "dataclass":
                for k in d.keywords:
                    if k.arg == "frozen" and isinstance(k.value, ast.Constant) and k.value.value is True:
                        return True
        return False

    def _collect_module_level(self) -> None:
        for st in self.tree.body:
            if isinstance(st, (ast.Import, ast.ImportFrom)):
                for a in st.names:
                    self.module_names.add((a.asname or a.name).split(".")[0])
            elif isinstance(st, (ast.FunctionDef, ast.AsyncFunctionDef)):
                self.module_names.add(st.name)
            elif isinstance(st, ast.ClassDef):
                self.module_names.add(st.name)
                bases = {last_name(b) for b in st.bases}
                if bases & (ENUM_BASES | {"NamedTuple"}) or self._is_frozen_dataclass(st):
                    self.immutable_classes.add(st.name)
        # assignments anywhere at module level, including inside module-level if / try / with / for blocks
        for st in self._module_statements(self.tree.body):
            targets, value = [], None
            if isinstance(st, ast.Assign):
                targets, value = st.targets, st.value
            elif isinstance(st, ast.AnnAssign):
                targets, value = [st.target], st.value
                if value is None and isinstance(st.target, ast.Name):
                    self.module_names.add(st.target.id)
                    self.candidates.setdefault(st.target.id, (st.lineno, "unbound"))
                    continue
            elif isinstance(st, ast.AugAssign):
                targets, value = [st.target], st.value
            for t in targets:
                for nm in self._target_names(t):
                    self.module_names.add(nm)
                    if nm.startswith("__") and nm.endswith("__"):
                        continue
                    self.candidates[nm] = (st.lineno, self.classify(value))

    def _module_statements(self, body):
        for st in body:
            yield st
            if isinstance(st, (ast.If, ast.For, ast.While, ast.With, ast.Try)):
                for fld in ("body", "orelse", "finalbody"):
                    yield from self._module_statements(getattr(st, fld, []) or [])
                for h in getattr(st, "handlers", []) or []:
                    yield from self._module_statements(h.body)

    def _target_names(self, t):
        if isinstance(t, ast.Name):
            yield t.id
        elif isinstance(t, (ast.Tuple, ast.List)):
            for e in t.elts:
                yield from self._target_names(e)
        elif isinstance(t, ast.Starred):
            yield from self._target_names(t.value)

    # -------------------------------------------------------------- pass 2: everything else
    def _function_locals(self, fn) -> tuple[set[str], set[str]]:
        """(names local to the function, names it declares global)"""
        args = fn.args
        loc = {a.arg for a in args.posonlyargs + args.args + args.kwonlyargs}
        if args.vararg:
            loc.add(args.vararg.arg)
        if args.kwarg:
            loc.add(args.kwarg.arg)
        glob: set[str] = set()
        if isinstance(fn, ast.Lambda):
            return loc, glob

        def walk(nodes):
            for n in nodes:
                if isinstance(n, (ast.FunctionDef, ast.AsyncFunctionDef, ast.ClassDef)):
                    loc.add(n.name)
                    continue
                if isinstance(n, ast.Lambda):
                    continue
                if isinstance(n, ast.Global):
                    glob.update(n.names)
                if isinstance(n, ast.Name) and isinstance(n.ctx, ast.Store):
                    loc.add(n.id)
                if isinstance(n, (ast.Import, ast.ImportFrom)):
                    for a in n.names:
                        loc.add((a.asname or a.name).split(".")[0])
                if isinstance(n, ast.ExceptHandler) and n.name:
                    loc.add(n.name)
                walk(ast.iter_child_nodes(n))
        walk(fn.body)
        return loc - glob, glob

    def _defaults(self, fn, qual: str) -> None:
        args = fn.args
        pos = args.posonlyargs + args.args
        pairs = list(zip(pos[len(pos) - len(args.defaults):], args.defaults))
        pairs += [(a, d) for a, d in zip(args.kwonlyargs, args.kw_defaults) if d is not None]
        for a, d in pairs:
            k = self.classify(d)
            if k in ("empty", "table", "instance"):
                self.add("mutable-default", f"{qual}({a.arg}=)", d.lineno, k + ":" + ast.unparse(d)[:40])

    def _walk_body(self, body, scope: str | None, cls: str | None, shadow: frozenset) -> None:
        for st in body:
            self._walk_stmt(st, scope, cls, shadow)

    def _walk_stmt(self, st, scope, cls, shadow) -> None:
        if isinstance(st, (ast.FunctionDef, ast.AsyncFunctionDef)):
            qual = (scope + "." if scope else "") + st.name
            self._defaults(st, qual)
            for d in st.decorator_list:
                nm = (last_name(d.func) if isinstance(d, ast.Call) else last_name(d)) or ""
                low = nm.lower()
                if low != "cached_property" and ("cache" in low or "memo" in low):
                    self.add("cache", qual, st.lineno, "decorator:" + nm)
                self._walk_expr(d, scope, cls, shadow)
            loc, glob = self._function_locals(st)
            for g in glob:
                self.mutated.setdefault(g, st.lineno)
                self.candidates.setdefault(g, (st.lineno, "unbound"))
            self._walk_body(st.body, qual, cls, frozenset((shadow | loc) - glob))
            return
        if isinstance(st, ast.ClassDef):
            qual = (scope + "." if scope else "") + st.name
            self._class_body(st, qual)
            for n in st.body:
                if isinstance(n, (ast.FunctionDef, ast.AsyncFunctionDef, ast.ClassDef)):
                    self._walk_stmt(n, qual, st.name, shadow)
                else:
                    self._walk_expr(n, qual, st.name, shadow)
            return
        self._walk_expr(st, scope, cls, shadow)

    def _class_body(self, node: ast.ClassDef, qual: str) -> None:
        bases = {last_name(b) for b in node.bases}
        if bases & (ENUM_BASES | DECL_BASES):
            return
        is_dc = any((last_name(d.func) if isinstance(d, ast.Call) else last_name(d)) == "dataclass" for d in node.decorator_list)
        for st in node.body:
            if isinstance(st, ast.Assign):
                targets, value, ann = st.targets, st.value, None
            elif isinstance(st, ast.AnnAssign) and st.value is not None:
                targets, value, ann = [st.target], st.value, st.annotation
            else:
                continue
            k = self.classify(value)
            if is_dc and ann is not None and "ClassVar" not in ast.unparse(ann) and k in ("imm", "ref"):
                continue
            for t in targets:
                for nm in self._target_names(t):
                    if nm.startswith("__") and nm.endswith("__"):
                        continue
                    if k in ("empty", "instance") or (k == "table"):
                        self.add("class-state", f"{qual}.{nm}", st.lineno, k + ":" + ast.unparse(value)[:40])

    def _base_object(self, node, cls, shadow) -> str | None:
        """the class / module object an attribute store goes to, or None for instance / local objects."""
        if isinstance(node, ast.Name):
            if node.id == "cls" and cls:
                return cls
            if node.id in ("self",) or node.id in shadow:
                return None
            if node.id in self.module_names:
                # a module-level VARIABLE holding an instance is an object too: writing its attribute is state
                return node.id
            return None
        if isinstance(node, ast.Call) and last_name(node.func) == "type" and len(node.args) == 1 and cls:
            return cls
        if isinstance(node, ast.Attribute):
            if node.attr == "__class__" and cls:
                return cls
            b = self._base_object(node.value, cls, shadow)
            return None if b is None else b + "." + node.attr
        return None

    def _store(self, target, line, scope, cls, shadow) -> None:
        if isinstance(target, (ast.Tuple, ast.List)):
            for e in target.elts:
                self._store(e, line, scope, cls, shadow)
            return
        if isinstance(target, ast.Starred):
            return self._store(target.value, line, scope, cls, shadow)
        if isinstance(target, ast.Attribute):
            b = self._base_object(target.value, cls, shadow)
            if b is not None and scope is not None or (b is not None and not isinstance(target.value, ast.Name)):
                self.add("attr-write", f"{b}.{target.attr}", line, "store")
            elif b is not None:
                # module level `X.attr = …`
                self.add("attr-write", f"{b}.{target.attr}", line, "store")
            return
        if isinstance(target, ast.Subscript):
            d = dotted(target.value)
            if d in GLOBAL_EFFECT_SUBSCRIPT:
                self.add("global-effect", d + "[…]", line, "store")
            tv = target.value
            # `globals()[name] = …`, `vars(mod)[name] = …`, `Cls.__dict__[name] = …`: a module / class namespace written by key
            if isinstance(tv, ast.Call) and last_name(tv.func) in ("globals", "vars"):
                self.add("attr-write", (scope or "<module>") + ":" + ast.unparse(tv)[:30] + "[…]", line, "namespace-store")
            if isinstance(tv, ast.Attribute) and tv.attr == "__dict__" and self._base_object(tv.value, cls, shadow) is not None:
                self.add("attr-write", ast.unparse(tv)[:40] + "[…]", line, "namespace-store")
            root = target.value
            while isinstance(root, (ast.Subscript, ast.Attribute)):
                root = root.value
            if isinstance(root, ast.Name) and root.id not in shadow and root.id in self.candidates and scope is not None:
                self.mutated.setdefault(root.id, line)
                self.writes.append((root.id, scope, line))
            elif isinstance(root, ast.Name) and root.id not in shadow and scope is None and root.id in self.candidates:
                pass    # module-level initialisation code filling a table is part of its definition

    def _walk_expr(self, node, scope, cls, shadow) -> None:
        """statements other than def/class and all expressions below them."""
        if isinstance(node, (ast.FunctionDef, ast.AsyncFunctionDef, ast.ClassDef)):
            return self._walk_stmt(node, scope, cls, shadow)
        if isinstance(node, ast.Lambda):
            self._defaults(node, (scope + "." if scope else "") + "<lambda>")
            loc, _ = self._function_locals(node)
            return self._walk_expr(node.body, scope, cls, frozenset(shadow | loc))
        if isinstance(node, ast.Assign):
            for t in node.targets:
                self._store(t, node.lineno, scope, cls, shadow)
        elif isinstance(node, (ast.AugAssign, ast.AnnAssign)):
            if not (isinstance(node, ast.AnnAssign) and node.value is None):
                self._store(node.target, node.lineno, scope, cls, shadow)
            if isinstance(node, ast.AugAssign) and isinstance(node.target, ast.Name):
                pass  # rebinding a module name inside a function needs `global` (handled there)
        elif isinstance(node, ast.Delete):
            for t in node.targets:
                self._store(t, node.lineno, scope, cls, shadow)
        elif isinstance(node, ast.Call):
            d = dotted(node.func)
            if d in GLOBAL_EFFECT or (d and d.split(".")[-1] in ("setrecursionlimit",)):
                self.add("global-effect", d, node.lineno, "call")
            if isinstance(node.func, ast.Attribute) and node.func.attr in ("update", "setdefault", "__setitem__", "pop") and \
                    isinstance(node.func.value, ast.Call) and last_name(node.func.value.func) in ("globals", "vars"):
                self.add("attr-write", (scope or "<module>") + ":" + ast.unparse(node.func.value)[:30] + "." + node.func.attr, node.lineno,
                         "namespace-store")
            if d == "setattr" and node.args:
                b = self._base_object(node.args[0], cls, shadow)
                if b is not None:
                    self.add("attr-write", f"{b}.<setattr>", node.lineno, "setattr")
            if isinstance(node.func, ast.Attribute) and node.func.attr in MUTATORS and scope is not None:
                root = node.func.value
                while isinstance(root, (ast.Subscript, ast.Attribute)):
                    root = root.value
                if isinstance(root, ast.Name) and root.id not in shadow and root.id in self.candidates:
                    self.mutated.setdefault(root.id, node.lineno)
                    self.writes.append((root.id, scope, node.lineno))
                # class-level containers mutated through the class object: `Cls.memo.append(...)`, `cls.memo[...]`
        for ch in ast.iter_child_nodes(node):
            if isinstance(ch, (ast.expr_context, ast.operator, ast.boolop, ast.cmpop, ast.unaryop)):
                continue
            self._walk_expr(ch, scope, cls, shadow)

    # -------------------------------------------------------------- classification of module-level names
    def _finish(self) -> None:
        for nm, (line, kind) in sorted(self.candidates.items()):
            if nm in self.mutated and self._is_global_rebound(nm):
                self.add("module-state", nm, line, f"rebound-by-global(line {self.mutated[nm]}):{kind}")
            elif kind == "empty":
                self.add("module-state", nm, line, "empty-container")
            elif kind == "table" and nm in self.mutated:
                self.add("module-state", nm, line, f"container-mutated(line {self.mutated[nm]})")
            elif kind == "instance":
                self.add("module-state", nm, line, "instance")

        # every statement that writes INTO an inventoried module-level container is an entry of its own (`container-write`,
        # named by container, writing function and ordinal): a second kind of record kept in an already known container —
        # a memo stored inside `mmap` — shows as a new write site even though no new object appears
        state = {e["name"] for e in self.entries if e["cat"] == "module-state"}
        seen: dict = {}
        for nm, scope, line in sorted(self.writes, key=lambda w: w[2]):
            if nm in state:
                k = seen[(nm, scope)] = seen.get((nm, scope), 0) + 1
                self.add("container-write", f"{nm}<-{scope}#{k}", line, "write-site")

    def _is_global_rebound(self, nm: str) -> bool:
        for n in ast.walk(self.tree):
            if isinstance(n, ast.Global) and nm in n.names:
                return True
        return False


# ---------------------------------------------------------------------------------------------------- import closure
def resolve_imports(repo: str, rel: str, tree: ast.Module) -> list[str]:
    out = []
    pkg = os.path.dirname(rel).replace(os.sep, "/")

    def try_mod(dotted_name: str):
        p = dotted_name.replace(".", "/")
        for cand in (p + ".py", p + "/__init__.py"):
            if os.path.isfile(os.path.join(repo, cand)):
                out.append(cand)
                return True
        return False

    for n in ast.walk(tree):
        if isinstance(n, ast.Import):
            for a in n.names:
                parts = a.name.split(".")
                for i in range(len(parts), 0, -1):
                    if try_mod(".".join(parts[:i])):
                        break
        elif isinstance(n, ast.ImportFrom):
            base = n.module or ""
            if n.level:
                up = pkg.split("/") if pkg else []
                up = up[: len(up) - (n.level - 1)] if n.level > 1 else up
                base = ".".join([p for p in up if p] + ([base] if base else []))
            if base:
                try_mod(base)
            for a in n.names:
                if a.name != "*":
                    try_mod((base + "." if base else "") + a.name)
    return out


def scanned_files(repo: str) -> list[str]:
    todo = [f for f in ANCHOR_FILES + OPERATION_FILES if os.path.isfile(os.path.join(repo, f))]
    seen: list[str] = []
    while todo:
        rel = todo.pop(0)
        if rel in seen:
            continue
        seen.append(rel)
        try:
            tree = ast.parse(open(os.path.join(repo, rel), encoding="utf-8").read())
        except (SyntaxError, OSError):
            continue
        for r in resolve_imports(repo, rel, tree):
            if r not in seen:
                todo.append(r)
    return sorted(seen)


def inventory(repo: str) -> tuple[list[dict], list[str], list[str]]:
    """(entries, files scanned, files that could not be parsed)"""
    entries, bad = [], []
    files = scanned_files(repo)
    for rel in files:
        try:
            tree = ast.parse(open(os.path.join(repo, rel), encoding="utf-8").read())
        except (SyntaxError, OSError):
            bad.append(rel)
            continue
        entries += Scan(rel, tree).entries
    entries.sort(key=lambda e: (e["file"], e["cat"], e["name"]))
    return entries, files, bad


def load_expected() -> list[dict]:
    return json.load(open(EXPECTED_PATH))["entries"]


def compare(entries: list[dict], expected: list[dict]) -> tuple[list[dict], list[dict], list[tuple[dict, dict]]]:
    """(new entries, vanished expected entries, renames) — see module docstring."""
    key = lambda e: (e["file"], e["cat"], e["name"])
    exp = {key(e): e for e in expected}
    got = {key(e): e for e in entries}
    extra = [e for k, e in got.items() if k not in exp]
    gone = [e for k, e in exp.items() if k not in got]
    renames, new = [], []
    for e in extra:
        # a rename: same category, an expected entry vanished from the same file (or the file itself was renamed:
        # same base name elsewhere)
        m = next((g for g in gone if g["cat"] == e["cat"] and g["file"] == e["file"]), None) or \
            next((g for g in gone if g["cat"] == e["cat"] and os.path.basename(g["file"]) == os.path.basename(e["file"])
                  and g["name"] == e["name"]), None)
        if m is not None:
            gone.remove(m)
            renames.append((m, e))
        else:
            new.append(e)
    return new, gone, renames


if __name__ == "__main__":
    import sys
    repo = os.environ.get("FRAME_REPO", "/repo")
    ents, files, bad = inventory(repo)
    if len(sys.argv) > 1 and sys.argv[1] == "--write":
        old = {}
        if os.path.exists(EXPECTED_PATH):
            old = {(e["file"], e["cat"], e["name"]): e.get("modelled") for e in load_expected()}
        for e in ents:
            e["modelled"] = old.get((e["file"], e["cat"], e["name"])) or "NOT ACCOUNTED FOR - say which part of the model / footprint covers it"
        json.dump({"_comment": "process-wide mutable state found in the source of the modules C20 covers (harness/c20_inventory.py); "
                               "the `modelled` field says which piece of the Lean model / harness footprint accounts for the entry",
                   "entries": ents}, open(EXPECTED_PATH, "w"), indent=1)
    for e in ents:
        print(f"{e['file']}:{e['line']}  {e['cat']:16} {e['name']:50} {e['kind']}")
    print(len(files), "files scanned;", len(ents), "entries;", "unparsable:", bad)

#!/venv/bin/python
"""
FRAME verification harness — orchestration, verdict logic and evidence writer (DESIGN.md §4).

  ./check Cxx [--tier quick|thorough] [--replay FILE]

For one property it
  1. builds the Lean proof obligations (`lake build FV.Props.Cxx driver`) and audits them
     (forbidden tokens, `#print axioms` of every property theorem);
  2. runs the correspondence check (real Python from /repo's working tree  vs  the Lean model,
     executed by the compiled driver) on generated inputs, corpus first;
  3. evaluates the property's clauses on the implementation's own outputs (failing-input search);
  4. decides: exit 0 / `VIOLATION property=… replay=…` exit 1 / infrastructure error exit 2.
"""
from __future__ import annotations

import fcntl
import hashlib
import importlib
import json
import os
import random
import re
import struct
import subprocess
import sys
import time
import traceback
from fractions import Fraction
from typing import Any, Callable, Iterable

VERIF = os.path.dirname(os.path.dirname(os.path.abspath(__file__)))
LEAN = os.path.join(VERIF, "lean")
REPO = os.environ.get("FRAME_REPO", "/repo")
BIN = os.path.join(LEAN, ".lake", "build", "bin")
ALLOWED_AXIOMS = {"propext", "Classical.choice", "Quot.sound"}
FORBIDDEN = re.compile(r"\bsorry\b|\badmit\b|^\s*axiom\s|native_decide|bv_decide|implemented_by|\bunsafe\s|maxHeartbeats\s+0")

if REPO not in sys.path:
    sys.path.insert(0, REPO)
sys.path.insert(0, os.path.join(VERIF, "harness"))


# ----------------------------------------------------------------------------- number exchange
def f2hex(x: float) -> str:
    return struct.pack(">d", float(x)).hex()


def hex2f(s: str) -> float:
    return struct.unpack(">d", bytes.fromhex(s))[0]


def q2s(q) -> str:
    q = Fraction(q)
    return str(q.numerator) if q.denominator == 1 else f"{q.numerator}/{q.denominator}"


def s2q(s: str) -> Fraction:
    return Fraction(s)


def ulp_nudge(x: float, k: int) -> float:
    """x moved by k units in the last place."""
    import math
    for _ in range(abs(k)):
        x = math.nextafter(x, math.inf if k > 0 else -math.inf)
    return x


# ----------------------------------------------------------------------------- Lean side
class LeanSide:
    def __init__(self, pid: str, drivers: list[str]):
        self.pid = pid
        self.drivers = drivers
        self.build_ok = False
        self.driver_ok = False
        self.build_log = ""
        self.theorems: list[dict] = []
        self.audit_problems: list[str] = []
        self.checker_cmd = f"cd lean && lake build FV.Props.{pid} {' '.join(drivers)} && lake env lean <generated #print axioms audit of FV.Props.{pid}>"

    def _lake(self, args: list[str], timeout=3000) -> tuple[int, str]:
        lock = open(os.path.join(LEAN, ".build.lock"), "w")
        fcntl.flock(lock, fcntl.LOCK_EX)
        try:
            p = subprocess.run(["lake"] + args, cwd=LEAN, capture_output=True, text=True, timeout=timeout)
            return p.returncode, p.stdout + p.stderr
        finally:
            fcntl.flock(lock, fcntl.LOCK_UN)
            lock.close()

    def build(self) -> None:
        extra = []
        try:                                   # the translator tie elaborates a generated file that imports FV.Tie.Basic
            import tie_specs
            if self.pid in tie_specs.BY_PROPERTY and os.path.exists(os.path.join(LEAN, "FV", "Tie", "Basic.lean")):
                extra = ["FV.Tie.Basic"]
        except Exception:
            extra = []
        rc, log = self._lake(["build", f"FV.Props.{self.pid}"] + extra + self.drivers)
        self.build_log = log[-6000:]
        self.build_ok = rc == 0
        if rc == 0:
            self.driver_ok = True
        else:
            rc2, log2 = self._lake(["build"] + self.drivers)
            self.driver_ok = rc2 == 0 and all(os.path.exists(os.path.join(BIN, d)) for d in self.drivers)
            if not self.driver_ok:
                self.build_log += "\n--- driver build ---\n" + log2[-3000:]

    def prop_sources(self) -> list[str]:
        """Lean files the property's theorems depend on (transitively, inside lean/FV)."""
        seen, todo = [], [f"FV.Props.{self.pid}"]
        while todo:
            m = todo.pop()
            path = os.path.join(LEAN, *m.split(".")) + ".lean"
            if m in seen or not os.path.exists(path):
                continue
            seen.append(m)
            for line in open(path):
                mm = re.match(r"\s*import\s+(FV\.[A-Za-z0-9_.]+)", line)
                if mm:
                    todo.append(mm.group(1))
        return seen

    def audit(self) -> None:
        """forbidden-token grep + `#print axioms` of every theorem in FV/Props/Cxx.lean."""
        mods = self.prop_sources()
        for m in mods:
            path = os.path.join(LEAN, *m.split(".")) + ".lean"
            src = open(path).read()
            src = re.sub(r"/-.*?-/", "", src, flags=re.S)
            for i, line in enumerate(src.splitlines()):
                line = line.split("--")[0]
                if FORBIDDEN.search(line):
                    self.audit_problems.append(f"{m}: forbidden token in: {line.strip()[:80]}")
        path = os.path.join(LEAN, "FV", "Props", f"{self.pid}.lean")
        src = re.sub(r"/-.*?-/", "", open(path).read(), flags=re.S)
        ns: list[str] = []
        names = []
        for line in src.splitlines():
            m = re.match(r"namespace\s+(\S+)", line)
            if m:
                ns.append(m.group(1))
                continue
            m = re.match(r"end\s+(\S+)", line)
            if m and ns and ns[-1] == m.group(1):
                ns.pop()
                continue
            m = re.match(r"\s*(?:@\[[^\]]*\]\s*)?(?:private\s+|protected\s+)?theorem\s+(\S+)", line)
            if m:
                names.append(".".join(ns + [m.group(1)]))
        if not names:
            self.audit_problems.append("no property theorems found")
            return
        audit = os.path.join(LEAN, ".lake", f"audit_{self.pid}_{os.getpid()}.lean")   # per process: concurrent runs do not race
        with open(audit, "w") as f:
            f.write(f"import FV.Props.{self.pid}\n")
            for n in names:
                f.write(f"#print axioms {n}\n")
        p = subprocess.run(["lake", "env", "lean", audit], cwd=LEAN, capture_output=True, text=True, timeout=1800)
        out = p.stdout + p.stderr
        try:
            os.remove(audit)
        except OSError:
            pass
        found = {}
        for m in re.finditer(r"'([^']+)' depends on axioms: \[([^\]]*)\]", out.replace("\n", " ")):
            found[m.group(1)] = [a.strip() for a in m.group(2).split(",") if a.strip()]
        for m in re.finditer(r"'([^']+)' does not depend on any axioms", out):
            found[m.group(1)] = []
        for n in names:
            if n not in found:
                self.audit_problems.append(f"{n}: no axiom report ({out.strip()[:200]})")
                self.theorems.append({"name": n, "axioms": None, "ok": False})
                continue
            bad = [a for a in found[n] if a not in ALLOWED_AXIOMS]
            if bad:
                self.audit_problems.append(f"{n}: non-standard axioms {bad}")
            self.theorems.append({"name": n, "axioms": found[n], "ok": not bad})

    def leanchecker(self) -> tuple[bool, str]:
        p = subprocess.run(["lake", "env", "leanchecker", f"FV.Props.{self.pid}"], cwd=LEAN,
                           capture_output=True, text=True, timeout=3000)
        return p.returncode == 0, (p.stdout + p.stderr)[-500:]

    @property
    def proofs_ok(self) -> bool:
        return self.build_ok and not self.audit_problems and all(t["ok"] for t in self.theorems)


def run_driver(lines: list[str], exe: str = "drv_geom") -> list[str]:
    """one request per line → one reply per line (compiled Lean driver)."""
    if not lines:
        return []
    p = subprocess.run([os.path.join(BIN, exe)], input="\n".join(lines) + "\n", capture_output=True, text=True, timeout=3000)
    out = p.stdout.split("\n")
    if out and out[-1] == "":
        out.pop()
    if len(out) != len(lines):
        raise RuntimeError(f"driver returned {len(out)} lines for {len(lines)} requests; stderr={p.stderr[:300]}")
    return out


# ----------------------------------------------------------------------------- context
class Ctx:
    def __init__(self, pid: str, tier: str, seed: int, lean: LeanSide | None, budget: float = 1.0):
        self.pid, self.tier, self.seed, self.lean = pid, tier, seed, lean
        self.rng = random.Random(f"{pid}-{seed}")
        self.budget = budget  # multiplier for case counts (extended search ×20)
        self.evaluations = 0
        self._distinct: set[str] = set()
        self.samples: list[Any] = []
        self.streams: dict[str, int] = {}
        self.disagreements: list[dict] = []
        self.spec_failures: list[dict] = []
        self.drift = 0
        self.ties = 0
        self.dist: dict[str, int] = {}
        self.notes: list[str] = []
        self.assumptions: list[str] = []
        self.rule = ""
        self.extra: dict[str, Any] = {}
        self.model_available = lean.driver_ok if lean else False

    def n(self, quick: int, thorough: int) -> int:
        return max(1, int((quick if self.tier == "quick" else thorough) * self.budget))

    def case(self, stream: str, key: Any, nontrivial: bool = True, sample: Any = None) -> None:
        self.evaluations += 1
        self.streams[stream] = self.streams.get(stream, 0) + 1
        if nontrivial:
            h = hashlib.sha1(repr(key).encode()).hexdigest()
            self._distinct.add(h)
        if sample is not None and len(self.samples) < 6 and self.rng.random() < 0.5 or (sample is not None and not self.samples):
            self.samples.append(sample)

    def count(self, what: str, k: int = 1) -> None:
        self.dist[what] = self.dist.get(what, 0) + k

    def disagree(self, op: str, inp: Any, impl: Any, model: Any, size: int = 0) -> None:
        self.disagreements.append({"op": op, "input": inp, "impl": impl, "model": model, "size": size})

    def spec_fail(self, clause: str, inp: Any, detail: Any, size: int = 0, finding: str | None = None) -> None:
        self.spec_failures.append({"clause": clause, "input": inp, "detail": detail, "size": size, "finding": finding})

    def model(self, lines: list[str], exe: str | None = None) -> list[str] | None:
        """run the Lean model driver `exe` (default: the property's first driver) on the request lines."""
        if not self.model_available:
            return None
        return run_driver(lines, exe or self.lean.drivers[0])


# ----------------------------------------------------------------------------- verdict
def load_known() -> list[dict]:
    p = os.path.join(VERIF, "known_findings.json")
    if not os.path.exists(p):
        return []
    return json.load(open(p))


def write_replay(pid: str, seed: int, n: int, body: dict) -> str:
    # seeded-change experiments (VERIF_EVIDENCE_DIR set) keep their replays apart so that concurrent runs of the same
    # property against different trees cannot overwrite each other's files
    alt = os.environ.get("VERIF_EVIDENCE_DIR")
    d = os.path.join(alt, f"replays_{os.getpid()}") if alt else os.path.join(VERIF, "replays")
    os.makedirs(d, exist_ok=True)
    path = os.path.join(d, f"{pid}-{seed}-{n}.json")
    body = dict(body)
    body["property"] = pid
    body["how_to_replay"] = f"./check {pid} --replay {os.path.relpath(path, VERIF)}"
    with open(path, "w") as f:
        json.dump(body, f, indent=1, default=str)
    return os.path.relpath(path, VERIF)


def write_evidence(pid: str, tier: str, seed: int, lean: LeanSide, ctx: Ctx, wall: float, violations: int,
                   level: str, trusted: list[str], extra: dict) -> None:
    # seeded-change experiments redirect their evidence so that evidence/ always describes /repo itself
    d = os.environ.get("VERIF_EVIDENCE_DIR") or os.path.join(VERIF, "evidence")
    os.makedirs(d, exist_ok=True)
    cov = {
        "obligations": len(lean.theorems),
        "discharged": sum(1 for t in lean.theorems if t["ok"]) if lean.build_ok else 0,
        "checker_cmd": lean.checker_cmd,
        "trusted_base": trusted,
        "evaluations": ctx.evaluations,
        "distinct_nontrivial": len(ctx._distinct),
        "rule": ctx.rule,
        "samples": ctx.samples[:6],
        "streams": ctx.streams,
        "disagreements": len(ctx.disagreements),
        "spec_failures": len(ctx.spec_failures),
        "float_drift": ctx.drift,
        "near_ties_not_compared": ctx.ties,
        "input_distribution": ctx.dist,
        "theorems": lean.theorems,
        "audit_problems": lean.audit_problems,
        "notes": ctx.notes,
    }
    cov.update(extra)
    cov.update(ctx.extra)
    ev = {
        "property_id": pid, "tier": tier, "seed": seed, "level": level, "coverage": cov,
        "assumptions": ctx.assumptions, "wall_s": round(wall, 2), "violations": violations,
    }
    with open(os.path.join(d, f"{pid}.json"), "w") as f:
        json.dump(ev, f, indent=1, default=str)


def main(argv: list[str]) -> int:
    import argparse
    ap = argparse.ArgumentParser()
    ap.add_argument("pid")
    ap.add_argument("--tier", default=os.environ.get("VERIF_TIER", "quick"))
    ap.add_argument("--replay", default=None)
    a = ap.parse_args(argv)
    pid, tier = a.pid, a.tier
    seed = int(os.environ.get("VERIF_SEED", "0") or 0)
    t0 = time.time()
    try:
        mod = importlib.import_module(f"props.{pid.lower()}")
    except Exception:
        traceback.print_exc()
        return 2

    lean = LeanSide(pid, list(getattr(mod, "DRIVERS", ["drv_geom"])))
    try:
        lean.build()
        if lean.build_ok:
            lean.audit()
    except Exception:
        traceback.print_exc()
        print("infrastructure error while building the Lean side", file=sys.stderr)
        return 2
    extra: dict[str, Any] = {}
    if tier == "thorough" and lean.build_ok:
        ok, msg = lean.leanchecker()
        extra["leanchecker"] = {"ok": ok, "tail": msg}
        if not ok:
            lean.audit_problems.append("leanchecker rejected the compiled module")

    if a.replay:
        body = json.load(open(a.replay if os.path.isabs(a.replay) else os.path.join(VERIF, a.replay)))
        ctx = Ctx(pid, tier, seed, lean)
        if isinstance(body.get("input"), dict) and body["input"].get("witness_script"):
            wr = subprocess.run(["/venv/bin/python", os.path.join(VERIF, body["input"]["witness_script"])], cwd=VERIF,
                                env=dict(os.environ, FRAME_REPO=REPO, PYTHONPATH=REPO))
            print("REPLAY witness exit", wr.returncode)
            return 1 if wr.returncode == 1 else 0
        mod.replay(ctx, body)
        for f in ctx.spec_failures:
            print("REPLAY spec-failure:", f["clause"], json.dumps(f["detail"], default=str)[:400])
        for d in ctx.disagreements:
            print("REPLAY disagreement:", d["op"], "impl=", str(d["impl"])[:200], "model=", str(d["model"])[:200])
        if not ctx.spec_failures and not ctx.disagreements:
            print("REPLAY: no failure reproduced")
            return 0
        return 1

    # source-level tie (harness/anchors.py): which anchored functions differ from the tree the model was written
    # against?  A difference is never a failure; it multiplies the case budget (the search goes where the code moved).
    src_changed = None
    base_budget = 1.0
    try:
        import anchors
        src_changed = anchors.changed(pid, REPO)
        if src_changed:
            base_budget = float(os.environ.get("VERIF_ESCALATE", "4" if tier == "quick" else "2"))
        extra["source_fingerprint"] = {
            "baseline": "harness/anchors_baseline.json",
            "anchored_functions_changed_since_baseline": src_changed if src_changed is not None else "no baseline",
            "case_budget_multiplier": base_budget}
    except Exception as ex:
        extra["source_fingerprint"] = {"error": repr(ex)[:200]}

    # translator tie (harness/tie.py, harness/pytrans.py): Lean definitions regenerated from the CURRENT source text of
    # the straight-line kernels + kernel-checked theorems "generated = hand-written model" over every ordered field.
    # proved            -> the property theorems are theorems about what the source says now (for these functions);
    # unproved + a concrete rational input on which generated and model differ -> broken correspondence (replayable);
    # unproved / untranslatable without a differing input -> not an alarm (the sampled correspondence below is still the
    #   official tie) but the case budget is multiplied and the evidence says so.
    tie_res = None
    tie_disagreements: list[dict] = []
    if not a.replay:
        try:
            import tie
            import tie_specs
            if pid in tie_specs.BY_PROPERTY and os.environ.get("VERIF_NO_TIE") != "1":
                tie_res = tie.run(pid, REPO, seed)
        except Exception as ex:
            extra["translated_tie"] = {"error": repr(ex)[:300]}
    if tie_res is not None:
        fns = tie_res.get("functions", {})
        summary = {"functions": {}, "wall_s": tie_res.get("wall_s"), "proved": 0, "total": len(fns),
                   "what": "Python->Lean translation of the current source text; theorem generated = model for all inputs "
                           "over ordered fields (axioms audited); Rat differential and Float self-check of the translator"}
        for name, r in fns.items():
            st = r.get("status")
            bad_ax = [x for x in (r.get("axioms") or []) if x not in ALLOWED_AXIOMS]
            if st == "proved" and bad_ax:
                st = "unproved"
                r["reason"] = f"non-standard axioms {bad_ax}"
            summary["functions"][name] = {k: r.get(k) for k in ("status", "reason", "axioms", "differs_at", "float_selfcheck")
                                          if r.get(k) is not None}
            summary["functions"][name]["status"] = st
            if st == "proved":
                summary["proved"] += 1
            elif r.get("differs_at") is not None:
                tie_disagreements.append({"op": f"tie:{name}", "input": {"tie_function": name, "differs_at": r.get("differs_at")},
                                          "impl": r.get("gen_value", "generated definition (current source text)"),
                                          "model": r.get("model_value", "hand-written model"), "size": 0})
        if summary["proved"] < summary["total"]:
            base_budget = max(base_budget, float(os.environ.get("VERIF_ESCALATE", "4" if tier == "quick" else "2")))
            summary["stderr_tail"] = (tie_res.get("stderr_tail") or "")[-600:]
        extra["translated_tie"] = summary

    def explore(budget: float) -> Ctx:
        ctx = Ctx(pid, tier, seed, lean, budget)
        mod.run(ctx)
        return ctx

    cov = None
    try:
        import anchors
        cov = anchors.LineCoverage(pid, REPO)
        cov.start()
    except Exception:
        cov = None
    try:
        ctx = explore(base_budget)
    except Exception:
        traceback.print_exc()
        print("infrastructure error in the harness", file=sys.stderr)
        return 2
    finally:
        if cov is not None:
            try:
                cov.stop()
                extra["anchored_line_coverage"] = cov.report()
            except Exception as ex:
                extra["anchored_line_coverage"] = {"measured": False, "why": repr(ex)[:200]}
    if src_changed:
        ctx.notes.append(f"{len(src_changed)} anchored function(s) differ from the fingerprint baseline: case budget x{base_budget:g}")
    if tie_disagreements:
        ctx.disagreements += tie_disagreements
        ctx.notes.append(f"translator tie: {len(tie_disagreements)} function(s) differ from the model on a concrete input")
    if tie_res is not None and extra.get("translated_tie", {}).get("proved", 0) < extra.get("translated_tie", {}).get("total", 0):
        ctx.notes.append("translator tie: not every generated definition was proved equal to the model "
                         f"({extra['translated_tie']['proved']}/{extra['translated_tie']['total']}); case budget x{base_budget:g}")

    proofs_ok = lean.proofs_ok
    if not ctx.spec_failures and (not proofs_ok or ctx.disagreements):
        # a proof obligation or the correspondence is broken: look harder for a failing input
        try:
            ctx2 = Ctx(pid, tier, seed + 7919, lean, 20.0 if tier == "quick" else 5.0)
            ctx2.seed_inputs = [d["input"] for d in ctx.disagreements[:50]]
            mod.run(ctx2)
            ctx.evaluations += ctx2.evaluations
            ctx._distinct |= ctx2._distinct
            ctx.spec_failures += ctx2.spec_failures
            ctx.disagreements += ctx2.disagreements
            ctx.notes.append(f"extended search ran {ctx2.evaluations} more cases")
        except Exception:
            traceback.print_exc()
            return 2

    # corpus of past defects: every finding of this property (open or fixed) has a stand-alone witness script
    # (exit 1 = the defect is present).  A fixed defect that shows again is a violation; an open one is announced.
    witness_known: set[str] = set()
    for k in load_known():
        if k.get("property") != pid or not k.get("witness_script"):
            continue
        wpath = os.path.join(VERIF, k["witness_script"])
        try:
            wr = subprocess.run(["/venv/bin/python", wpath], cwd=VERIF, capture_output=True, text=True, timeout=600,
                                env=dict(os.environ, FRAME_REPO=REPO, PYTHONPATH=REPO))
        except Exception as ex:
            ctx.notes.append(f"witness {k['witness_script']} could not be run: {ex}")
            continue
        ctx.evaluations += 1
        ctx.streams["witness-corpus"] = ctx.streams.get("witness-corpus", 0) + 1
        if wr.returncode == 1:
            if k.get("status") == "open":
                witness_known.add(k["id"])
            else:
                ctx.spec_fail("regression:" + k["id"], {"witness_script": k["witness_script"]},
                              {"output": (wr.stdout + wr.stderr)[-600:], "was_fixed_in": k.get("commit")}, size=0)
        elif wr.returncode != 0:
            ctx.notes.append(f"witness {k['witness_script']} exited {wr.returncode}: {(wr.stdout + wr.stderr)[-200:]}")
        elif k.get("status") == "open":
            ctx.notes.append(f"open finding {k['id']}: its witness no longer reproduces")

    known = [k for k in load_known() if k.get("status") == "open" and k.get("property") == pid]
    known_ids = {k["id"]: k for k in known}
    violations = 0
    printed_known = set()
    for fid in sorted(witness_known):
        printed_known.add(fid)
        print(f"KNOWN-FINDING: property={pid} {fid}: {known_ids[fid]['what']}")
    n = 0
    new_failures = []
    for f in sorted(ctx.spec_failures, key=lambda f: f["size"]):
        fid = f.get("finding")
        if fid and fid in known_ids:
            if fid not in printed_known:
                printed_known.add(fid)
                print(f"KNOWN-FINDING: property={pid} {fid}: {known_ids[fid]['what']}")
            continue
        new_failures.append(f)
    # one replay per distinct clause (smallest input first)
    seen_clause = set()
    for f in new_failures:
        if f["clause"] in seen_clause:
            continue
        seen_clause.add(f["clause"])
        if violations >= 3:
            continue
        path = write_replay(pid, seed, n, {"kind": "spec-failure", "clause": f["clause"], "input": f["input"],
                                           "detail": f["detail"]})
        n += 1
        violations += 1
        print(f"VIOLATION property={pid} replay={path}")
    if not new_failures:
        if ctx.disagreements:
            d = sorted(ctx.disagreements, key=lambda d: d["size"])[0]
            path = write_replay(pid, seed, n, {"kind": "correspondence", "clause": d["op"], "input": d["input"],
                                               "impl_output": d["impl"], "model_output": d["model"],
                                               "note": "model and implementation disagree; no input violating the "
                                                       "property was found by the extended search"})
            violations += 1
            print(f"VIOLATION property={pid} replay={path} no-failing-input-found")
        elif not proofs_ok:
            what = lean.audit_problems[:5] if lean.build_ok else ["lake build failed"]
            path = write_replay(pid, seed, n, {"kind": "proof-obligation", "clause": what,
                                               "build_log_tail": lean.build_log[-3000:],
                                               "note": "a proof obligation no longer checks; no input violating the "
                                                       "property was found by the extended search"})
            violations += 1
            print(f"VIOLATION property={pid} replay={path} no-failing-input-found")

    level = getattr(mod, "LEVEL", "proof")
    if level not in ("exploration", "fault_enumeration", "model_checking", "proof", "translation_validation", "other"):
        extra["level_text"] = level          # free-text qualification (e.g. "partial w.r.t. floats") goes into coverage
        level = "proof"
    trusted = getattr(mod, "TRUSTED", [])
    write_evidence(pid, tier, seed, lean, ctx, time.time() - t0, violations, level, trusted, extra)
    print(f"{pid} tier={tier} seed={seed}: theorems={len(lean.theorems)} proofs_ok={proofs_ok} cases={ctx.evaluations} "
          f"distinct={len(ctx._distinct)} disagreements={len(ctx.disagreements)} spec_failures={len(ctx.spec_failures)} "
          f"known={len(printed_known)} violations={violations} wall={time.time() - t0:.1f}s")
    return 1 if violations else 0


if __name__ == "__main__":
    sys.exit(main(sys.argv[1:]))
